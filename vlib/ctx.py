"""Per-worker check context: counters, digests, samples, violations.

Everything a monitor reports goes through a Ctx.  A Ctx is owned by exactly one
worker process (checks are single-threaded), serialised to a partial result
file at the end and merged by the parent (vlib/runner.py).
"""
import os
import collections
import hashlib
import json
import random
import time

MAX_VIOLATIONS_KEPT = 30
MAX_SAMPLES = 8


def jsonable(obj, depth=0):
    """Best-effort conversion of a case to something json.dump accepts."""
    if depth > 12:
        return repr(obj)
    if obj is None or isinstance(obj, (bool, int, float, str)):
        if isinstance(obj, float) and (obj != obj or obj in (float('inf'), float('-inf'))):
            return repr(obj)
        return obj
    if isinstance(obj, (bytes, bytearray)):
        b = bytes(obj)
        if len(b) > 4096:
            return {'__bytes_len__': len(b), 'head_hex': b[:256].hex(),
                    'blake2b': hashlib.blake2b(b, digest_size=16).hexdigest()}
        return {'__hex__': b.hex()}
    if isinstance(obj, dict):
        return {(k if isinstance(k, str) else repr(k)): jsonable(v, depth + 1)
                for k, v in obj.items()}
    if isinstance(obj, (list, tuple, set, frozenset)):
        seq = list(obj)
        if isinstance(obj, (set, frozenset)):
            seq = sorted(seq, key=repr)
        return [jsonable(v, depth + 1) for v in seq]
    if isinstance(obj, BaseException):
        try:
            msg = str(obj)[:300]
        except Exception:  # noqa  (an exception whose __str__ itself fails)
            msg = '<unprintable>'
        return {'__exc__': type(obj).__name__, 'msg': msg}
    try:
        return repr(obj)[:500]
    except Exception:  # noqa
        return '<unprintable %s>' % type(obj).__name__


def unhex(obj):
    """Inverse of jsonable for byte strings (used by replay)."""
    if isinstance(obj, dict):
        if set(obj) == {'__hex__'}:
            return bytes.fromhex(obj['__hex__'])
        return {k: unhex(v) for k, v in obj.items()}
    if isinstance(obj, list):
        return [unhex(v) for v in obj]
    return obj


def _active_modes():
    try:
        from vlib import envmodes
        return [m for m in envmodes.ACTIVE if m != 'none']
    except Exception:  # noqa
        return []


class Ctx:
    def __init__(self, prop, tier, seed, shard=0, nshards=1, replay=False):
        self.prop = prop
        self.tier = tier
        self.seed = seed
        self.shard = shard
        self.nshards = nshards
        self.replay = replay
        self.t0 = time.time()
        self.evaluations = 0
        self.digests = set()
        self.clauses = collections.Counter()
        self.hist = collections.defaultdict(collections.Counter)
        self.samples = {}
        self.violations = []
        self.violation_count = 0
        self.known_seen = collections.Counter()
        self.known_witness = {}
        self.notes = []
        self.inconclusive = []
        self.exhaustive = {}
        self.extra = {}
        self._known = None

    # ---- randomness -------------------------------------------------
    def rng(self, stream):
        return random.Random('%s/%s/%s' % (self.seed, self.prop, stream))

    def mine(self, index):
        """Sharding: does case number `index` belong to this worker?"""
        return index % self.nshards == self.shard

    @property
    def quick(self):
        return self.tier == 'quick'

    def pick(self, quick, thorough):
        return quick if self.tier == 'quick' else thorough

    # ---- accounting -------------------------------------------------
    def case(self, key, nontrivial=True, n=1):
        """Register one monitored execution; key identifies the case."""
        self.evaluations += n
        if nontrivial:
            if not isinstance(key, (bytes, bytearray)):
                key = repr(key).encode('utf-8', 'backslashreplace')
            self.digests.add(hashlib.blake2b(key, digest_size=8).digest())

    def clause(self, name, n=1):
        self.clauses[name] += n

    def h(self, hist, key, n=1):
        self.hist[hist][key if isinstance(key, str) else repr(key)] += n

    def sample(self, klass, obj):
        if klass not in self.samples and len(self.samples) < MAX_SAMPLES:
            self.samples[klass] = jsonable(obj)

    def note(self, text):
        if text not in self.notes:
            self.notes.append(text)

    def inconclusive_because(self, reason):
        if reason not in self.inconclusive:
            self.inconclusive.append(reason)

    # ---- verdicts ---------------------------------------------------
    def fail(self, clause, case, detail, known=None):
        """A monitor disagreed.

        known: id of a finding whose *input predicate* (vlib/known.py) the
        check evaluated to true for this case, or None.  It only suppresses the
        violation if that id is listed as kind=known for this property.
        """
        if known is not None:
            from vlib import known as knownmod
            if knownmod.is_listed(known, self.prop):
                self.known_seen[known] += 1
                if known not in self.known_witness:
                    self.known_witness[known] = {
                        'clause': clause, 'detail': jsonable(detail)}
                return False
        self.violation_count += 1
        self.hist['violations by clause'][clause] += 1
        if (self.hist['violations by clause'][clause] <= 3 and
                len(self.violations) < MAX_VIOLATIONS_KEPT):
            self.violations.append({
                'property': self.prop, 'clause': clause,
                'case': jsonable(case), 'detail': jsonable(detail),
                'seed': self.seed, 'tier': self.tier,
                'interp_flags': os.environ.get('VERIF_INTERP_FLAGS', ''),
                'modes': _active_modes()})
        return True

    # ---- (de)serialisation -----------------------------------------
    def dump(self, path, reach):
        doc = {
            'evaluations': self.evaluations,
            'clauses': dict(self.clauses),
            'hist': {k: dict(v) for k, v in self.hist.items()},
            'samples': self.samples,
            'violations': self.violations,
            'violation_count': self.violation_count,
            'known_seen': dict(self.known_seen),
            'known_witness': self.known_witness,
            'notes': self.notes,
            'inconclusive': self.inconclusive,
            'exhaustive': self.exhaustive,
            'extra': jsonable(self.extra),
            'reach': reach,
            'wall_s': time.time() - self.t0,
        }
        with open(path + '.digests', 'wb') as f:
            f.write(b''.join(sorted(self.digests)))
        with open(path, 'w') as f:
            json.dump(doc, f)
