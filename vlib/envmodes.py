"""Process-wide modes a caller of the library may legitimately be running under.  None of the properties mentions them, so
none of the properties may depend on them; checks run a share of their cases inside these context managers."""
import contextlib
import os
import time


@contextlib.contextmanager
def lazy_i18n(on=True):
    """oslo_i18n.enable_lazy(True): _() returns Message objects instead of str (the usual setting of API services)."""
    import oslo_i18n
    from oslo_i18n import _lazy
    old = _lazy.USE_LAZY
    oslo_i18n.enable_lazy(on)
    try:
        yield
    finally:
        oslo_i18n.enable_lazy(old)


@contextlib.contextmanager
def process_tz(name):
    old = os.environ.get('TZ')
    os.environ['TZ'] = name
    time.tzset()
    try:
        yield
    finally:
        if old is None:
            os.environ.pop('TZ', None)
        else:
            os.environ['TZ'] = old
        time.tzset()


def lazy_for(case, share=6):
    """Deterministic choice (same on replay) of the cases evaluated under lazy translation."""
    import json
    import zlib
    try:
        return zlib.crc32(json.dumps(case, sort_keys=True, default=repr).encode()) % share == 0
    except Exception:  # noqa
        return False


def evaluate_with_modes(inner):
    """Wraps a check's evaluate(ctx, case): a fixed share of the cases runs with oslo_i18n lazy translation enabled."""
    def evaluate(ctx, case):
        if isinstance(case, dict) and lazy_for(case) and not MODES_OFF[0]:
            ctx.clause('under-lazy-translation')
            with lazy_i18n():
                return inner(ctx, case)
        return inner(ctx, case)
    evaluate.__wrapped__ = inner
    return evaluate


@contextlib.contextmanager
def warnings_as_errors():
    """What `python -W error` does, scoped to the calls made inside: a warning the library issues becomes an exception."""
    import warnings
    with warnings.catch_warnings():
        warnings.simplefilter('error')
        yield


@contextlib.contextmanager
def decimal_context(prec=9, trap_inexact=False):
    """The caller's thread runs with a non-default decimal context (decimal.BasicContext has prec=9)."""
    import decimal
    ctx = decimal.Context(prec=prec)
    if trap_inexact:
        ctx.traps[decimal.Inexact] = True
    with decimal.localcontext(ctx):
        yield


@contextlib.contextmanager
def stdin_replaced(obj):
    """sys.stdin is None (daemon, fd 0 closed) or an object without .encoding (a harness's BytesIO)."""
    import sys
    old = sys.stdin
    sys.stdin = obj
    try:
        yield
    finally:
        sys.stdin = old


def call_at_depth(f, headroom):
    """Calls f() with only `headroom` frames left below the recursion limit (a logging call from deep recursion);
    returns (result, exception)."""
    import sys
    limit = sys.getrecursionlimit()

    def down(n):
        if n <= 0:
            try:
                return f(), None
            except BaseException as e:  # noqa
                return None, e
        return down(n - 1)
    depth = 0
    fr = sys._getframe()
    while fr is not None:
        depth += 1
        fr = fr.f_back
    return down(max(0, limit - depth - headroom - 2))


@contextlib.contextmanager
def int_max_str_digits(n):
    """The process has changed the interpreter's int <-> str digit limit (0 = no limit; 640 is the lowest allowed)."""
    import sys
    old = sys.get_int_max_str_digits()
    sys.set_int_max_str_digits(n)
    try:
        yield
    finally:
        sys.set_int_max_str_digits(old)


MODES_OFF = [False]      # set while several threads evaluate cases at once: the modes below change process-wide settings


def with_modes(inner, lazy=None, warn=None, share_lazy=6, share_warn=5):
    """Wraps a check's evaluate(ctx, case).  lazy / warn: predicates over cases (or None) saying for which cases the mode
    is sound on the pinned tree; a fixed, replay-stable share of those cases then runs under oslo_i18n lazy translation /
    with warnings turned into errors (what `python -W error` does for the process, scoped here to the calls).  A warning
    the library issues on a path the property covers then surfaces as an exception that is neither the documented
    result nor the documented error."""
    import json
    import zlib

    def digest(case, salt):
        try:
            return zlib.crc32((salt + json.dumps(case, sort_keys=True, default=repr)).encode())
        except Exception:  # noqa
            return 1

    def evaluate(ctx, case):
        if not isinstance(case, dict) or MODES_OFF[0]:
            return inner(ctx, case)
        use_lazy = lazy is not None and lazy(case) and digest(case, 'lazy') % share_lazy == 0
        use_warn = warn is not None and warn(case) and digest(case, 'warn') % share_warn == 0
        with contextlib.ExitStack() as stack:
            if use_lazy:
                ctx.clause('under-lazy-translation')
                stack.enter_context(lazy_i18n())
            if use_warn:
                ctx.clause('under-warnings-as-errors')
                stack.enter_context(warnings_as_errors())
            return inner(ctx, case)
    evaluate.__wrapped__ = inner
    return evaluate
