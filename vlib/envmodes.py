"""Process-wide modes a caller of the library may legitimately be running under.  None of the properties mentions them, so
none of the properties may depend on them; checks run a share of their cases inside these context managers."""
import contextlib
import os
import time


@contextlib.contextmanager
def lazy_i18n(on=True):
    """oslo_i18n.enable_lazy(True): _() returns Message objects instead of str (the usual setting of API services)."""
    import oslo_i18n
    from oslo_i18n import _lazy
    old = _lazy.USE_LAZY
    oslo_i18n.enable_lazy(on)
    try:
        yield
    finally:
        oslo_i18n.enable_lazy(old)


@contextlib.contextmanager
def process_tz(name):
    old = os.environ.get('TZ')
    os.environ['TZ'] = name
    time.tzset()
    try:
        yield
    finally:
        if old is None:
            os.environ.pop('TZ', None)
        else:
            os.environ['TZ'] = old
        time.tzset()


def lazy_for(case, share=6):
    """Deterministic choice (same on replay) of the cases evaluated under lazy translation."""
    import json
    import zlib
    try:
        return zlib.crc32(json.dumps(case, sort_keys=True, default=repr).encode()) % share == 0
    except Exception:  # noqa
        return False


def evaluate_with_modes(inner):
    """Wraps a check's evaluate(ctx, case): a fixed share of the cases runs with oslo_i18n lazy translation enabled."""
    def evaluate(ctx, case):
        if isinstance(case, dict) and lazy_for(case) and not MODES_OFF[0]:
            ctx.clause('under-lazy-translation')
            with lazy_i18n():
                return inner(ctx, case)
        return inner(ctx, case)
    evaluate.__wrapped__ = inner
    return evaluate


@contextlib.contextmanager
def warnings_as_errors():
    """What `python -W error` does, scoped to the calls made inside: a warning the library issues becomes an exception."""
    import warnings
    with warnings.catch_warnings():
        warnings.simplefilter('error')
        yield


@contextlib.contextmanager
def decimal_context(prec=9, trap_inexact=False):
    """The caller's thread runs with a non-default decimal context (decimal.BasicContext has prec=9)."""
    import decimal
    ctx = decimal.Context(prec=prec)
    if trap_inexact:
        ctx.traps[decimal.Inexact] = True
    with decimal.localcontext(ctx):
        yield


@contextlib.contextmanager
def stdin_replaced(obj):
    """sys.stdin is None (daemon, fd 0 closed) or an object without .encoding (a harness's BytesIO)."""
    import sys
    old = sys.stdin
    sys.stdin = obj
    try:
        yield
    finally:
        sys.stdin = old


def call_at_depth(f, headroom):
    """Calls f() with only `headroom` frames left below the recursion limit (a logging call from deep recursion);
    returns (result, exception)."""
    import sys
    limit = sys.getrecursionlimit()

    def down(n):
        if n <= 0:
            try:
                return f(), None
            except BaseException as e:  # noqa
                return None, e
        return down(n - 1)
    depth = 0
    fr = sys._getframe()
    while fr is not None:
        depth += 1
        fr = fr.f_back
    return down(max(0, limit - depth - headroom - 2))


@contextlib.contextmanager
def int_max_str_digits(n):
    """The process has changed the interpreter's int <-> str digit limit (0 = no limit; 640 is the lowest allowed)."""
    import sys
    old = sys.get_int_max_str_digits()
    sys.set_int_max_str_digits(n)
    try:
        yield
    finally:
        sys.set_int_max_str_digits(old)


@contextlib.contextmanager
def debug_logging(names=('oslo_utils',)):
    """The service runs with debug=True: the library's loggers are enabled for DEBUG and a handler renders every record
    (as oslo.log's handlers do), so whatever a debug statement computes for its arguments is computed."""
    import logging

    class Render(logging.Handler):
        def emit(self, record):
            try:
                record.getMessage()
            except Exception:  # noqa  (logging.Handler.handleError would only print it)
                pass
    saved = []
    disabled = logging.root.manager.disable
    logging.disable(logging.NOTSET)
    h = Render(level=logging.DEBUG)
    for n in names:
        lg = logging.getLogger(n)
        saved.append((lg, lg.level, lg.propagate))
        lg.setLevel(logging.DEBUG)
        lg.addHandler(h)
        lg.propagate = False
    try:
        yield
    finally:
        logging.disable(disabled)
        for lg, level, prop in saved:
            lg.removeHandler(h)
            lg.setLevel(level)
            lg.propagate = prop


@contextlib.contextmanager
def pyparsing_inline_literals(cls_name='Suppress'):
    """Another pyparsing user in the process has called ParserElement.inline_literals_using(Suppress) (documented, and
    common in grammars that do not want punctuation in their results): bare strings inside expressions built from now
    on become that class instead of Literal."""
    import pyparsing
    PE = pyparsing.ParserElement
    old = PE._literalStringClass
    PE.inline_literals_using(getattr(pyparsing, cls_name))
    try:
        yield
    finally:
        PE.inline_literals_using(old)


ACTIVE = []              # names of the modes the case being evaluated runs under (recorded in a violation's replay file)
FORCE = [None]           # set on --replay to the recorded names: exactly those modes are entered, whatever the digest says
MODES_OFF = [False]      # set while several threads evaluate cases at once: the modes below change process-wide settings


def with_modes(inner, lazy=None, warn=None, share_lazy=6, share_warn=5, debug=None, share_debug=3, digits=None,
               share_digits=5, pp=None, share_pp=5):
    """Wraps a check's evaluate(ctx, case).  lazy / warn: predicates over cases (or None) saying for which cases the mode
    is sound on the pinned tree; a fixed, replay-stable share of those cases then runs under oslo_i18n lazy translation /
    with warnings turned into errors (what `python -W error` does for the process, scoped here to the calls).  A warning
    the library issues on a path the property covers then surfaces as an exception that is neither the documented
    result nor the documented error.  debug: the library's loggers at DEBUG with a rendering handler; digits: the
    interpreter's int<->str digit limit switched off (sys.set_int_max_str_digits(0)); pp: pyparsing's process-wide
    inline-literal class set to Suppress."""
    import json
    import zlib

    def digest(case, salt):
        try:
            return zlib.crc32((salt + json.dumps(case, sort_keys=True, default=repr)).encode())
        except Exception:  # noqa
            return 1

    def evaluate(ctx, case):
        if not isinstance(case, dict) or MODES_OFF[0]:
            return inner(ctx, case)
        def want(pred, salt, share, name):
            if FORCE[0] is not None:
                return name in FORCE[0]
            return pred is not None and pred(case) and digest(case, salt) % share == 0
        if ACTIVE:               # an evaluator wrapped inside another wrapped evaluator: the outer one has decided
            return inner(ctx, case)
        with contextlib.ExitStack() as stack:
            stack.callback(ACTIVE.clear)
            if want(lazy, 'lazy', share_lazy, 'lazy'):
                ctx.clause('under-lazy-translation')
                stack.enter_context(lazy_i18n())
                ACTIVE.append('lazy')
            if want(warn, 'warn', share_warn, 'warn'):
                ctx.clause('under-warnings-as-errors')
                stack.enter_context(warnings_as_errors())
                ACTIVE.append('warn')
            if want(debug, 'debug', share_debug, 'debug'):
                ctx.clause('under-debug-logging')
                stack.enter_context(debug_logging())
                ACTIVE.append('debug')
            if want(digits, 'digits', share_digits, 'digits'):
                ctx.clause('under-unlimited-int-digits')
                stack.enter_context(int_max_str_digits(0))
                ACTIVE.append('digits')
            if want(pp, 'pp', share_pp, 'pp'):
                ctx.clause('under-pyparsing-inline-literals-suppressed')
                stack.enter_context(pyparsing_inline_literals())
                ACTIVE.append('pp')
            if not ACTIVE:
                ACTIVE.append('none')
            return inner(ctx, case)
    evaluate.__wrapped__ = inner
    return evaluate
