"""Equal-but-different arguments, and the order in which they are asked.

A library function of the kind checked here is a function of the characters (or the number) it is given.  Two things a
caller may legitimately hand over make a memo keyed by the *object* (functools.lru_cache on the raw argument, a dict of
recent answers) answer with somebody else's result:

* numbers that compare equal across types (7, 7.0, Decimal('7'), Fraction(7), True == 1, an IntEnum member) and hash alike;
* str subclasses with their own idea of equality (a case-insensitive string as used for header and route tables), or with
  __eq__ but no __hash__.

`order_independence` calls a list of labelled thunks in the given order, then in reverse, then rotated, and requires every
label to have the same outcome each time: under any reading of a property that makes the answer a function of the input,
two different outcomes for one input cannot both be right - so the clause needs no oracle and is sound in DONT-CARE zones
too.  `as_characters` additionally requires a str-subclass argument to be answered like the plain str with its characters.
"""
import decimal
import enum
import fractions


class CIStr(str):
    """Case-insensitive string: equal (and hashing alike) to any spelling of the same letters."""
    def __eq__(self, other):
        return isinstance(other, str) and str.casefold(self) == str.casefold(other)

    def __ne__(self, other):
        return not self.__eq__(other)

    def __hash__(self):
        return hash(str.casefold(self))


class EqNoHashStr(str):
    """A str subclass that defines __eq__ and therefore (Python's rule) is unhashable."""
    def __eq__(self, other):
        return str.__eq__(self, other)

    __hash__ = None


def outcome(thunk):
    try:
        r = thunk()
    except BaseException as e:  # noqa
        return ('exc', type(e).__name__)
    try:
        return ('ok', type(r).__name__, repr(r))
    except BaseException as e:  # noqa
        return ('ok', type(r).__name__, 'unprintable')


def numeric_twins(n):
    """(label, object) pairs that all compare equal to the int n (and hash alike)."""
    out = [('int', n), ('Decimal', decimal.Decimal(n)), ('Fraction', fractions.Fraction(n)),
           ('Decimal-with-fraction-digits', decimal.Decimal(str(n) + '.0'))]
    if abs(n) < 2 ** 53:
        out.append(('float', float(n)))
    if n in (0, 1):
        out.append(('bool', bool(n)))
    try:
        out.append(('IntEnum', enum.IntEnum('Code', {'MEMBER': n}).MEMBER))
    except Exception:  # noqa
        pass
    out.append(('int-subclass', type('MyInt', (int,), {})(n)))
    return out


def text_twins(s):
    """(label, object) pairs: the text, other spellings of its letters as case-insensitive strings, the text as such
    a string, and as an unhashable str subclass."""
    out = [('str', s)]
    for label, t in (('ci-swapcase', s.swapcase()), ('ci-lower', s.lower()), ('ci-upper', s.upper())):
        if t != s and t.casefold() == s.casefold():
            out.append((label, CIStr(t)))
    out.append(('ci-same', CIStr(s)))
    out.append(('eq-without-hash', EqNoHashStr(s)))
    return out


def order_independence(ctx, clause, case, calls):
    """calls: list of (label, thunk).  Returns the outcomes of the first pass (by label)."""
    n = len(calls)
    if n < 2:
        return {}
    orders = [list(range(n)), list(reversed(range(n))), list(range(n // 2, n)) + list(range(n // 2))]
    seen = {}
    first = {}
    for oi, order in enumerate(orders):
        for j in order:
            label, thunk = calls[j]
            got = outcome(thunk)
            ctx.clause(clause)
            if label not in seen:
                seen[label] = got
                first[label] = got
            elif seen[label] != got:
                ctx.fail(clause, case, {'argument': label, 'outcome_first_time': seen[label], 'outcome_later': got,
                                        'asked_just_before': calls[order[order.index(j) - 1]][0] if order.index(j) else None,
                                        'pass': oi})
                return first
    return first


def as_characters(ctx, clause, case, outcomes, plain='str', same=('ci-same', 'eq-without-hash')):
    """outcomes: what order_independence returned for text_twins(...) calls: a str subclass carrying the same characters
    is answered like the plain str."""
    if plain not in outcomes:
        return
    for label in same:
        if label in outcomes:
            ctx.clause(clause)
            # (the result's class is not compared: handing a str argument back as it is, subclass and all, is fine)
            if (outcomes[label][0], outcomes[label][-1]) != (outcomes[plain][0], outcomes[plain][-1]):
                ctx.fail(clause, case, {'argument': label, 'outcome': outcomes[label], 'outcome_for_plain_str': outcomes[plain]})
                return


def evaluate_case(ctx, case, funcs):
    """A check's evaluator for cases {'kind': 'twins', 'f': name, 'what': 'text', 'text': ...} or {'what': 'number', 'n': ...}:
    funcs maps name -> callable of the one argument that varies."""
    f = funcs[case['f']]
    if case['what'] == 'text':
        tw = text_twins(case['text'])
    else:
        tw = numeric_twins(case['n']) + [('str', str(case['n']))]
    ctx.case(('twins', case['f'], case.get('text', case.get('n'))))
    calls = [('%s(%s)' % (case['f'], label), (lambda v=v: f(v))) for label, v in tw]
    first = order_independence(ctx, 'equal-valued-arguments-in-any-order', case, calls)
    # (not where the function's job is to compare the argument as a whole - the caller's own __eq__ then legitimately takes
    # part - or to hand it back: such checks set as_characters False)
    if case['what'] == 'text' and case.get('as_characters', True):
        as_characters(ctx, 'str-subclass-answered-as-its-characters', case, first, plain='%s(str)' % case['f'],
                      same=('%s(ci-same)' % case['f'], '%s(eq-without-hash)' % case['f']))


def make_cases(rng, n, fnames_text, texts, fnames_number=(), numbers=(), as_characters=True):
    out = []
    for i in range(n):
        if fnames_number and (i % 3 == 0 or not fnames_text):
            out.append({'kind': 'twins', 'what': 'number', 'f': rng.choice(list(fnames_number)), 'n': rng.choice(list(numbers))})
        else:
            out.append({'kind': 'twins', 'what': 'text', 'f': rng.choice(list(fnames_text)), 'text': rng.choice(list(texts))})
            if not as_characters:
                out[-1]['as_characters'] = False
    return out
