"""Chunk schedules, monitored feeding of the real inspectors, verdict tuples.

A schedule is a sorted list of cut positions 0 < c < n (the stream is fed as
data[0:c1], data[c1:c2], ...), optionally with empty chunks inserted at some
cut indices and with queries interleaved after every chunk.
"""
import io


def fi():
    from oslo_utils.imageutils import format_inspector
    return format_inspector


# ----------------------------------------------------------------------
# schedules
# ----------------------------------------------------------------------
FIXED_SIZES = [1, 17, 512, 4096, 65536, 1 << 20]


def fixed(n, size):
    return list(range(size, n, size))


def compositions(n):
    """All 2^(n-1) cut sets of a stream of length n (n small)."""
    if n <= 1:
        yield []
        return
    for mask in range(1 << (n - 1)):
        yield [i + 1 for i in range(n - 1) if mask >> i & 1]


def window_cuts(n, bounds, w, coarse=65536):
    """Byte-by-byte inside +-w of each boundary, coarse chunks elsewhere."""
    cuts = set(range(coarse, n, coarse))
    for b in bounds:
        for c in range(max(1, b - w), min(n, b + w + 1)):
            cuts.add(c)
    return sorted(c for c in cuts if 0 < c < n)


def schedules(rng, n, bounds, count, max_chunks=70000, with_fixed=True):
    """Yields (class, cuts) pairs: fixed sizes, single boundary cuts, pairs,
    windows, random compositions.  `count` bounds the number of sampled ones."""
    out = [('giant', [])]
    if with_fixed:
        for s in FIXED_SIZES:
            if s < n and n // s <= max_chunks:
                out.append(('fixed-%d' % s, fixed(n, s)))
    bs = sorted({b for b in bounds if 0 < b < n + 2})
    near = sorted({b + d for b in bs for d in (-1, 0, 1) if 0 < b + d < n})
    singles = [('single-cut', [c]) for c in near]
    pairs = []
    if len(near) <= 24:
        for i, a in enumerate(near):
            for b in near[i + 1:]:
                pairs.append(('pair-cut', [a, b]))
    else:
        for _ in range(3 * count):
            a, b = rng.sample(near, 2)
            pairs.append(('pair-cut', sorted((a, b))))
    rng.shuffle(singles)
    rng.shuffle(pairs)
    out += singles[:max(2, count // 2)]
    out += pairs[:max(2, count // 2)]
    if bs:
        out.append(('window-3', window_cuts(n, bs, 3)))
        if count >= 8:
            out.append(('window-40', window_cuts(n, bs, 40)))
    for i in range(max(2, count // 3)):
        scale = rng.choice([3, 50, 700, 9000, 120000])
        cuts, pos = [], 0
        while True:
            pos += max(1, int(rng.expovariate(1.0 / scale)))
            if pos >= n or len(cuts) >= min(30000, max_chunks):
                break
            cuts.append(pos)
        out.append(('random-%d' % scale, cuts))
    return out


def chunks_of(n, cuts):
    edges = [0] + list(cuts) + [n]
    return [(a, b) for a, b in zip(edges, edges[1:])]


# ----------------------------------------------------------------------
# verdicts
# ----------------------------------------------------------------------
def _q(fn):
    try:
        return fn()
    except BaseException as e:  # noqa
        return 'EXC:' + type(e).__name__


def safety_outcome(insp):
    F = fi()
    try:
        insp.safety_check()
        return 'pass'
    except F.SafetyCheckFailed as e:
        return 'failed:' + ','.join(sorted(e.failures))
    except F.ImageFormatError:
        return 'refused'
    except BaseException as e:  # noqa
        return 'EXC:' + type(e).__name__


def verdict(insp):
    return (_q(lambda: bool(insp.format_match)), _q(lambda: bool(insp.complete)),
            _q(lambda: insp.virtual_size), safety_outcome(insp))


# ----------------------------------------------------------------------
# monitored feeding
# ----------------------------------------------------------------------
class RegionMonitor:
    """Invariant R: whatever a region retains equals the stream slice at its offset."""

    def __init__(self, data):
        self.data = data
        self.seen = {}
        self.evals = 0
        self.max_ctx = 0
        self.bad = None

    def check(self, insp, pos, force=False):
        total = 0
        try:
            regions = dict(insp._capture_regions) if False else None
            info = insp.context_info
        except BaseException as e:  # noqa
            self.bad = self.bad or ('context_info raised', type(e).__name__)
            return
        for name, ln in info.items():
            total += ln
            try:
                r = insp.region(name)
            except BaseException as e:  # noqa
                self.bad = self.bad or ('region() raised', name, type(e).__name__)
                continue
            key = (id(r), len(r.data), r.offset)
            if not force and self.seen.get(name) == key:
                continue
            self.seen[name] = key
            self.evals += 1
            d = r.data
            if ln != len(d):
                self.bad = self.bad or ('context_info length != len(data)', name, ln, len(d))
            if len(d) > r.length:
                self.bad = self.bad or ('retained more than region length', name, len(d), r.length)
            if d and (r.offset < 0 or r.offset + len(d) > pos or
                      d != self.data[r.offset:r.offset + len(d)]):
                self.bad = self.bad or ('region bytes differ from stream slice', name, r.offset, len(d), pos,
                                        d[:24].hex(), self.data[max(r.offset, 0):max(r.offset, 0) + 24].hex())
        if total > self.max_ctx:
            self.max_ctx = total


class Carrier:
    """How a chunk is handed to eat_chunk: 'bytes' (fresh immutable object), 'bytearray' (ONE bytearray object, resized and
    refilled in place for every chunk - the readinto() idiom) or 'memoryview' (slices of one fixed buffer).  After every
    eat_chunk the buffer is overwritten, so anything the inspector kept by reference instead of by value shows at once."""

    def __init__(self, kind, maxlen):
        self.kind = kind
        self.buf = bytearray(max(maxlen, 1)) if kind == 'memoryview' else bytearray()
        self.n = 0

    def put(self, b):
        if self.kind == 'bytes':
            return b
        if self.kind == 'bytearray':
            self.buf[:] = b
            return self.buf
        self.n = len(b)
        self.buf[:self.n] = b
        return memoryview(self.buf)[:self.n]

    def scribble(self):
        if self.kind == 'bytearray':
            self.buf[:] = b'\xa5' * len(self.buf)
        elif self.kind == 'memoryview':
            self.buf[:self.n] = b'\xa5' * self.n


def feed(cls, data, cuts, empties=(), queries=False, monitor=True, per_chunk=None, carrier='bytes', ctor_kw=None,
         clone_at=None, clone_how='deepcopy'):
    """Drive a real inspector of class cls over data cut at `cuts`.

    Returns dict(verdict=..., raised=type name or None, monitor=RegionMonitor, trace=[...]).
    empties: chunk indices before which an empty chunk is presented.
    queries: call verdict() (incl. safety_check) after every chunk.
    per_chunk: optional callback(insp, pos) after every chunk.
    """
    insp = cls(**(ctor_kw or {}))
    mon = RegionMonitor(data) if monitor else None
    raised = None
    n = len(data)
    empties = set(empties)
    pieces = chunks_of(n, cuts)
    car = Carrier(carrier, max([b - a for a, b in pieces] or [1]))
    for idx, (a, b) in enumerate(pieces):
        if clone_at is not None and idx == clone_at:
            # the rest of the stream goes to a copy of the inspector (copy.deepcopy / a pickle round trip): a copied
            # object that has seen the same bytes concludes the same
            import copy
            import pickle
            insp = copy.deepcopy(insp) if clone_how == 'deepcopy' else pickle.loads(pickle.dumps(insp))
        if idx in empties:
            try:
                insp.eat_chunk(b'')
            except BaseException as e:  # noqa
                raised = raised or type(e).__name__
        try:
            insp.eat_chunk(car.put(data[a:b]))
        except BaseException as e:  # noqa
            raised = raised or type(e).__name__
        car.scribble()
        if mon:
            mon.check(insp, b)
        if queries:
            verdict(insp)
        if per_chunk:
            per_chunk(insp, b)
    try:
        insp.finish()
    except BaseException as e:  # noqa
        raised = raised or ('finish:' + type(e).__name__)
    if mon:
        mon.check(insp, n, force=True)
    v = ('raised', raised) if raised else verdict(insp)
    size_ok = _q(lambda: insp.actual_size)
    return dict(verdict=v, raised=raised, monitor=mon, actual_size=size_ok, inspector=insp)


class RecordingSource(io.BytesIO):
    """plan: optional list of piece lengths; when given, read(n) returns at most the next planned piece (a pipe- or
    socket-like source that hands back short reads), never an empty result before the real end."""

    def __init__(self, data, plan=None, fail_at=(), carrier='bytes'):
        super().__init__(data)
        self.carrier = Carrier(carrier, 1 << 16) if carrier != 'bytes' else None
        self.reads = []
        self.plan = list(plan) if plan else None
        self.fail_at = set(fail_at)       # read-call numbers that fail once with a transient error, consuming nothing
        self.ncalls = 0

    def read(self, n=-1):
        self.ncalls += 1
        if self.ncalls in self.fail_at:
            self.fail_at.discard(self.ncalls)
            self.ncalls -= 1
            raise TimeoutError('transient source error (injected by the harness)')
        if self.plan and n != 0:
            want = self.plan.pop(0)
            n = want if n is None or n < 0 else min(n, want)
        r = super().read(n)
        self.reads.append((n, len(r)))
        if self.carrier is not None and r:
            # the source hands out ONE buffer object that it refills for every read (what readinto()-style sources do):
            # whatever was handed out before now shows the new bytes
            if len(r) > len(self.carrier.buf) and self.carrier.kind == 'memoryview':
                self.carrier = Carrier('memoryview', len(r))
            return self.carrier.put(r)
        return r


def feed_wrapper(data, cuts, allowed=None, expected=None, queries=False, monitor=True, empties=(), short_reads=False,
                 source_faults=(), carrier='bytes'):
    """Drive InspectWrapper.read() with read sizes given by the cut positions; with short_reads the reader always asks
    for 64 KiB and it is the source that returns the scheduled piece sizes."""
    F = fi()
    src = RecordingSource(data, plan=[b - a for a, b in chunks_of(len(data), cuts)] if short_reads else None,
                          fail_at=source_faults, carrier=carrier)

    def _read(w, size):
        # a reader that retries once when the source reports a transient error
        try:
            return w.read(size)
        except TimeoutError:
            return w.read(size)
    w = F.InspectWrapper(src, expected_format=expected, allowed_formats=allowed)
    mons = {i.NAME: RegionMonitor(data) for i in w._inspectors} if monitor else {}
    decisions = []
    exc = None
    n = len(data)
    out = []
    empties = set(empties)
    try:
        for idx, (a, b) in enumerate(chunks_of(n, cuts)):
            if idx in empties:
                w.read(0)
            out.append(bytes(_read(w, max(b - a, 65536) if short_reads else b - a)))
            for i in w._inspectors:
                if monitor and i not in w._errored_inspectors:
                    mons[i.NAME].check(i, b)
            d = _decision(w)
            decisions.append(d)
            if queries:
                _q(lambda: w.formats)
                for i in w._inspectors:
                    verdict(i)
        out.append(bytes(w.read(1 << 20)))     # EOF read
        decisions.append(_decision(w))
    except BaseException as e:  # noqa
        exc = e
    try:
        w.close()
    except BaseException as e:  # noqa
        exc = exc or e
    final = _decision(w)
    fmts = _q(lambda: sorted(str(x) for x in w.formats))
    sel = None
    try:
        f = w.format
        if f is not None:
            sel = verdict(f)
    except BaseException:  # noqa
        pass
    for i in w._inspectors:
        if monitor and i not in w._errored_inspectors:
            mons[i.NAME].check(i, n, force=True)
    return dict(wrapper=w, decisions=decisions, final=final, formats=fmts, selected=sel,
                exc=exc, out=b''.join(out), monitors=mons, source=src,
                errored=sorted(i.NAME for i in w._errored_inspectors))


def _decision(w):
    F = fi()
    try:
        f = w.format
        return None if f is None else str(f)
    except F.ImageFormatError:
        return 'IFE'
    except BaseException as e:  # noqa
        return 'EXC:' + type(e).__name__
