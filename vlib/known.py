"""Known findings: loader for /verif/known_findings.json + mechanism predicates.

The JSON file is committed and never written at run time.  An entry of
kind "known" names a mechanism; the predicate functions below decide, from the
*input* of a case only (never from the observed output, a hash or a random
value), whether a disagreement is an instance of that mechanism.  Entries of
kind "fixed" document a repaired defect and suppress nothing.
"""
import json
import os

_HERE = os.path.dirname(os.path.dirname(os.path.abspath(__file__)))
_PATH = os.path.join(_HERE, 'known_findings.json')
_cache = None


def load():
    global _cache
    if _cache is None:
        with open(_PATH) as f:
            doc = json.load(f)
        _cache = {e['id']: e for e in doc['findings']}
    return _cache


def is_listed(fid, prop):
    e = load().get(fid)
    return bool(e and e.get('kind') == 'known' and prop in e.get('properties', ()))


def listed_for(prop):
    return [e for e in load().values()
            if e.get('kind') == 'known' and prop in e.get('properties', ())]


def describe(fid):
    e = load().get(fid, {})
    return e.get('what_fails', e.get('mechanism', ''))


# ---------------------------------------------------------------------
# Mechanism predicates (functions of the input only)
# ---------------------------------------------------------------------
_TEXT_BYTES = frozenset(list(range(32, 127)) + [9, 10, 11, 12, 13, 28, 29, 30, 31])


def f1_text_vmdk(stream):
    """F1: VMDK text-descriptor mode.

    The VMDK inspector takes the text branch when the first bytes it looks at
    do not start with KDMV and are printable/space ASCII.  How many bytes it
    looks at (64..512) depends on the first chunks, so the predicate is the
    weakest one: no KDMV signature and the first 64 bytes are text.
    """
    if stream[:4] == b'KDMV' or len(stream) < 64:
        return False
    return all(b in _TEXT_BYTES for b in stream[:64])


def f3_short_footer_vmdk(stream):
    """F3: sparse header announcing a footer on a stream of 1536..1598 bytes."""
    import struct
    if len(stream) < 64 or stream[:4] != b'KDMV':
        return False
    ver, = struct.unpack('<I', stream[4:8])
    gd, = struct.unpack('<Q', stream[56:64])
    return gd == 0xffffffffffffffff and ver in (1, 2, 3) and 1536 <= len(stream) < 1599


def k11_bad_header_kdmv(stream, first_cut):
    """K11: KDMV stream whose header fails validation, driven through the
    wrapper with a first non-empty read shorter than the 64-byte header."""
    import struct
    if stream[:4] != b'KDMV' or first_cut is None or first_cut >= 64:
        return False
    if len(stream) < 64:
        return False
    ver, = struct.unpack('<I', stream[4:8])
    desc_sec, = struct.unpack('<Q', stream[28:36])
    return ver not in (1, 2, 3) or desc_sec * 512 != 0x200
