"""Concurrent replay: a sample of the cases a check evaluated is evaluated again by several native threads at the same
time (each thread walks the sample in a different rotation, the interpreter's switch interval is set to a microsecond), so
that while one thread is inside a library function with one input, others are inside the same function with other inputs.

The oracles are the check's own: every thread compares what it got for ITS input with what that input requires.  State that
the library shares between calls (a "last value" memo in module globals, a cache published in two steps, a scratch buffer)
then shows as an answer that belongs to another thread's input.  The pinned tree keeps no such state in the functions
replayed here, so the clause is silent on it; a check opts in with CONCURRENT = <predicate over cases> and only cases whose
evaluation touches no process-wide setting of the harness itself (sys.stdin, the override clock, patched modules) qualify.
"""
import sys
import threading


def concurrent_replay(mod, ctx, cases, nthreads=4, rounds=2):
    from vlib import ctx as ctxmod
    accept = getattr(mod, 'CONCURRENT', None)
    if accept is None:
        return 0
    cases = [c for c in cases if isinstance(c, dict) and accept(c)]
    if len(cases) < 4:
        return 0
    subs = [ctxmod.Ctx(ctx.prop, ctx.tier, ctx.seed, ctx.shard, ctx.nshards, replay=False) for _ in range(nthreads)]
    crashed = []
    start = threading.Barrier(nthreads)

    def work(i):
        try:
            start.wait(timeout=30)
            n = len(cases)
            for r in range(rounds):
                for j in range(n):
                    mod.evaluate(subs[i], cases[(j + i * (n // nthreads + 1) + r) % n])
        except BaseException as e:  # noqa
            crashed.append(e)
    from vlib import envmodes
    old = sys.getswitchinterval()
    sys.setswitchinterval(1e-6)
    envmodes.MODES_OFF[0] = True
    try:
        ts = [threading.Thread(target=work, args=(i,), daemon=True) for i in range(nthreads)]
        for t in ts:
            t.start()
        for t in ts:
            t.join(timeout=300)
    finally:
        envmodes.MODES_OFF[0] = False
        sys.setswitchinterval(old)
        try:
            import oslo_i18n
            oslo_i18n.enable_lazy(False)
        except Exception:  # noqa
            pass
    n_eval = 0
    for s in subs:
        n_eval += s.evaluations
        for v in s.violations:
            v = dict(v, concurrent=True)
            ctx.violation_count += 1
            ctx.hist['violations by clause'][v['clause']] += 1
            if len(ctx.violations) < 30:
                ctx.violations.append(v)
        for k, n in s.known_seen.items():
            ctx.known_seen[k] += n
    for e in crashed:
        ctx.inconclusive_because('concurrent replay: a worker thread stopped with %r' % (e,))
    ctx.clause('concurrent-replay (threads evaluate different cases at the same time)', n_eval)
    ctx.h('concurrent replay', 'threads', nthreads)
    ctx.h('concurrent replay', 'cases', len(cases))
    return n_eval


def _outcome(thunk):
    try:
        r = thunk()
        return ('ok', repr(r))
    except BaseException as e:  # noqa
        return ('exc', type(e).__name__)


def hammer(ctx, calls, nthreads=4, per_thread=40000, budget=3.0):
    """calls: list of (label, thunk).  Every thunk is first run alone (its outcome there is what the check's oracle has
    already judged), then `nthreads` threads call all of them in rotated orders, `per_thread` calls each, with a switch
    interval of a microsecond; an outcome that differs from the outcome alone is an answer that leaked from another
    thread's call."""
    import time
    t0 = time.perf_counter()
    alone = [_outcome(t) for _l, t in calls]
    again = [_outcome(t) for _l, t in calls]
    per_call = (time.perf_counter() - t0) / max(1, 2 * len(calls))
    # about `budget` seconds of library time in total, at least 300 and at most `per_thread` calls per thread
    per_thread = max(300, min(per_thread, int(budget / max(per_call, 1e-6) / nthreads)))
    stable = [i for i in range(len(calls)) if alone[i] == again[i]]
    if len(stable) < 2:
        return 0
    bad = []
    counts = [0] * nthreads
    start = threading.Barrier(nthreads)

    def work(i):
        try:
            start.wait(timeout=30)
        except threading.BrokenBarrierError:
            return
        n = len(stable)
        for k in range(per_thread):
            if bad:
                return
            j = stable[(k + i * (n // nthreads + 1)) % n]
            got = _outcome(calls[j][1])
            counts[i] += 1
            if got != alone[j]:
                bad.append({'call': calls[j][0], 'alone': alone[j], 'under_concurrency': got, 'thread': i, 'iteration': k})
                return
    old = sys.getswitchinterval()
    sys.setswitchinterval(1e-6)
    try:
        ts = [threading.Thread(target=work, args=(i,), daemon=True) for i in range(nthreads)]
        for t in ts:
            t.start()
        for t in ts:
            t.join(timeout=120)
    finally:
        sys.setswitchinterval(old)
    ctx.clause('concurrent-calls-answer-as-alone', sum(counts))
    ctx.h('concurrent hammer', 'distinct calls', len(stable))
    for b in bad[:1]:
        ctx.fail('concurrent-calls-answer-as-alone', {'kind': 'hammer', 'call': b['call']}, b)
    return sum(counts)


def bounded_call(thunk, timeout=30.0):
    """Runs thunk in a daemon thread.  ('ok', repr) / ('exc', type name) as _outcome, or ('stuck', where) when the call has
    not returned after `timeout` seconds AND the thread sat on the same line in three samples taken over the last third of
    that time (a call that normally takes microseconds: blocked on a lock nobody will release, or spinning in one place)."""
    import time
    box = []
    t = threading.Thread(target=lambda: box.append(_outcome(thunk)), daemon=True)
    t.start()
    t.join(timeout * 2 / 3)
    if not t.is_alive():
        return box[0]
    samples = []
    for _ in range(3):
        fr = sys._current_frames().get(t.ident)
        samples.append((fr.f_code.co_filename, fr.f_lineno) if fr is not None else None)
        t.join(timeout / 9)
        if not t.is_alive():
            return box[0]
    if samples[0] is not None and samples[0] == samples[1] == samples[2]:
        return ('stuck', '%s:%d' % samples[0])
    return ('slow', repr(samples))


def after_rejected_calls(ctx, funcs, calls):
    """funcs: library functions; calls: (label, thunk) of valid calls (the hammer's list).  Every function is first called in
    ways the library rejects (no arguments, None, a number, bytes, an arbitrary object - whatever it raises is the caller's
    problem), then the valid calls are made again: they answer as before.  State that a rejected call leaves behind (a lock
    taken and not released on the error path, a half-built cache entry) shows as a different answer or as a call that
    never returns."""
    before = [_outcome(t) for _l, t in calls]
    again = [_outcome(t) for _l, t in calls]
    n_rej = 0
    for f in funcs:
        for args in ((), (None,), (5,), (b'\xff',), (object(),), ([],), (None, None), ('x', None), (None, 'x')):
            got = bounded_call(lambda: f(*args), timeout=20.0)
            n_rej += 1
            if got[0] == 'stuck':
                ctx.fail('valid-calls-after-rejected-calls-answer-as-before',
                         {'kind': 'after-rejected', 'function': getattr(f, '__name__', '?'), 'args': repr(args)},
                         {'rejected_call_never_returned': got[1]})
                return 0
    n = 0
    for i, (label, thunk) in enumerate(calls):
        if before[i] != again[i]:
            continue
        got = bounded_call(thunk)
        n += 1
        if got[0] == 'slow':
            ctx.inconclusive_because('after rejected calls: %s did not return in time (no fixed place): %s' % (label, got[1]))
            break
        if got != before[i]:
            ctx.fail('valid-calls-after-rejected-calls-answer-as-before', {'kind': 'after-rejected', 'call': label},
                     {'before': before[i], 'after_rejected_calls': got, 'rejected_calls_made': n_rej})
            break
    ctx.clause('valid-calls-after-rejected-calls-answer-as-before', n)
    return n
