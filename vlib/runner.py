"""Entry point:  ./check <ID> --tier quick|thorough [--replay PATH]

Parent process: spawns worker subprocesses (one per shard, each under a
wall-clock watchdog), merges their partial results, writes
evidence/<ID>.json, replay files, and prints the verdict lines.

Exit status: 0 held, 1 violated (VIOLATION line), 2 inconclusive.
"""
import argparse
import collections
import faulthandler
import hashlib
import importlib
import json
import logging
import os
import shutil
import subprocess
import sys
import tempfile
import time
import traceback

HERE = os.path.dirname(os.path.dirname(os.path.abspath(__file__)))
PYTHON = '/venv/bin/python'
DEFAULT_SHARDS = {'quick': 1, 'thorough': 16}
DEFAULT_TIMEOUT = {'quick': 900, 'thorough': 5400}


def repo_root():
    return os.path.realpath(os.environ.get('VERIF_REPO', '/repo'))


def load_check(prop):
    return importlib.import_module('checks.%s' % prop.lower())


# ----------------------------------------------------------------------
# worker
# ----------------------------------------------------------------------
def _from_repo(tb, root):
    """True when the innermost frames of tb lie in the code under test (or in
    a library it called), i.e. the exception was not raised by harness code."""
    frames = traceback.extract_tb(tb)
    if not frames:
        return False
    repo_seen = False
    for fr in frames:
        fn = os.path.realpath(fr.filename)
        if fn.startswith(os.path.join(root, 'oslo_utils')):
            repo_seen = True
        elif fn.startswith(HERE) and repo_seen:
            # harness callback invoked from the repo (failpoints etc.)
            repo_seen = False
    return repo_seen


def worker_main(args):
    root = repo_root()
    sys.path.insert(0, root)
    sys.path.insert(1, HERE)
    logging.disable(logging.CRITICAL)
    import warnings
    warnings.simplefilter('ignore')
    if '-bb' in (os.environ.get('VERIF_INTERP_FLAGS') or '').split():
        warnings.filterwarnings('error', category=BytesWarning)      # what -bb means; the line above would undo it
    from vlib import ctx as ctxmod, reach
    shard, nshards = (int(x) for x in args.worker.split('/'))
    ctx = ctxmod.Ctx(args.prop, args.tier, args.seed, shard, nshards,
                     replay=bool(args.replay))
    faulthandler.enable()
    ctx.h('interpreter flags of the worker', os.environ.get('VERIF_INTERP_FLAGS') or '(none)')
    try:
        import oslo_utils
        loc = os.path.realpath(os.path.dirname(oslo_utils.__file__))
        if loc != os.path.join(root, 'oslo_utils'):
            ctx.inconclusive_because(
                'oslo_utils imported from %s, not from %s' % (loc, root))
            ctx.dump(args.out, {})
            return
        mod = load_check(args.prop)
        missing = reach.install(getattr(mod, 'ANCHORS', []))
        for name in missing:
            ctx.inconclusive_because('anchored function not found: %s' % name)
        timeout = getattr(mod, 'TIMEOUT', DEFAULT_TIMEOUT)[args.tier]
        faulthandler.dump_traceback_later(max(30, timeout - 20), exit=False)
        if args.replay:
            with open(args.replay) as f:
                doc = json.load(f)
            rcase = ctxmod.unhex(doc['case'])
            if 'modes' in doc:
                from vlib import envmodes
                envmodes.FORCE[0] = set(doc['modes'])      # the process-wide modes the case ran under when it failed
            if isinstance(rcase, dict) and rcase.get('kind') == 'after-rejected' and getattr(mod, 'REJECTED_FUNCS', None):
                from vlib import concurrent
                concurrent.after_rejected_calls(ctx, mod.REJECTED_FUNCS(ctx), mod.HAMMER(ctx))
            elif isinstance(rcase, dict) and rcase.get('kind') == 'hammer' and getattr(mod, 'HAMMER', None) is not None:
                from vlib import concurrent
                concurrent.hammer(ctx, mod.HAMMER(ctx), budget=3 * getattr(mod, 'HAMMER_BUDGET', 3.0))   # a concurrency witness is replayed by hammering again, longer
            else:
                mod.evaluate(ctx, rcase)
        else:
            # history independence: a sample of the cases that went through evaluate() is evaluated a second time
            # at the end of the run, in reverse order, after everything else has been called in between
            # (catches answers that depend on what was asked before: memoisation keyed too coarsely, shared
            # mutable results, state left behind by earlier calls)
            sample, seen = [], [0]
            orig_evaluate = getattr(mod, 'evaluate', None)
            cap = getattr(mod, 'HISTORY_SAMPLE', 300)
            if orig_evaluate is not None and cap:
                def recording_evaluate(c, case):
                    seen[0] += 1
                    if len(sample) < cap:
                        sample.append(case)
                    elif (seen[0] * 2654435761) % 1000 < 8:
                        sample[seen[0] % cap] = case
                    return orig_evaluate(c, case)
                mod.evaluate = recording_evaluate
            try:
                mod.run(ctx)
            finally:
                if orig_evaluate is not None:
                    mod.evaluate = orig_evaluate
            if sample and not ctx.violation_count:
                before = ctx.violation_count
                for case in reversed(sample):
                    orig_evaluate(ctx, case)
                ctx.clause('history-replay (second evaluation of an earlier case)', len(sample))
                if ctx.violation_count > before:
                    for v in ctx.violations:
                        pass
                    ctx.note('violations appeared only when earlier cases were evaluated a second time at the end '
                             'of the run: the answer depends on the call history')
            if sample and not ctx.violation_count and getattr(mod, 'CONCURRENT', None) is not None:
                # the same sample once more, by several threads at the same time (vlib/concurrent.py)
                from vlib import concurrent
                before = ctx.violation_count
                concurrent.concurrent_replay(mod, ctx, sample)
                if ctx.violation_count > before:
                    ctx.note('violations appeared only when several threads evaluated different cases at the same '
                             'time: the library shares state between concurrent calls')
            if not ctx.violation_count and getattr(mod, 'HAMMER', None) is not None and shard == 0:
                from vlib import concurrent
                concurrent.hammer(ctx, mod.HAMMER(ctx), budget=getattr(mod, 'HAMMER_BUDGET', 3.0))
            if (not ctx.violation_count and getattr(mod, 'HAMMER', None) is not None
                    and getattr(mod, 'REJECTED_FUNCS', None) is not None and shard == (1 % max(1, nshards))):
                # the very last thing this worker does (a rejected call may leave the library unusable)
                from vlib import concurrent
                concurrent.after_rejected_calls(ctx, mod.REJECTED_FUNCS(ctx), mod.HAMMER(ctx))
    except BaseException as e:  # noqa
        tb = traceback.format_exc()
        if _from_repo(e.__traceback__, root):
            ctx.fail('unexpected-exception-from-code-under-test',
                     {'note': 'uncaught in harness; see traceback'},
                     {'traceback': tb[-3000:]})
        else:
            ctx.inconclusive_because('harness error: %s' % tb[-1500:])
    finally:
        faulthandler.cancel_dump_traceback_later()
    from vlib import callstyle
    callstyle.flush(ctx)
    ctx.dump(args.out, reach.snapshot())


# ----------------------------------------------------------------------
# parent
# ----------------------------------------------------------------------
def run_parent(args):
    t0 = time.time()
    prop = args.prop
    sys.path.insert(0, HERE)
    mod = load_check(prop)
    from vlib import known
    nshards = args.shards or getattr(mod, 'SHARDS', DEFAULT_SHARDS)[args.tier]
    if args.replay:
        nshards = 1
    timeout = getattr(mod, 'TIMEOUT', DEFAULT_TIMEOUT)[args.tier]
    scratch_base = '/dev/shm' if os.path.isdir('/dev/shm') else None
    scratch = tempfile.mkdtemp(prefix='verif-%s-' % prop, dir=scratch_base)
    env = dict(os.environ)
    env.setdefault('PYTHONHASHSEED', '0')
    env['PYTHONPATH'] = HERE
    env['VERIF_SCRATCH'] = scratch
    env['PYTHONDONTWRITEBYTECODE'] = '1'
    procs = []
    # interpreter settings are a workload dimension too: a check may name interpreter flag sets (python -O strips
    # asserts, -bb makes str/bytes comparisons errors) that are cycled over its shards; a violation records the flags
    # of the worker that saw it and a replay runs under the same flags
    flagsets = getattr(mod, 'INTERPRETER_FLAGS', None) or [[]]
    replay_flags = None
    if args.replay:
        try:
            with open(args.replay) as f:
                replay_flags = (json.load(f).get('interp_flags') or '').split()
        except Exception:  # noqa
            replay_flags = []
    try:
        for i in range(nshards):
            out = os.path.join(scratch, 'part-%d.json' % i)
            flags = replay_flags if replay_flags is not None else list(flagsets[i % len(flagsets)])
            env = dict(env, VERIF_INTERP_FLAGS=' '.join(flags))
            cmd = [PYTHON] + flags + ['-m', 'vlib.runner', prop, '--tier', args.tier,
                   '--seed', str(args.seed), '--worker', '%d/%d' % (i, nshards),
                   '--out', out]
            if args.replay:
                cmd += ['--replay', os.path.abspath(args.replay)]
            log = open(os.path.join(scratch, 'log-%d.txt' % i), 'wb')
            procs.append((i, out, log, subprocess.Popen(
                cmd, cwd=HERE, env=env, stdout=log, stderr=subprocess.STDOUT)))
        deadline = time.time() + timeout
        parts = []
        inconclusive = []
        for i, out, log, p in procs:
            try:
                p.wait(timeout=max(1, deadline - time.time()))
            except subprocess.TimeoutExpired:
                p.kill()
                p.wait()
                inconclusive.append('worker %d exceeded the %ds watchdog' % (i, timeout))
            log.close()
            logtxt = open(log.name, 'rb').read().decode('utf-8', 'replace')
            if os.path.exists(out):
                with open(out) as f:
                    doc = json.load(f)
                with open(out + '.digests', 'rb') as f:
                    raw = f.read()
                doc['_digests'] = raw
                parts.append(doc)
                if p.returncode not in (0, None) and p.returncode != -9:
                    inconclusive.append('worker %d exit status %s: %s' % (
                        i, p.returncode, logtxt[-800:]))
            else:
                inconclusive.append('worker %d produced no result (status %s): %s' % (
                    i, p.returncode, logtxt[-1500:]))
            if args.verbose and logtxt.strip():
                sys.stderr.write('--- worker %d output ---\n%s\n' % (i, logtxt[-4000:]))
    finally:
        for _i, _o, _l, p in procs:
            if p.poll() is None:
                p.kill()
        shutil.rmtree(scratch, ignore_errors=True)

    # ---- merge
    evaluations = 0
    digests = set()
    clauses = collections.Counter()
    hist = collections.defaultdict(collections.Counter)
    samples = {}
    violations = []
    violation_count = 0
    known_seen = collections.Counter()
    known_witness = {}
    notes = []
    reach = collections.Counter()
    exhaustive = {}
    extra = {}
    # many millions of digests: count distinct ones with a k-way merge of the (sorted) per-worker files instead of
    # holding them in one set
    big_merge = sum(len(d['_digests']) for d in parts) > 8 * 4_000_000
    digest_blobs = []
    for doc in parts:
        evaluations += doc['evaluations']
        raw = doc['_digests']
        if big_merge:
            digest_blobs.append(raw)
        else:
            digests.update(raw[i:i + 8] for i in range(0, len(raw), 8))
        clauses.update(doc['clauses'])
        for k, v in doc['hist'].items():
            hist[k].update(v)
        for k, v in doc['samples'].items():
            if len(samples) < 10:
                samples.setdefault(k, v)
        violations.extend(doc['violations'])
        violation_count += doc['violation_count']
        known_seen.update(doc['known_seen'])
        for k, v in doc['known_witness'].items():
            known_witness.setdefault(k, v)
        for n in doc['notes']:
            if n not in notes:
                notes.append(n)
        for r in doc['inconclusive']:
            if r not in inconclusive:
                inconclusive.append(r)
        reach.update(doc['reach'])
        for k, v in doc['exhaustive'].items():
            exhaustive[k] = exhaustive.get(k, True) and v
        for k, v in doc['extra'].items():
            if isinstance(v, (int, float)) and isinstance(extra.get(k), (int, float)):
                extra[k] = max(extra[k], v)
            else:
                extra.setdefault(k, v)

    n_distinct = len(digests)
    if big_merge:
        import heapq

        def it(raw):
            mv = memoryview(raw)
            for i in range(0, len(raw), 8):
                yield bytes(mv[i:i + 8])
        prev = None
        n_distinct = 0
        for d in heapq.merge(*[it(r) for r in digest_blobs]):
            if d != prev:
                n_distinct += 1
                prev = d
    if not args.replay:
        for name, n in sorted(reach.items()):
            if n == 0:
                inconclusive.append('anchored function never entered: %s' % name)
        for cl in getattr(mod, 'REQUIRED_CLAUSES', []):
            if clauses.get(cl, 0) == 0:
                inconclusive.append('monitor clause never evaluated: %s' % cl)
        mins = getattr(mod, 'MIN_DISTINCT', {'quick': 50, 'thorough': 200})
        if n_distinct < mins[args.tier]:
            inconclusive.append('only %d distinct non-trivial cases (minimum %d)' % (
                n_distinct, mins[args.tier]))

    # ---- replay files + lines
    lines = []
    replay_dir = os.environ.get('VERIF_REPLAYS') or os.path.join(HERE, 'replays')     # scratch runs keep theirs elsewhere
    os.makedirs(replay_dir, exist_ok=True)
    seen_paths = set()
    for v in violations:
        blob = json.dumps(v, sort_keys=True).encode()
        name = '%s-%s.json' % (prop, hashlib.blake2b(blob, digest_size=6).hexdigest())
        path = os.path.join(replay_dir, name)
        if path in seen_paths:
            continue
        seen_paths.add(path)
        if not args.replay:
            with open(path, 'w') as f:
                json.dump(v, f, indent=1, sort_keys=True)
        else:
            path = os.path.abspath(args.replay)
        lines.append('VIOLATION property=%s replay=%s' % (prop, path))
        lines.append('  clause=%s detail=%s' % (
            v['clause'], json.dumps(v['detail'])[:600]))
    listed = known.listed_for(prop)
    for e in listed:
        fid = e['id']
        if known_seen.get(fid):
            lines.append('KNOWN-FINDING: property=%s %s: %s (seen %d times this run)' % (
                prop, fid, e.get('what_fails', e.get('mechanism', '')), known_seen[fid]))
        elif not args.replay:
            lines.append('note: property=%s listed finding %s did not reproduce in this run' % (
                prop, fid))

    status = 0
    if violation_count:
        status = 1
    elif inconclusive:
        status = 2
    for r in inconclusive:
        lines.append('INCONCLUSIVE property=%s reason=%s' % (prop, r.replace('\n', ' | ')[:1200]))
    wall = time.time() - t0

    if not args.replay and not os.environ.get('VERIF_NO_EVIDENCE'):
        level = getattr(mod, 'LEVEL', 'exploration')
        coverage = {
            'evaluations': evaluations,
            'distinct_nontrivial': n_distinct,
            'rule': getattr(mod, 'RULE', ''),
            'samples': [{'class': k, 'case': v} for k, v in samples.items()] or [],
            'exhaustive': bool(getattr(mod, 'EXHAUSTIVE_WHOLE', False)),
            'exhaustive_subspaces': exhaustive,
            'monitor_clauses': dict(sorted(clauses.items())),
            'histograms': {k: dict(sorted(v.items(), key=lambda kv: (-kv[1], kv[0]))[:80])
                           for k, v in sorted(hist.items())},
            'histogram_sizes': {k: len(v) for k, v in sorted(hist.items())},
            'functions_reached': dict(sorted(reach.items())),
            'known_findings_seen': dict(known_seen),
            'known_findings_witness': known_witness,
            'workers': nshards,
            'verdict': {0: 'held', 1: 'violated', 2: 'inconclusive'}[status],
            'inconclusive_reasons': inconclusive,
            'notes': notes,
            'extra': extra,
        }
        doc = {
            'property_id': prop, 'tier': args.tier, 'seed': args.seed,
            'level': level, 'coverage': coverage,
            'assumptions': getattr(mod, 'ASSUMPTIONS', []),
            'wall_s': round(wall, 2), 'violations': violation_count,
        }
        os.makedirs(os.path.join(HERE, 'evidence'), exist_ok=True)
        path = os.path.join(HERE, 'evidence', '%s.json' % prop)
        with open(path + '.tmp', 'w') as f:
            json.dump(doc, f, indent=1, sort_keys=True)
        os.replace(path + '.tmp', path)
        if args.tier == 'thorough':
            os.makedirs(os.path.join(HERE, 'evidence', 'thorough'), exist_ok=True)
            shutil.copyfile(path, os.path.join(HERE, 'evidence', 'thorough', '%s.json' % prop))

    for ln in lines:
        print(ln)
    print('%s tier=%s seed=%d verdict=%s evaluations=%d distinct=%d violations=%d wall=%.1fs' % (
        prop, args.tier, args.seed, {0: 'held', 1: 'VIOLATED', 2: 'INCONCLUSIVE'}[status],
        evaluations, n_distinct, violation_count, wall))
    return status


def main(argv=None):
    ap = argparse.ArgumentParser()
    ap.add_argument('prop')
    ap.add_argument('--tier', default=os.environ.get('VERIF_TIER', 'quick'),
                    choices=['quick', 'thorough'])
    ap.add_argument('--seed', type=int, default=int(os.environ.get('VERIF_SEED', '0') or 0))
    ap.add_argument('--replay')
    ap.add_argument('--shards', type=int, default=0)
    ap.add_argument('--worker')
    ap.add_argument('--out')
    ap.add_argument('-v', '--verbose', action='store_true')
    args = ap.parse_args(argv)
    args.prop = args.prop.upper()
    if args.worker:
        worker_main(args)
        return 0
    return run_parent(args)


if __name__ == '__main__':
    sys.exit(main())
