"""Layout-driven image generators with known answers + independent reference reader.

Every builder takes a JSON-able parameter dict and returns (bytes, truth).
truth carries what the generator *wrote*: declared virtual size, structure
boundaries, the lo/hi thresholds of C07's prefix clause, safety traits.
Nothing here imports or copies inspector code: layouts come from the public
format descriptions quoted in the module comments of format_inspector.py.

A case is reproducible from its spec alone: build(spec) is deterministic.
"""
import random
import struct
import uuid

KI = 1024
MI = 1024 * 1024
GD_AT_END = 0xffffffffffffffff
VHDX_REGION_TABLE = 192 * KI
VHDX_META_GUID = '8B7CA206-4790-4B9A-B8FE-575F050F886E'
VHDX_VDS_GUID = '2FA54224-CD1B-4876-B211-5DBED83BF4B8'


def _rand_bytes(seed, n):
    return random.Random(repr(seed)).randbytes(n)


def _guid_le(s):
    return uuid.UUID(s).bytes_le


def _scrub(b):
    """Random filler must not spell another format's signature by accident (a 16-bit MBR signature at 510 turns up
    once in 65536 images): the generators make single-format images unless a polyglot is asked for."""
    if len(b) >= 512 and bytes(b[510:512]) == b'\x55\xaa':
        b[510] = 0
    if len(b) >= 0x44 and bytes(b[0x40:0x44]) == b'\x7f\x10\xda\xbe':
        b[0x40] = 0
    if len(b) >= 32774 and bytes(b[32769:32774]) in (b'CD001', b'NSR02', b'NSR03'):
        b[32769] = 0


# ----------------------------------------------------------------------
# builders
# ----------------------------------------------------------------------
def qcow2(p):
    version = p.get('version', 3)
    bf_offset = p.get('bf_offset', 0)
    size = p.get('size', 1 << 30)
    feat = p.get('feat', 0)
    total = p.get('total', 1024)
    magic = p.get('magic', 'QFI\xfb').encode('latin-1')
    h = bytearray(max(total, 512))
    if p.get('filler_seed') is not None:
        h[:] = _rand_bytes(('qcow', p['filler_seed']), len(h))
        _scrub(h)
    h[0:32] = struct.pack('>4sIQIIQ', magic, version & 0xffffffff, bf_offset,
                          p.get('bf_size', 0) & 0xffffffff, p.get('cluster_bits', 16), size)
    h[72:80] = struct.pack('>Q', feat)
    if p.get('bf_name_hex') and 0 < bf_offset < len(h):
        # the backing file NAME inside the image (header sector or behind it): any bytes, not necessarily UTF-8
        name = bytes.fromhex(p['bf_name_hex'])
        h[bf_offset:bf_offset + len(name)] = name[:max(0, len(h) - bf_offset)]
    exts = p.get('exts')
    if exts is not None and version == 3:
        # qcow2 v3 as qemu-img writes it: header_length at 100 and a chain of header extensions (type, length, data padded
        # to 8) ending with type 0.  0xE2792ACA backing format, 0x6803F857 feature names, 0x44415441 data file name, ...
        h[100:104] = struct.pack('>I', 104)
        pos = 104
        for etype, elen in exts:
            body = _rand_bytes(('qext', etype, elen), elen)
            rec = struct.pack('>II', etype, elen) + body + b'\0' * (-elen % 8)
            if pos + len(rec) + 8 > 512:
                break
            h[pos:pos + len(rec)] = rec
            pos += len(rec)
        h[pos:pos + 8] = b'\0' * 8
    data = bytes(h[:total])
    ok_sig = total >= 512 and magic == b'QFI\xfb'
    if total < 512 or not ok_sig:
        verdict = 'reject'
    elif version not in (2, 3) or bf_offset != 0:
        verdict = 'reject'
    elif version == 3 and (feat & 0b100 or feat >> 4):
        verdict = 'reject'
    elif exts and any(t == 0x44415441 for t, _l in exts):
        verdict = 'dontcare'        # a data-file-name extension without the feature bit: qemu ignores it, refusing is defensible
    elif feat == 0 and p.get('filler_seed') is None:
        verdict = 'accept'
    elif version == 3 and feat == 0:
        verdict = 'accept'
    else:
        verdict = 'dontcare'
    responsible = []
    if version not in (2, 3):
        responsible.append('unknown_features')
    if bf_offset != 0:
        responsible.append('backing_file')
    if version == 3 and feat & 0b100:
        responsible.append('data_file')
    if version == 3 and feat >> 4:
        responsible.append('unknown_features')
    truth = dict(fmt='qcow2', sig=ok_sig, size=size if ok_sig else 0, lo=32, hi=512,
                 wellformed=ok_sig and total >= 512,
                 bounds=[4, 8, 16, 24, 32, 72, 80, 100, 104, 108, 112, 120, 512], safety=verdict,
                 responsible=sorted(set(responsible)), complete_at=512)
    return data, truth


def simple512(fmt, p):
    total = p.get('total', 4096)
    b = bytearray(max(total, 512))
    if p.get('filler_seed') is not None:
        b[:] = _rand_bytes((fmt, p['filler_seed']), len(b))
        _scrub(b)
    size = p.get('size', 1 << 30)
    if fmt == 'vhd':
        b[0:8] = p.get('magic', 'conectix').encode('latin-1')
        b[40:48] = struct.pack('>Q', size)
        sig = bytes(b[0:8]) == b'conectix'
        lo, bounds = 48, [8, 40, 48, 512]
    elif fmt == 'vdi':
        b[0x40:0x44] = struct.pack('<I', p.get('magic_int', 0xbeda107f))
        b[0x170:0x178] = struct.pack('<Q', size)
        sig = p.get('magic_int', 0xbeda107f) == 0xbeda107f and total >= 512
        lo, bounds = 0x178, [0x40, 0x44, 0x170, 0x178, 512]
    elif fmt == 'qed':
        b[0:4] = p.get('magic', 'QED\x00').encode('latin-1')
        sig = bytes(b[0:4]) == b'QED\x00' and total >= 512
        lo, bounds, size = 0, [4, 512], 0
    else:
        raise ValueError(fmt)
    data = bytes(b[:total])
    if fmt == 'vhd':
        sig = data[:8] == b'conectix'
    complete = total >= 512
    if fmt == 'qed':
        safety = 'reject'
    else:
        safety = 'accept' if (sig and complete) else 'reject'
    truth = dict(fmt=fmt, sig=sig, size=size if (sig and complete) else 0, lo=lo, hi=512,
                 wellformed=sig and complete, bounds=bounds, safety=safety,
                 responsible=['banned'] if fmt == 'qed' else [], complete_at=512)
    return data, truth


def vhd(p):
    return simple512('vhd', p)


def vdi(p):
    return simple512('vdi', p)


def qed(p):
    return simple512('qed', p)


def vhdx(p):
    size = p.get('size', 1 << 30)
    meta_off = p.get('meta_off', 2 * MI)
    item_off = p.get('item_off', 0x10000)
    n_pad_region = p.get('n_pad_region', 0)
    n_pad_meta = p.get('n_pad_meta', 0)
    n_after_region = p.get('n_after_region', 0)
    n_after_meta = p.get('n_after_meta', 0)
    tail = p.get('tail', 0)
    item_len = p.get('item_len', 8)
    ident = p.get('ident', 'vhdxfile').encode('latin-1')
    regi = p.get('regi', 0x69676572)
    meta_sig = p.get('meta_sig', 'metadata').encode('latin-1')
    region_count = p.get('region_count')       # override the count field
    meta_count = p.get('meta_count')
    with_vds = p.get('with_vds', True)
    with_meta = p.get('with_meta', True)
    total = max(256 * KI, meta_off + item_off + 8, meta_off + 32 * (n_pad_meta + n_after_meta + 2)) + tail
    if p.get('total') is not None:
        total = p['total']
    b = bytearray(max(total, meta_off + max(item_off + 8, 32 * (n_pad_meta + n_after_meta + 2)), 256 * KI))
    if p.get('filler_seed') is not None:
        r = random.Random('vhdx-%s' % p['filler_seed'])
        # sparse random filler (cheap on multi-MiB images)
        for _ in range(2000):
            b[r.randrange(len(b))] = r.getrandbits(8)
    b[0:len(ident)] = ident
    rt = VHDX_REGION_TABLE
    pad = b'\x11' * 16 + struct.pack('<QII', 3 * MI, MI, 1)
    entries = [pad] * n_pad_region
    if with_meta:
        entries.append(_guid_le(VHDX_META_GUID) + struct.pack('<QII', meta_off, p.get('meta_len', MI), 1))
    entries += [pad] * n_after_region
    cnt = len(entries) if region_count is None else region_count
    b[rt:rt + 16] = struct.pack('<IIII', regi, 0, cnt & 0xffffffff, 0)
    for i, e in enumerate(entries[:2047]):
        b[rt + 16 + i * 32: rt + 16 + (i + 1) * 32] = e
    mpad = b'\x22' * 16 + struct.pack('<III', 0x20000, 8, p.get('pad_flags', 0) & 0xffffffff) + b'\0\0\0\0'
    ments = [mpad] * n_pad_meta
    if with_vds:
        ments.append(_guid_le(VHDX_VDS_GUID) + struct.pack('<III', item_off, item_len & 0xffffffff, p.get('vds_flags', 0) & 0xffffffff) +
                     bytes([p.get('entry_reserved', 0)]) * 4)
    ments += [mpad] * n_after_meta
    mcnt = len(ments) if meta_count is None else meta_count
    b[meta_off:meta_off + 32] = struct.pack('<8sHH', meta_sig, 0, mcnt & 0xffff).ljust(32, b'\0')
    for i, e in enumerate(ments):
        b[meta_off + 32 + i * 32: meta_off + 32 + (i + 1) * 32] = e
    b[meta_off + item_off: meta_off + item_off + 8] = struct.pack('<Q', size)
    data = bytes(b[:total])
    V = meta_off + item_off
    table_end = 32 * (len(ments) + 1)
    forward = meta_off >= 256 * KI and item_off >= table_end
    wellformed = (ident == b'vhdxfile' and regi == 0x69676572 and meta_sig == b'metadata' and
                  with_vds and with_meta and item_len == 8 and forward and
                  region_count is None and meta_count is None and total >= V + 8 and
                  len(entries) <= 2047 and len(ments) <= 2047)
    # the inspector keeps reading the metadata table up to 64 KiB or until it found the entry;
    # it needs the whole declared table (32*(count+1) bytes) before looking.
    truth = dict(fmt='vhdx', sig=data[:8] == b'vhdxfile', size=size if wellformed else None,
                 lo=V + 8, hi=max(V + 8, meta_off + table_end), wellformed=wellformed,
                 bounds=[8, 32, rt, rt + 16, rt + 16 + 32 * len(entries), 256 * KI, meta_off, meta_off + 32,
                         meta_off + table_end, meta_off + 64 * KI, V, V + 8],
                 safety='accept' if wellformed else 'dontcare', responsible=[],
                 forward=forward, complete_at=max(V + 8, meta_off + table_end, 256 * KI))
    return data, truth


VMDK_DEFAULT_LINES = ['# Disk DescriptorFile', 'version=1', 'CID=fffffffe', 'parentCID=ffffffff']


def vmdk_descriptor(p):
    """Descriptor text from line classes; returns (bytes, ok) where ok says
    whether every line is of a class the property lists as acceptable."""
    ctype = p.get('ctype', 'monolithicSparse')
    lines = list(p.get('head', VMDK_DEFAULT_LINES))
    ok = True
    if ctype is None:
        ok = False
    elif p.get('ctype_unquoted'):
        lines.append('createType=%s' % ctype)
        ok = False
    else:
        if p.get('ctype_first') is not None:
            # an earlier createType header with another value: the descriptor's type is not (only) an allowed one
            # (ctype_first_style: where that first occurrence stands - a header line of its own, inside a '#' comment line,
            # or at the end of a comment; the image's reader, qemu's vmdk driver, takes the first createType=" anywhere
            # in the text, and so does the pinned inspector)
            style = p.get('ctype_first_style', 'line')
            lines.append({'line': 'createType="%s"', 'comment': '# createType="%s"', 'comment-tail': '# converted from createType="%s" by a tool',
                          'indented-comment': '  #createType="%s"'}[style] % p['ctype_first'])
            if p['ctype_first'].lower() not in ('monolithicsparse', 'streamoptimized') or len(p['ctype_first']) >= 64:
                ok = False
        lines.append('createType="%s"' % ctype)
        if ctype.lower() not in ('monolithicsparse', 'streamoptimized') or len(ctype) >= 64:
            ok = False
    lines.append('')
    extents = p.get('extents', ['RW 2048 SPARSE "disk.vmdk"'])
    lines += extents
    has_extent = bool(extents)
    for e in extents:
        if '/' in e:
            ok = False
    for line, line_ok in p.get('extra', []):
        lines.append(line)
        if not line_ok:
            ok = False
        if line.strip().split(' ')[0].lower() in ('rw', 'rdonly', 'noaccess'):
            has_extent = True
            if '/' in line:
                ok = False
    if not has_extent:
        ok = False
    lines += ['', '# The Disk Data Base', '#DDB', '', 'ddb.virtualHWVersion = "4"']
    if p.get('shuffle_seed') is not None:
        random.Random('vmdkshuffle-%s' % p['shuffle_seed']).shuffle(lines)
    if p.get('ctype_blanks'):
        # blanks before / after the createType line (lines are stripped by the reader)
        lines = [('  ' + l + ' \t') if l.lower().startswith('createtype') else l for l in lines]
    eol = '\r\n' if p.get('crlf') else '\n'          # descriptors written by Windows tools end their lines with CR LF
    text = (eol.join(lines) + eol)
    return text.encode('ascii'), ok


def vmdk(p):
    sectors = p.get('sectors', 2048)
    ver = p.get('ver', 1)
    desc_sec = p.get('desc_sec', 1)
    desc_num = p.get('desc_num', 20)
    footer = p.get('footer', False)
    gd = GD_AT_END if footer else p.get('gd', 0x15)
    magic = p.get('magic', 'KDMV').encode('latin-1')
    if p.get('desc_hex') is not None:
        desc, desc_ok = bytes.fromhex(p['desc_hex']), p.get('desc_ok', False)
    else:
        desc, desc_ok = vmdk_descriptor(p)
    if p.get('desc_exact_fill'):
        # the text fills its desc_num sectors exactly: no NUL padding, createType is the last line, no final newline
        ctype = p.get('ctype', 'monolithicSparse')
        lines = [l for l in desc.decode('ascii').split('\n') if l and not l.lower().startswith('createtype')]
        tail = 'createType="%s"' % ctype
        body_txt = '\n'.join(lines) + '\n'
        room = desc_num * 512 - len(body_txt) - len(tail)
        if room >= 2:
            body_txt += '#' + 'x' * (room - 2) + '\n'
            desc = (body_txt + tail).encode('ascii')
    wt = p.get('window_tail_line')
    if wt:
        # a descriptor as long as the window the inspector may look at (min(desc_num sectors, 1 MiB - 1)): comment filler,
        # then one more line that ends `window_tail_back` bytes before the end of that window
        line, line_ok = wt
        window = min(desc_num * 512, (1 << 20) - 1)
        base_txt = desc.decode('ascii')
        tail = line + '\n'
        room = window - len(base_txt) - len(tail) - p.get('window_tail_back', 0)
        if room >= 0:
            filler = ('#' + 'x' * 98 + '\n') * (room // 100)
            rest = room - len(filler)
            filler += '\n' if rest == 1 else ('#' + 'x' * (rest - 2) + '\n') if rest >= 2 else ''
            desc = (base_txt + filler + tail).encode('ascii')
            desc_ok = desc_ok and line_ok
    hdr = struct.pack('<4sIIQQQQIQQ', magic, ver & 0xffffffff, 3, sectors, 128, desc_sec, desc_num, 512, 0, gd)
    hdr = hdr.ljust(512, b'\0')
    if p.get('hdr_filler_seed') is not None:
        filler = bytearray(hdr[:64] + _rand_bytes(('vmdkhdr', p['hdr_filler_seed']), 448))
        _scrub(filler)
        hdr = bytes(filler)
    region_len = min(desc_num * 512, (1 << 20) - 1)
    body = desc.ljust(min(desc_num, 4096) * 512, b'\0')
    stale = p.get('desc_stale')
    if stale and len(desc) + 2 < len(body) and b'\0' not in desc:
        # the descriptor is a NUL-terminated string inside its sectors; what follows the terminator is not text: left-overs
        # of a longer earlier descriptor (ASCII or UTF-8), or binary.  It is not part of the descriptor.
        room = len(body) - len(desc) - 1
        if stale == 'ascii':
            junk = (b'RW 4192256 FLAT "/etc/passwd" 0\nddb.old = "1"\ncreateType="vmfs"\n' * (room // 60 + 1))[:room]
        elif stale == 'utf8':
            junk = ('ddb.comment = "r\u00e9sum\u00e9 \u2013 \u65e7"\n'.encode('utf-8') * (room // 30 + 1))[:room]
        elif stale == 'late-utf8':
            junk = (b'\0' * (room - 3) + '\u65e7'.encode('utf-8'))[:room] if room > 3 else b'\xff' * room
        else:
            junk = _rand_bytes(('vmdkstale', stale, len(desc)), room)
        body = desc + b'\0' + junk
    img = hdr + body
    min_total = p.get('min_total', 65536)
    img = img.ljust(max(len(img), min_total), b'\0')
    if p.get('body_fill') is not None:
        # non-NUL junk after the descriptor area (grain data)
        img = img[:512 + len(body)] + bytes([p['body_fill']]) * (len(img) - 512 - len(body))
    footer_pert = p.get('footer_pert')
    if footer:
        fhdr = bytearray(struct.pack('<4sIIQQQQIQQ', magic, ver & 0xffffffff, 3, sectors, 128, desc_sec, desc_num,
                                     512, 0, 0x15).ljust(512, b'\0'))
        marker = bytearray(struct.pack('<QII', 1, 0, 3).ljust(512, b'\0'))
        eos = bytearray(struct.pack('<QII', 0, 0, 0).ljust(512, b'\0'))
        for fld, val in (p.get('footer_over') or {}).items():
            off, fmt_ = {'desc_sec': (28, '<Q'), 'desc_num': (36, '<Q'), 'ver': (4, '<I'), 'sectors': (12, '<Q')}[fld]
            fhdr[off:off + struct.calcsize(fmt_)] = struct.pack(fmt_, val)
        if footer_pert:
            where = {'msize': (marker, 8, 4), 'mtype': (marker, 12, 4), 'mpad': (marker, 100, 1),
                     'fsig': (fhdr, 0, 4), 'fver': (fhdr, 4, 4), 'fdsec': (fhdr, 28, 8), 'fdnum': (fhdr, 36, 8),
                     'fgd': (fhdr, 56, 8), 'eval': (eos, 0, 8), 'esize': (eos, 8, 4), 'etype': (eos, 12, 4),
                     'epad': (eos, 400, 1)}[footer_pert]
            buf, off, ln = where
            if footer_pert == 'fgd':
                buf[off:off + 8] = b'\xff' * 8
            else:
                buf[off] ^= 0x5a
        img += bytes(marker) + bytes(fhdr) + bytes(eos)
    if p.get('total') is not None:
        img = img[:p['total']] if p['total'] <= len(img) else img.ljust(p['total'], b'\0')
    desc_fits = len(desc) <= region_len
    hdr_ok = magic == b'KDMV' and ver in (1, 2, 3) and desc_sec == 1
    desc_end = 512 + region_len
    complete = len(img) >= desc_end and (not footer or len(img) >= desc_end + 1536)
    over = p.get('footer_over') or {}
    contradiction = footer and any((k == 'desc_sec' and v != desc_sec) or (k == 'desc_num' and v != desc_num) or
                                   (k == 'ver' and v != ver) for k, v in over.items())
    if contradiction:
        footer_pert = footer_pert or 'footer_over'
    if not hdr_ok or desc_num == 0 or not desc_ok or footer_pert:
        safety = 'reject'
    elif not desc_fits:
        safety = 'dontcare'
    elif not complete:
        safety = 'reject'
    else:
        safety = 'accept'
    wellformed = hdr_ok and desc_ok and desc_num >= 1 and desc_fits and complete and not footer_pert
    truth = dict(fmt='vmdk', sig=img[:4] == b'KDMV', size=sectors * 512 if wellformed else None,
                 lo=20, hi=desc_end, wellformed=wellformed,
                 bounds=[4, 8, 12, 20, 28, 36, 44, 56, 64, 512, 512 + len(desc), desc_end] +
                        ([len(img) - 1536, len(img) - 1024, len(img) - 512] if footer else []),
                 safety=safety, responsible=[] if not hdr_ok else (['descriptor'] if not desc_ok else (['footer'] if footer_pert else [])),
                 complete_at=desc_end, hdr_ok=hdr_ok, footer=footer)
    return img, truth


def vmdk_text(p):
    """Text-only descriptor file (no sparse header): finding F1 territory."""
    desc, ok = vmdk_descriptor(p)
    total = p.get('total')
    if total is not None:
        desc = desc.ljust(total, b'\n')[:total]
    truth = dict(fmt='vmdk', sig=False, size=0, lo=1 << 62, hi=1 << 62, wellformed=False, text=True,
                 bounds=[4, 64, 512, len(desc)], safety='dontcare' if ok else 'reject', responsible=[], complete_at=4)
    return desc, truth


def iso(p):
    total = p.get('total', 40960)
    blocks = p.get('blocks', 1000)
    bs = p.get('bs', 2048)
    sig = p.get('sig', 'CD001').encode('latin-1')
    dtype = p.get('dtype', 1)
    b = bytearray(max(total, 34816))
    if p.get('filler_seed') is not None:
        b[0:32768] = _rand_bytes(('iso', p['filler_seed']), 32768)
        # keep MBR/other signatures out of the system area unless asked
        b[0:8] = b'\0' * 8
        b[0x40:0x44] = b'\0' * 4
        b[510:512] = b'\0\0'
    h = 32768
    b[h] = dtype
    b[h + 1:h + 6] = sig
    b[h + 6] = 1
    b[h + 80:h + 84] = struct.pack('<L', blocks)
    b[h + 84:h + 88] = struct.pack('>L', blocks)
    b[h + 128:h + 130] = struct.pack('<H', bs)
    b[h + 130:h + 132] = struct.pack('>H', bs)
    data = bytes(b[:total])
    ok_sig = sig in (b'CD001', b'NSR02', b'NSR03') and total >= 34816
    primary = ok_sig and dtype == 1
    truth = dict(fmt='iso', sig=ok_sig, size=blocks * bs if primary else 0, lo=h + 132, hi=34816,
                 wellformed=ok_sig, bounds=[h, h + 1, h + 6, h + 80, h + 88, h + 128, h + 132, 34816],
                 safety='accept' if ok_sig else 'reject', responsible=[], complete_at=34816)
    return data, truth


def mbr(p):
    """ptes: list of up to four 10-tuples (boot, sh, ss, st, type, eh, es, et, lba, size)."""
    total = p.get('total', 4096)
    b = bytearray(max(total, 512))
    if p.get('filler_seed') is not None:
        b[0:446] = _rand_bytes(('mbr', p['filler_seed']), 446)
        b[0:8] = b'\xeb\x3c\x90\0\0\0\0\0'
        b[0x40:0x44] = b'\0\0\0\0'
        if b[0x10] == 2 and b[0x15] == 0xF8:
            b[0x10] = 0
    ptes = p.get('ptes')
    if ptes is None:
        ptes = [(0x80, 0, 2, 0, 0x83, 0, 0, 0, 1, 100)]
    for i, t in enumerate(ptes[:4]):
        b[446 + 16 * i:446 + 16 * (i + 1)] = struct.pack('<B3BB3BII', *t)
    sig = p.get('sig', 0xAA55)
    b[510:512] = struct.pack('<H', sig)
    if p.get('fat'):
        b[0x10] = 2
        b[0x15] = 0xF8
    if p.get('bpb') is not None:
        # the two boot-code bytes the FAT test looks at, set to values next to the FAT ones (2 FATs, media 0xF8): only
        # exactly that pair means "this is a FAT volume boot record, not a partition table"
        b[0x10], b[0x15] = p['bpb']
    data = bytes(b[:total])
    ok_sig = sig == 0xAA55 and total >= 512 and not (b[0x10] == 2 and b[0x15] == 0xF8)
    ptes4 = list(ptes[:4]) + [(0,) * 10] * (4 - len(ptes[:4]))
    valid = [i for i, t in enumerate(ptes4) if t[4] != 0]
    has_gpt = any(t[4] == 0xEE for t in ptes4)
    bad = any(t[0] not in (0, 0x80) for t in ptes4)
    for t in ptes4:
        if t[4] == 0xEE and ((t[1], t[2], t[3]) != (0, 2, 0) or t[8] != 1):
            bad = True
    if has_gpt and valid != [0]:
        bad = True
    if not valid:
        bad = True
    truth = dict(fmt='gpt', sig=ok_sig, size=total, lo=0, hi=total, wellformed=ok_sig and not bad,
                 bounds=[446, 462, 478, 494, 510, 512],
                 safety=('reject' if bad else 'accept') if ok_sig else 'reject',
                 responsible=['mbr'] if bad else [], complete_at=512)
    return data, truth


def gpt(p):
    q = dict(p)
    q.setdefault('ptes', [(0, 0, 2, 0, 0xEE, 0xff, 0xff, 0xff, 1, 0xffffffff)])
    return mbr(q)


def luks(p):
    version = p.get('version', 1)
    payload = p.get('payload', 4096)
    total = p.get('total', 4096 * 512 + 1000)
    magic = p.get('magic', 'LUKS\xba\xbe').encode('latin-1')
    h = struct.pack('>6sH32s32s32sI', magic, version & 0xffff, b'aes', b'xts-plain64', b'sha256', payload)
    data = h.ljust(592, b'\0').ljust(max(total, 592), b'\x5a')[:total]
    ok_sig = data[:6] == b'LUKS\xba\xbe'
    complete = total >= 592
    truth = dict(fmt='luks', sig=ok_sig, size=total - payload * 512 if (ok_sig and complete) else None,
                 lo=0, hi=total, wellformed=ok_sig and complete and total >= payload * 512,
                 bounds=[6, 8, 104, 108, 592],
                 safety=('accept' if version == 1 else 'reject') if (ok_sig and complete) else 'reject',
                 responsible=['version'] if version != 1 else [], complete_at=592)
    return data, truth


def raw(p):
    kind = p.get('kind', 'zero')
    total = p.get('total', 4096)
    if kind == 'zero':
        data = bytes(total)
    elif kind == 'random':
        data = _rand_bytes(('raw', p.get('seed', 0)), total)
    elif kind == 'text':
        data = (b'some plain text line %d\n' % p.get('seed', 0) * (total // 20 + 1))[:total]
    elif kind == 'text-late-nonascii':
        d = bytearray((b'plain ascii text line\n' * (total // 22 + 1))[:total])
        pos = p.get('pos', total // 2)
        if 0 <= pos < total:
            d[pos] = p.get('byte', 0xff)
        data = bytes(d)
    else:
        raise ValueError(kind)
    truth = dict(fmt='raw', sig=True, size=total, lo=0, hi=total, wellformed=True, bounds=[64, 512],
                 safety='accept', responsible=[], complete_at=0)
    return data, truth


BUILDERS = {'qcow2': qcow2, 'vhd': vhd, 'vdi': vdi, 'qed': qed, 'vhdx': vhdx, 'vmdk': vmdk,
            'vmdk_text': vmdk_text, 'iso': iso, 'mbr': mbr, 'gpt': gpt, 'luks': luks, 'raw': raw}

INSPECTOR_OF = {'qcow2': 'qcow2', 'vhd': 'vhd', 'vdi': 'vdi', 'qed': 'qed', 'vhdx': 'vhdx', 'vmdk': 'vmdk',
                'vmdk_text': 'vmdk', 'iso': 'iso', 'mbr': 'gpt', 'gpt': 'gpt', 'luks': 'luks', 'raw': 'raw'}


# ----------------------------------------------------------------------
# overlays / mutations
# ----------------------------------------------------------------------
SIG_PUT = {
    'qcow2': [(0, b'QFI\xfb')],
    'qed': [(0, b'QED\x00')],
    'vhd': [(0, b'conectix')],
    'vhdx': [(0, b'vhdxfile')],
    'vmdk': [(0, b'KDMV')],
    'vdi': [(0x40, b'\x7f\x10\xda\xbe')],
    'iso': [(32768, b'\x01CD001\x01')],
    'gpt': [(510, b'\x55\xaa')],
    'luks': [(0, b'LUKS\xba\xbe')],
    'fat': [(0x10, b'\x02'), (0x15, b'\xf8')],
}


def apply_mutations(data, muts):
    """muts: list of ['set', off, hex] | ['xor', off, byte] | ['trunc', n] | ['extend', n, byte]
    | ['sig', name]"""
    b = bytearray(data)
    for m in muts or []:
        op = m[0]
        if op == 'set':
            raw_ = bytes.fromhex(m[2])
            if m[1] + len(raw_) <= len(b):
                b[m[1]:m[1] + len(raw_)] = raw_
        elif op == 'xor':
            if m[1] < len(b):
                b[m[1]] ^= m[2]
        elif op == 'trunc':
            del b[m[1]:]
        elif op == 'extend':
            b += bytes([m[2]]) * m[1]
        elif op == 'sig':
            for off, raw_ in SIG_PUT[m[1]]:
                if off + len(raw_) <= len(b):
                    b[off:off + len(raw_)] = raw_
        else:
            raise ValueError(op)
    return bytes(b)


def build(spec):
    """spec = {'gen': name, 'params': {...}, 'mut': [...]} -> (bytes, truth).

    With mutations, truth['mutated'] is True and only the reference reader
    (sigs, parse_*) may be used as an oracle."""
    data, truth = BUILDERS[spec['gen']](spec.get('params', {}))
    if spec.get('mut'):
        data = apply_mutations(data, spec['mut'])
        truth = dict(truth)
        truth['mutated'] = True
    return data, truth


# ----------------------------------------------------------------------
# independent reference reader
# ----------------------------------------------------------------------
def sigs(c):
    """Which format signatures are present in content c (as the property words them:
    a signature counts once the bytes that carry it and the inspector's fixed header are there)."""
    s = set()
    n = len(c)
    if n >= 512 and c[:4] == b'QFI\xfb':
        s.add('qcow2')
    if n >= 512 and c[:4] == b'QED\x00':
        s.add('qed')
    if c[:8] == b'conectix':
        s.add('vhd')
    if c[:8] == b'vhdxfile':
        s.add('vhdx')
    if c[:4] == b'KDMV':
        s.add('vmdk')
    if n >= 512 and c[0x40:0x44] == b'\x7f\x10\xda\xbe':
        s.add('vdi')
    if n >= 34816 and c[32769:32774] in (b'CD001', b'NSR02', b'NSR03'):
        s.add('iso')
    if n >= 512 and c[510:512] == b'\x55\xaa' and not (c[0x10] == 2 and c[0x15] == 0xF8):
        s.add('gpt')
    if c[:6] == b'LUKS\xba\xbe':
        s.add('luks')
    return s


def parse_vhdx(c):
    """Pointer chain of a VHDX from bytes alone.  Returns dict with keys
    ok (chain resolvable), meta_off, item_off (relative), n_meta, backward (F2 predicate)."""
    out = dict(ok=False, backward=False)
    rt = VHDX_REGION_TABLE
    if len(c) < rt + 16:
        return out
    regi, _ck, count, _r = struct.unpack('<IIII', c[rt:rt + 16])
    if regi != 0x69676572 or count >= 2048:
        return out
    meta_off = None
    for i in range(count):
        e = c[rt + 16 + 32 * i: rt + 48 + 32 * i]
        if len(e) < 32:
            return out
        if e[:16] == _guid_le(VHDX_META_GUID):
            meta_off, = struct.unpack('<Q', e[16:24])
            break
    if meta_off is None:
        return out
    out['meta_off'] = meta_off
    if meta_off < 256 * KI:
        out['backward'] = True
    hdr = c[meta_off:meta_off + 32]
    if len(hdr) < 32:
        return out
    sig, _r, cnt = struct.unpack('<8sHH', hdr[:12])
    out['n_meta'] = cnt
    if sig != b'metadata' or cnt >= 2048:
        return out
    for i in range(cnt):
        e = c[meta_off + 32 + 32 * i: meta_off + 64 + 32 * i]
        if len(e) < 32:
            return out
        if e[:16] == _guid_le(VHDX_VDS_GUID):
            item_off, item_len = struct.unpack('<II', e[16:24])
            out['item_off'] = item_off
            out['item_len'] = item_len
            # the inspector stops the table capture at 32*(cnt+1) bytes
            if item_off < 32 * (cnt + 1):
                out['backward'] = True
            out['ok'] = True
            return out
    return out


def vhdx_backward(c):
    """F2 predicate: a pointer of the VHDX chain points below the position a
    streaming reader has necessarily passed when it learns the pointer."""
    if c[:8] != b'vhdxfile':
        return False
    return parse_vhdx(c).get('backward', False)
