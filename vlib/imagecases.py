"""Seeded spec generators for the image properties (C01 C02 C03 C05 C07).

A spec is {'gen': builder name, 'params': {...}, 'mut': [...]}; imagegen.build
turns it into bytes + ground truth deterministically.
"""
from vlib import imagegen as ig

KI, MI = 1024, 1024 * 1024
FORMATS = ['qcow2', 'vhd', 'vdi', 'qed', 'vhdx', 'vmdk', 'iso', 'mbr', 'gpt', 'luks']


def size_pool(rng, bits=64):
    k = rng.randrange(1, bits + 1)
    pool = [0, 1, 2, 511, 512, 513, 1 << 30, (1 << 31) - 1, 1 << 31, (1 << 32) - 1, 1 << 32, (1 << 32) + 1,
            (1 << 63) - 1, 1 << 63, (1 << 64) - 1, 1 << k, (1 << k) - 1, (1 << k) + 1,
            rng.getrandbits(64), rng.getrandbits(40), rng.getrandbits(20)]
    return rng.choice(pool) & ((1 << bits) - 1)


def wellformed(rng, fmt, small=True):
    """A well-formed image of the given format with random admissible layout."""
    p = {}
    if fmt == 'qcow2':
        p = dict(version=rng.choice([2, 3, 3]), size=size_pool(rng), total=rng.choice([512, 513, 1024, 4096, 70000]),
                 cluster_bits=rng.choice([9, 16, 21]), bf_size=0)
        if rng.random() < 0.5:
            p['filler_seed'] = rng.getrandbits(30)
            p['version'] = 3
        if rng.random() < 0.4:
            p['version'] = 3
            p['exts'] = [[rng.choice([0xE2792ACA, 0x6803F857, 0x44415441, 0x0537BE77, 0x23852875, 0x12345678]),
                          rng.choice([0, 1, 5, 8, 24, 48])] for _ in range(rng.randrange(1, 4))]
    elif fmt in ('vhd', 'vdi'):
        p = dict(size=size_pool(rng), total=rng.choice([512, 513, 4096, 66000]))
        if rng.random() < 0.5:
            p['filler_seed'] = rng.getrandbits(30)
    elif fmt == 'qed':
        p = dict(total=rng.choice([512, 4096, 66000]))
    elif fmt == 'vhdx':
        n_pad_meta = rng.choice([0, 0, 1, 2, 7, 100, 2045, 2046] if not small else [0, 0, 0, 1, 1, 2, 7, 7, 100, 100, 2044, 2045, 2046])
        n_after_meta = rng.choice([0, 0, 1, 5]) if n_pad_meta < 2040 else 0
        n_pad_region = rng.choice([0, 0, 1, 3, 2046])
        table_end = 32 * (n_pad_meta + n_after_meta + 2)
        meta_off = rng.choice([256 * KI, 256 * KI, 256 * KI + 1, 256 * KI + 512, 300 * KI, MI] +
                              ([] if small else [2 * MI, 2 * MI + 4096]))
        item_off = rng.choice([table_end, table_end + 1, table_end + 8, 64 * KI, 64 * KI + 8, 65 * KI,
                               max(table_end, 70 * KI)])
        item_off = max(item_off, table_end)
        p = dict(size=size_pool(rng), meta_off=meta_off, item_off=item_off, n_pad_meta=n_pad_meta,
                 n_after_meta=n_after_meta, n_pad_region=n_pad_region,
                 n_after_region=rng.choice([0, 0, 1]) if n_pad_region < 2040 else 0,
                 tail=rng.choice([0, 0, 1, 100, 5000]), meta_len=rng.choice([MI, 64 * KI, (1 << 32) - 1]))
        if rng.random() < 0.3:
            p['filler_seed'] = rng.getrandbits(30)
        if rng.random() < 0.5:
            # the flags word of the metadata table entries (IsUser 0x1, IsVirtualDisk 0x2, IsRequired 0x4; real images
            # carry 0x6 on the virtual disk size item) and the reserved word: none of it is the size
            p['vds_flags'] = rng.choice([6, 6, 4, 2, 1, 7, 0xffffffff, rng.getrandbits(32)])
            p['pad_flags'] = rng.choice([0, 6, 5, 1, rng.getrandbits(32)])
            if rng.random() < 0.3:
                p['entry_reserved'] = rng.choice([0, 0xff, 1])
    elif fmt == 'vmdk':
        desc_num = rng.choice([1, 2, 2, 20, 20, 100] + ([] if small else [2048]))
        p = dict(sectors=size_pool(rng, 64), ver=rng.choice([1, 1, 2, 3]), desc_num=desc_num,
                 ctype=rng.choice(['monolithicSparse', 'streamOptimized', 'MONOLITHICSPARSE', 'StreamOptimized']),
                 footer=rng.random() < 0.4, min_total=rng.choice([0, 0, 2048, 65536]),
                 extents=[rng.choice(['RW 2048 SPARSE "disk.vmdk"', 'RDONLY 10 SPARSE "c.vmdk"',
                                      'rw 10 sparse "ok.vmdk"', 'NOACCESS 10 ZERO'])
                          for _ in range(rng.choice([1, 1, 2]))])
        if desc_num == 1:
            # the default descriptor is < 512 bytes, fits one sector
            p['extents'] = p['extents'][:1]
        if rng.random() < 0.3:
            p['hdr_filler_seed'] = rng.getrandbits(30)
        if rng.random() < 0.25:
            p['crlf'] = True
        if rng.random() < 0.15:
            p['ctype_blanks'] = True
        if rng.random() < 0.3:
            # not-NUL bytes after the NUL that ends the descriptor text, inside the descriptor's sectors
            p['desc_stale'] = rng.choice(['ascii', 'utf8', 'late-utf8', 'bin1', 'bin%d' % rng.randrange(1000)])
        if rng.random() < 0.3:
            p['body_fill'] = rng.choice([0x41, 0xff, 0x0a])
        if rng.random() < 0.3:
            p['shuffle_seed'] = rng.getrandbits(20)
        if rng.random() < 0.15:
            # descriptor text that fills its sectors exactly (no NUL padding, createType last, no final newline)
            p['desc_exact_fill'] = True
            p.pop('shuffle_seed', None)
            p['desc_num'] = rng.choice([1, 2, 3, 20])
    elif fmt == 'iso':
        p = dict(blocks=size_pool(rng, 32), bs=rng.choice([512, 1024, 2048, 2048, 4096, 32768, 1, 65535]),
                 sig=rng.choice(['CD001', 'CD001', 'NSR02', 'NSR03']), dtype=rng.choice([1, 1, 1, 0, 2, 255]),
                 total=rng.choice([34816, 34817, 40960, 70000]))
        if rng.random() < 0.4:
            p['filler_seed'] = rng.getrandbits(30)
    elif fmt == 'mbr':
        k = rng.choice([1, 1, 2, 3, 4])
        ptes = []
        for i in range(4):
            if i < k:
                ptes.append([rng.choice([0, 0x80]), rng.getrandbits(8), rng.getrandbits(8), rng.getrandbits(8),
                             rng.choice([0x83, 0x07, 0x0b, 0x82, 0xa5]), rng.getrandbits(8), rng.getrandbits(8),
                             rng.getrandbits(8), rng.getrandbits(32), rng.getrandbits(32)])
            else:
                ptes.append([0] * 10)
        rng.shuffle(ptes)
        p = dict(ptes=ptes, total=rng.choice([512, 513, 4096, 66000]))
        if rng.random() < 0.4:
            p['filler_seed'] = rng.getrandbits(30)
        if rng.random() < 0.35:
            p['bpb'] = rng.choice([[1, 0xF8], [2, 0xF0], [3, 0xF8], [2, 0xF9], [0, 0xF8], [1, 0xF0], [2, 0], [0xF8, 2]])
    elif fmt == 'gpt':
        p = dict(total=rng.choice([512, 1024, 4096, 66000]),
                 ptes=[[0, 0, 2, 0, 0xEE, rng.getrandbits(8), rng.getrandbits(8), rng.getrandbits(8), 1,
                        rng.choice([0xffffffff, rng.getrandbits(32)])]])
        if rng.random() < 0.35:
            p['bpb'] = rng.choice([[1, 0xF8], [2, 0xF0], [3, 0xF8], [2, 0xF9], [0, 0xF8], [1, 0xF0], [2, 0], [0xF8, 2]])
        elif rng.random() < 0.15:
            p['fat'] = True        # the boot code happens to hold the FAT pair: not a partition table for the detector
    elif fmt == 'luks':
        payload = rng.choice([0, 1, 2, 8, 8, 64, 2048])
        p = dict(version=1, payload=payload, total=max(592, payload * 512) + rng.choice([0, 1, 1000, 70000]))
    elif fmt == 'raw':
        p = dict(kind=rng.choice(['zero', 'random', 'text']), total=rng.choice([0, 1, 63, 64, 511, 512, 600, 5000, 70000]),
                 seed=rng.getrandbits(20))
    else:
        raise ValueError(fmt)
    return {'gen': fmt, 'params': p}


def structure_ranges(truth, n):
    """Byte ranges in which structures live (for field mutations)."""
    rs = [(0, min(n, 512))]
    fmt = truth['fmt']
    b = truth['bounds']
    if fmt == 'vhdx':
        rs += [(192 * KI, 192 * KI + 16 + 32 * 4), (b[6], b[8] + 32), (b[10], b[11])]
    elif fmt == 'vmdk':
        rs += [(512, min(n, 512 + 700))]
        if truth.get('footer'):
            rs += [(n - 1536, n)]
    elif fmt == 'iso':
        rs += [(32768, 32768 + 140)]
    return [(a, min(z, n)) for a, z in rs if a < min(z, n)]


def mutated(rng, spec, data_len, truth):
    """A field-mutated / truncated / extended / polyglot variant of spec."""
    k = rng.randrange(6)
    if data_len == 0 or not structure_ranges(truth, data_len):
        k = 3
    mut = []
    if k == 0:      # flip bytes inside structures
        for _ in range(rng.choice([1, 1, 2, 4])):
            a, z = rng.choice(structure_ranges(truth, data_len))
            mut.append(['xor', rng.randrange(a, z), rng.choice([1, 0x80, 0xff, 0x5a])])
    elif k == 1:    # set a field to a boundary value
        a, z = rng.choice(structure_ranges(truth, data_len))
        off = rng.randrange(a, z)
        width = rng.choice([1, 2, 4, 8])
        val = rng.choice([0, 1, (1 << (8 * width)) - 1, 1 << (8 * width - 1), 2047, 2048])
        mut.append(['set', off, (val & ((1 << (8 * width)) - 1)).to_bytes(width, rng.choice(['little', 'big'])).hex()])
    elif k == 2:    # truncate at a structure boundary +-1
        b = rng.choice([x for x in truth['bounds'] if x <= data_len] or [data_len])
        mut.append(['trunc', max(0, b + rng.choice([-1, 0, 1]))])
    elif k == 3:    # extend with junk
        mut.append(['extend', rng.choice([1, 511, 512, 1536, 5000]), rng.choice([0, 0x41, 0xff])])
    elif k == 4:    # polyglot: overlay other signatures
        names = rng.sample(sorted(ig.SIG_PUT), rng.choice([1, 1, 2, 3]))
        mut += [['sig', nm] for nm in names]
    else:           # truncate anywhere
        mut.append(['trunc', rng.randrange(0, data_len + 1)])
    out = dict(spec)
    out['mut'] = list(spec.get('mut', [])) + mut
    return out


def unstructured(rng):
    kind = rng.choice(['zero', 'random', 'text', 'text-late-nonascii'])
    total = rng.choice([0, 1, 3, 4, 5, 63, 64, 65, 100, 511, 512, 513, 600, 1535, 1536, 1600, 5000, 40000])
    p = dict(kind=kind, total=total, seed=rng.getrandbits(20))
    if kind == 'text-late-nonascii':
        p['pos'] = rng.choice([0, 3, 4, 63, 64, 100, 511, 512, 600, 1000]) if total else 0
        p['byte'] = rng.choice([0xff, 0x80, 0x00, 0x01, 0x7f])
    spec = {'gen': 'raw', 'params': p}
    if rng.random() < 0.5 and total:
        spec['mut'] = [['sig', nm] for nm in rng.sample(sorted(ig.SIG_PUT), rng.choice([1, 2]))]
    return spec


def vhdx_backward(rng):
    """A VHDX whose pointer chain refers backwards (metadata region inside the headers, or the size item inside the
    metadata entry table): refused by the inspector; the refusal must not depend on the chunking."""
    n_pad_meta = rng.choice([0, 1, 3, 20])
    p = dict(size=size_pool(rng), n_pad_meta=n_pad_meta, tail=rng.choice([0, 100, 5000]))
    if rng.random() < 0.5:
        p['meta_off'] = rng.choice([0, 32, 100, 64 * KI, 192 * KI, 192 * KI + 16, 200 * KI, 256 * KI - 1, 256 * KI - 32])
        p['item_off'] = rng.choice([0x10000, 32 * (n_pad_meta + 2)])
    else:
        p['meta_off'] = rng.choice([256 * KI, 300 * KI, MI])
        p['item_off'] = rng.choice([0, 8, 31, 32, 40, 32 * (n_pad_meta + 2) - 1, 32 * (n_pad_meta + 1)])
    if rng.random() < 0.5:
        p['tail'] = rng.choice([70000, 200000])        # enough stream for a large read to fill a 64 KiB region
    return {'gen': 'vhdx', 'params': p}


def vhdx_corrupt(rng):
    """VHDX whose structures fail validation half-way (bad region-table / metadata signature, oversized counts):
    refused with ImageFormatError; what the wrapper then concludes must not depend on the chunking."""
    p = dict(size=size_pool(rng), meta_off=rng.choice([256 * KI, 300 * KI, MI]), tail=rng.choice([0, 100, 70000, 200000]),
             n_pad_meta=rng.choice([0, 3, 100]))
    k = rng.randrange(5)
    if k == 0:
        p['meta_sig'] = rng.choice(['metadatx', 'Metadata', '\x00etadata'])
    elif k == 1:
        p['regi'] = rng.choice([0, 0x69676573, 0xffffffff])
    elif k == 2:
        p['region_count'] = rng.choice([2048, 65535, (1 << 32) - 1])
    elif k == 3:
        p['meta_count'] = rng.choice([2048, 4000, 65535])
    else:
        p['item_len'] = rng.choice([0, 4, 9, 65536, (1 << 32) - 1])
    return {'gen': 'vhdx', 'params': p}
