"""Executable model of oslo_utils.excutils.save_and_reraise_exception (C09).

A *program* is the body of an exception handler that runs inside

    except BaseException:
        with save_and_reraise_exception(reraise=<flag>, logger=<log>) as ctxt:
            <body>

A body is a list of ops (lists/tuples, JSON-able):

  ['noop']            nothing
  ['inner']           raise an unrelated exception and catch it (this is what clears the
                      interpreter's exception context in the situation the helper exists for)
  ['new']             raise a fresh exception that escapes the body
  ['off'] / ['on']    ctxt.reraise = False / True
  ['fr_caught']       try: ctxt.force_reraise()  except BaseException: pass
  ['fr_escape']       ctxt.force_reraise()       (escapes the body)
  ['capture_inner']   raise a fresh exception, and in its handler call ctxt.capture()
  ['recapture']       ctxt.capture() directly (captures the exception being handled)
  ['nest', flag, mode, body]
                      another save_and_reraise_exception(reraise=flag) around `body`;
                      mode 'plain'   - entered directly (captures the exception being handled),
                           'handled' - a fresh exception is raised and the nested helper is
                                       used in *its* handler,
                           'guarded' - like plain, but wrapped in try/except BaseException: pass

The model is written from the property statement only:
  saved exception = the one active at entry (or at the last explicit capture());
  body completes normally: reraise on => the saved object propagates, else nothing;
  body raises E: E propagates, and logger.error is called exactly once iff reraise was on.

Exceptions are tokens: 'orig' (the one the outermost handler handles), ('new', i) the i-th
exception object created by the program in execution order, and ('fab', ctx, saved) for what a
second force_reraise() on one capture of context `ctx` raises: by the statement that should be
`saved`; known finding K9 says the real helper fabricates something else there.
Contexts are numbered in order of entry; index 0 is the outermost.
"""

ATOMS = ('noop', 'inner', 'new', 'off', 'on', 'fr_caught', 'fr_escape',
         'capture_inner', 'recapture')
NEST_MODES = ('plain', 'handled', 'guarded')


class _Ctx:
    __slots__ = ('idx', 'saved', 'reraise', 'fr')

    def __init__(self, idx, saved, reraise):
        self.idx = idx
        self.saved = saved
        self.reraise = reraise
        self.fr = 0          # force_reraise calls since the last capture


class Result:
    """outcome: None (nothing propagates) or a token; logs[i] = expected number of
    logger.error calls on context i; log_saved[i] = token that must be mentioned by the log
    call of context i, or None when that is not pinned (a force_reraise already consumed the
    capture); k9 = some capture saw more than one force_reraise; created = number of fresh
    exception objects the program makes."""
    __slots__ = ('outcome', 'logs', 'log_saved', 'k9', 'created', 'ops')

    def __init__(self):
        self.outcome = None
        self.logs = []
        self.log_saved = []
        self.k9 = False
        self.created = 0
        self.ops = []


def _force(m, res):
    m.fr += 1
    if m.fr > 1:
        res.k9 = True
        return ('fab', m.idx, m.saved)
    return m.saved


def _body(m, body, res, active):
    """Returns the token of the exception leaving the body, or None."""
    for op in body:
        k = op[0]
        res.ops.append(k)
        if k == 'noop' or k == 'inner':
            pass
        elif k == 'new':
            tok = ('new', res.created)
            res.created += 1
            return tok
        elif k == 'off':
            m.reraise = False
        elif k == 'on':
            m.reraise = True
        elif k == 'fr_caught':
            _force(m, res)
        elif k == 'fr_escape':
            return _force(m, res)
        elif k == 'capture_inner':
            tok = ('new', res.created)
            res.created += 1
            m.saved = tok
            m.fr = 0
        elif k == 'recapture':
            m.saved = active
            m.fr = 0
        elif k == 'nest':
            flag, mode, sub = op[1], op[2], op[3]
            if mode == 'handled':
                tok = ('new', res.created)
                res.created += 1
                out = _with(tok, flag, sub, res)
            else:
                out = _with(active, flag, sub, res)
                if mode == 'guarded':
                    out = None
            if out is not None:
                return out
        else:
            raise ValueError('unknown op %r' % (op,))
    return None


def _with(active, reraise, body, res):
    """One save_and_reraise_exception context entered while `active` is being handled."""
    m = _Ctx(len(res.logs), active, reraise)
    res.logs.append(0)
    res.log_saved.append(None)
    out = _body(m, body, res, active)
    if out is not None:
        if m.reraise:
            res.logs[m.idx] = 1
            res.log_saved[m.idx] = m.saved if m.fr == 0 else None
        return out
    if m.reraise:
        return _force(m, res)
    return None


def run(body, reraise):
    res = Result()
    res.outcome = _with('orig', reraise, body, res)
    return res


def k9_applies(program, reraise):
    """Input-only predicate of known finding K9: executing `program` (flag `reraise`) performs
    more than one force_reraise on the same capture, counting the implicit one at exit when
    reraise is on at exit; a capture() in between resets the count."""
    return run(program, reraise).k9


def depth(body):
    """Nesting depth: 1 for a body without nested helpers."""
    d = 1
    for op in body:
        if op[0] == 'nest':
            d = max(d, 1 + depth(op[3]))
    return d


# ---------------------------------------------------------------------
# program enumeration
# ---------------------------------------------------------------------
def bodies_full(depth_, modes=('plain',), width=2):
    """All bodies of <= width ops whose nesting depth is <= depth_ (siblings allowed)."""
    atoms = [(a,) for a in ATOMS]
    if depth_ > 1:
        subs = list(bodies_full(depth_ - 1, modes, width))
        for flag in (True, False):
            for mode in modes:
                for sub in subs:
                    atoms.append(('nest', flag, mode, sub))
    return _seqs(atoms, width)


def _seqs(atoms, width):
    yield ()
    if width >= 1:
        for a in atoms:
            yield (a,)
    if width >= 2:
        for a in atoms:
            for b in atoms:
                yield (a, b)
    if width >= 3:
        for a in atoms:
            for b in atoms:
                for c in atoms:
                    yield (a, b, c)


def bodies_spine(depth_, modes=('plain',)):
    """All bodies of <= 2 ops, nesting depth <= depth_, at most one nested helper per body
    (a single nesting spine)."""
    plain = [(a,) for a in ATOMS]
    yield from _seqs(plain, 2)
    if depth_ <= 1:
        return
    for sub in bodies_spine(depth_ - 1, modes):
        for flag in (True, False):
            for mode in modes:
                n = ('nest', flag, mode, sub)
                yield (n,)
                for a in plain:
                    yield (a, n)
                    yield (n, a)


def random_body(rng, depth_, max_ops=3, modes=NEST_MODES, p_nest=0.35, min_ops=1):
    """A random body of min_ops..max_ops ops with nesting depth <= depth_."""
    out = []
    for _ in range(rng.randint(min_ops, max_ops)):
        if depth_ > 1 and rng.random() < p_nest:
            out.append(('nest', rng.random() < 0.5, rng.choice(modes),
                        random_body(rng, depth_ - 1, max_ops, modes, p_nest, 0)))
        else:
            out.append((rng.choice(ATOMS),))
    return tuple(out)


def random_body_exact_depth(rng, depth_, max_ops=3, modes=NEST_MODES):
    """A random body whose nesting depth is exactly depth_ (siblings of the spine are random
    bodies that may nest as deep as the spine below them)."""
    body = random_body(rng, 1, max_ops, modes, min_ops=0)
    for level in range(1, depth_):
        outer = list(random_body(rng, level, max_ops - 1, modes, min_ops=0))
        outer.insert(rng.randint(0, len(outer)),
                     ('nest', rng.random() < 0.5, rng.choice(modes), body))
        body = tuple(outer)
    return body
