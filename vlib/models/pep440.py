"""PEP 440 ordering over *structured* versions.

A version is the tuple V(epoch, release, pre, post, dev):

    epoch    int >= 0
    release  non-empty tuple of ints >= 0
    pre      None or (letter, n) with letter in 'a' < 'b' < 'rc'
    post     None or int >= 0
    dev      None or int >= 0

The model never parses a string and never imports `packaging`: generators
build a V, `render` turns it into text for the code under test, and `compare`
orders the structures following PEP 440 ("Summary of permitted suffixes and
relative ordering"):

  * a higher epoch wins, whatever follows;
  * release segments compare component-wise, the shorter one padded with zeros;
  * inside one release:  X.devN  <  X aN < X bN < X rcN  <  X  <  X.postN
  * inside one pre-release or post-release the same pattern repeats:
        X a1.dev2 < X a1 < X a1.post0.dev5 < X a1.post0 < X a1.post1
        X < X.post0.dev3 < X.post0
  * numbers compare numerically.

Local version labels are outside the model.
"""
import collections

PRE_LETTERS = ('a', 'b', 'rc')

V = collections.namedtuple('V', 'epoch release pre post dev')


def _nat(x):
    return isinstance(x, int) and not isinstance(x, bool) and x >= 0


def make(epoch=0, release=(1,), pre=None, post=None, dev=None):
    release = tuple(release)
    if pre is not None:
        pre = (pre[0], pre[1])
        assert pre[0] in PRE_LETTERS and _nat(pre[1]), pre
    assert _nat(epoch) and release and all(_nat(c) for c in release), (epoch, release)
    assert post is None or _nat(post), post
    assert dev is None or _nat(dev), dev
    return V(epoch, release, pre, post, dev)


def to_json(v):
    return [v.epoch, list(v.release), list(v.pre) if v.pre is not None else None, v.post, v.dev]


def from_json(j):
    return make(j[0], tuple(j[1]), tuple(j[2]) if j[2] is not None else None, j[3], j[4])


def major(v):
    """First number of the release segment."""
    return v.release[0]


# ----------------------------------------------------------------------
# ordering
# ----------------------------------------------------------------------
def _cmp(x, y):
    return (x > y) - (x < y)


def _series_position(v):
    """Where the version sits among the versions of one (epoch, release)."""
    if v.pre is not None:
        main = (1 + PRE_LETTERS.index(v.pre[0]), v.pre[1])     # a 1, b 2, rc 3
    elif v.post is None and v.dev is not None:
        main = (0, 0)                                           # bare X.devN: before every pre-release
    else:
        main = (4, 0)                                           # final release (possibly post-released)
    post = (0, 0) if v.post is None else (1, v.post)            # a post-release follows what it amends
    dev = (1, 0) if v.dev is None else (0, v.dev)               # a dev release precedes what it prepares
    return main + post + dev


def compare(a, b):
    """-1, 0, +1 as a sorts before, equal to, after b."""
    c = _cmp(a.epoch, b.epoch)
    if c:
        return c
    n = max(len(a.release), len(b.release))
    c = _cmp(a.release + (0,) * (n - len(a.release)), b.release + (0,) * (n - len(b.release)))
    if c:
        return c
    return _cmp(_series_position(a), _series_position(b))


OPERATORS = ('<', '<=', '==', '!=', '>=', '>')


def holds(op, a, b):
    """Truth of `a op b` for the six comparison operators."""
    c = compare(a, b)
    return {'<': c < 0, '<=': c <= 0, '==': c == 0, '!=': c != 0, '>=': c >= 0, '>': c > 0}[op]


# ----------------------------------------------------------------------
# rendering
# ----------------------------------------------------------------------
def render(v):
    """Canonical (normalised) PEP 440 text."""
    s = ('%d!' % v.epoch) if v.epoch else ''
    s += '.'.join(str(c) for c in v.release)
    if v.pre is not None:
        s += '%s%d' % v.pre
    if v.post is not None:
        s += '.post%d' % v.post
    if v.dev is not None:
        s += '.dev%d' % v.dev
    return s


# Alternative spellings that PEP 440 ("Normalization") declares equivalent to
# the canonical one.  A style is a dict of indices into these tables.
PRE_NAMES = {'a': ('a', 'alpha'), 'b': ('b', 'beta'), 'rc': ('rc', 'c', 'pre', 'preview')}
PRE_SEPS = ('', '.', '-', '_')
POST_FORMS = ('.post%d', 'post%d', '-post%d', '_post%d', '.rev%d', '.r%d', '-%d')
DEV_FORMS = ('.dev%d', 'dev%d', '-dev%d', '_dev%d')
STYLE_FIELDS = (('pre_name', 4), ('pre_sep', len(PRE_SEPS)), ('post', len(POST_FORMS)),
                ('dev', len(DEV_FORMS)), ('v', 2), ('upper', 2), ('implicit0', 2), ('epoch0', 2), ('zeros', 6))


def render_alt(v, style):
    """Non-canonical but PEP 440-equivalent text; style maps field -> index."""
    g = style.get
    # PEP 440 "Integer Normalization": every numeric component may carry leading zeros ("01.5" is 1.5, "00!1" is 0!1)
    z = g('zeros', 0)
    efmt = '%03d!' if z == 5 else '%d!'
    s = (efmt % v.epoch) if (v.epoch or g('epoch0')) else ''
    rel = [str(c) for c in v.release]
    if z == 3:
        rel[0] = '0' + rel[0]
    elif z == 4:
        rel[-1] = '00' + rel[-1]
    elif z == 5:
        rel = ['0' + c for c in rel]
    s += '.'.join(rel)
    parts = []
    if v.pre is not None:
        names = PRE_NAMES[v.pre[0]]
        parts.append(['pre', PRE_SEPS[g('pre_sep', 0) % len(PRE_SEPS)] +
                      names[g('pre_name', 0) % len(names)], v.pre[1]])
    if v.post is not None:
        parts.append(['post', POST_FORMS[g('post', 0) % len(POST_FORMS)], v.post])
    if v.dev is not None:
        parts.append(['dev', DEV_FORMS[g('dev', 0) % len(DEV_FORMS)], v.dev])
    for i, (kind, form, n) in enumerate(parts):
        final = i == len(parts) - 1
        if kind == 'pre':
            s += form + ('' if (final and n == 0 and g('implicit0')) else '%d' % n)
        elif final and n == 0 and g('implicit0') and form != '-%d':
            s += form[:-2]                      # "1.2.post" / "1.2.dev": implicit number 0
        else:
            s += form % n
    if g('v'):
        s = 'v' + s
    if g('upper'):
        s = s.upper()
    return s
