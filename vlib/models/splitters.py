"""Reference models for C19 (split_path / split_by_commas).

Written from the property statement and the docstrings, not from the code
under test.  Each model returns the list the statement demands, or REJECT
where the statement demands ValueError, or DONT_CARE where it is silent.
"""

REJECT = 'REJECT'
DONT_CARE = 'DONT-CARE'


# ---------------------------------------------------------------------------
# split_path
# ---------------------------------------------------------------------------
def _segments(body):
    """Cut the text after the leading '/' at every '/' (empty pieces kept)."""
    out, cur = [], []
    for ch in body:
        if ch == '/':
            out.append(''.join(cur))
            cur = []
        else:
            cur.append(ch)
    out.append(''.join(cur))
    return out


def ref_split_path(path, minsegs=1, maxsegs=None, rest_with_last=False, reading='slot'):
    """The answer the statement gives for one path.

    The statement leaves one thing open: whether the empty piece behind a
    trailing slash is itself a (present, empty) segment or is dropped before
    counting.  reading='slot'  : it is a segment; the tolerance only forgives
                                 it when it is the (maxsegs+1)-th one.
               reading='strip' : one trailing slash is removed first.
    Both readings agree on accept/reject; they differ in '' vs None (and in a
    kept trailing '/' of a rest_with_last remainder).  The monitor accepts both.
    """
    if maxsegs is None:
        maxsegs = minsegs
    if minsegs > maxsegs:
        return REJECT
    if path[:1] != '/':
        return REJECT
    body = path[1:]
    tolerate = False
    if reading == 'strip':
        if body[-1:] == '/':
            body = body[:-1]
    else:
        tolerate = True
    segs = _segments(body)
    n = len(segs)
    if n < minsegs:
        return REJECT
    for s in segs[:minsegs]:
        if s == '':
            return REJECT
    if n <= maxsegs:
        return segs + [None] * (maxsegs - n)
    if rest_with_last:
        return segs[:maxsegs - 1] + ['/'.join(segs[maxsegs - 1:])]
    if tolerate and n == maxsegs + 1 and segs[-1] == '':
        return segs[:maxsegs]
    return REJECT


def split_path_answers(path, minsegs, maxsegs, rest_with_last):
    """All answers compatible with the statement (list of lists and/or REJECT)."""
    out = []
    for reading in ('slot', 'strip'):
        a = ref_split_path(path, minsegs, maxsegs, rest_with_last, reading)
        if a not in out:
            out.append(a)
    return out


# ---------------------------------------------------------------------------
# split_by_commas
# ---------------------------------------------------------------------------
NEEDS_QUOTES = ',"\\ \''          # the single quote is "in doubt": quoted as well


def quote_item(item):
    r"""Double-quote with backslash escapes for '\' and '"'."""
    out = ['"']
    for ch in item:
        if ch == '\\' or ch == '"':
            out.append('\\')
        out.append(ch)
    out.append('"')
    return ''.join(out)


def must_quote(item):
    return item == '' or any(ch in NEEDS_QUOTES for ch in item)


def join_items(items):
    return ','.join(quote_item(i) if must_quote(i) else i for i in items)


def ref_split_commas(text):
    """Strict reader of the joined form.

    Returns the item list, REJECT for unbalanced / misplaced quoting and empty
    unquoted items, DONT_CARE for things the statement does not talk about
    (white space or a backslash outside quotes, escapes other than \\ and \",
    control characters).
    """
    items = []
    i, n = 0, len(text)
    dont_care = False
    while True:
        if i < n and text[i] == '"':
            i += 1
            buf = []
            while True:
                if i >= n:
                    return REJECT                       # unbalanced quote
                c = text[i]
                if c == '\\':
                    if i + 1 >= n:
                        return REJECT                   # lone backslash, then end
                    if text[i + 1] not in '\\"':
                        dont_care = True
                    buf.append(text[i + 1])
                    i += 2
                elif c == '"':
                    i += 1
                    break
                else:
                    if not (' ' <= c <= '~'):
                        dont_care = True
                    buf.append(c)
                    i += 1
            items.append(''.join(buf))
        else:
            j = i
            while j < n and text[j] not in ',"':
                if text[j] == '\\' or not ('!' <= text[j] <= '~'):
                    dont_care = True
                j += 1
            if j == i:
                return DONT_CARE if dont_care else REJECT   # empty unquoted item
            if text[i:j].strip(' \t') == '':
                return REJECT                               # an unquoted item made of blanks only is empty too
            items.append(text[i:j])
            i = j
        if i == n:
            return DONT_CARE if dont_care else items
        if text[i] != ',':
            # a quote inside / right behind an unquoted word, or text behind a closing quote
            return DONT_CARE if dont_care else REJECT
        i += 1
