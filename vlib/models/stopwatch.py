"""Sequential reference model of oslo_utils.timeutils.StopWatch (property C13).

Written from the property statement and the class docstrings, not from the
implementation.  The clock reading `now` is handed in by the harness; the
model never reads a clock itself.  Operations are small integers (index into
OPS) because the bounded-exhaustive search applies tens of millions of them.
"""
NEW, STARTED, STOPPED = 0, 1, 2
STATES = ('new', 'started', 'stopped')
OPS = ('start', 'stop', 'resume', 'restart', 'split', 'elapsed', 'elapsed_max', 'leftover',
       'leftover_none', 'expired', '__enter__', '__exit__')
(START, STOP, RESUME, RESTART, SPLIT, ELAPSED, ELAPSED_MAX, LEFTOVER, LEFTOVER_NONE, EXPIRED,
 ENTER, EXIT) = range(12)
ILLEGAL = 'RuntimeError'    # the call is illegal in this state: must raise, watch unchanged
SELF = 'the watch itself'   # fluent methods and __enter__ hand the watch back
FALSY = 'a false value'     # __exit__ must not swallow the with-body's exception


class WatchModel:
    __slots__ = ('duration', 'state', 'started_at', 'stopped_at', 'splits')

    def __init__(self, duration=None):
        self.duration, self.state = duration, NEW
        self.started_at = self.stopped_at = None
        self.splits = ()                      # tuple of (elapsed, length)

    def copy(self):
        c = WatchModel.__new__(WatchModel)
        c.duration, c.state, c.started_at, c.stopped_at, c.splits = (
            self.duration, self.state, self.started_at, self.stopped_at, self.splits)
        return c

    def _elapsed(self, now):   # distance from the last (re)start to now / to the stop instant
        end = now if self.state == STARTED else self.stopped_at
        return max(0.0, end - self.started_at)

    def apply(self, op, now, maximum=None):
        """Performs one call at clock reading `now`; returns the expected outcome."""
        s = self.state
        if op in (START, ENTER, RESTART):     # start: "if not already started"; resets the splits
            if op == RESTART or s != STARTED:
                self.state, self.started_at, self.stopped_at, self.splits = STARTED, now, None, ()
            return SELF
        if op in (STOP, EXIT):                # __exit__: "ignoring errors if stop fails"
            if s == STARTED:
                self.state, self.stopped_at = STOPPED, now
            return FALSY if op == EXIT else (ILLEGAL if s == NEW else SELF)
        if op == RESUME:                      # "from a stopped state"; the start instant is kept
            if s != STOPPED:
                return ILLEGAL
            self.state = STARTED
            return SELF
        if op == SPLIT:                       # "(and doesn't stop)": only a running watch splits
            if s != STARTED:
                return ILLEGAL
            e = self._elapsed(now)
            self.splits += ((e, e - self.splits[-1][0] if self.splits else e),)
            return self.splits[-1]
        if s == NEW or (s == STOPPED and op in (LEFTOVER, LEFTOVER_NONE)):
            return ILLEGAL                    # nothing has elapsed yet / "that has not been started"
        e = self._elapsed(now)
        if op == ELAPSED:
            return e
        if op == ELAPSED_MAX:                 # maximum >= 0 only (negative ones are DONT-CARE)
            return min(e, maximum)
        if op == EXPIRED:
            return self.duration is not None and e > self.duration
        if self.duration is None:             # leftover without a duration
            return None if op == LEFTOVER_NONE else ILLEGAL
        return max(0.0, self.duration - e)
