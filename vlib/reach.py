"""Reach counters: sys.monitoring PY_START on the anchored code objects.

A check lists the functions its property is anchored in as
("module", "Qual.name") pairs.  They are resolved by name (not line number),
so they survive edits; a name that no longer resolves, or a function the
workload never entered, makes the run inconclusive rather than held.
"""
import importlib
import sys

TOOL_ID = 4
_counts = {}
_names = {}
_CAP = 2_000_000


def _resolve(modname, qual):
    mod = importlib.import_module(modname)
    obj = mod
    parts = qual.split('.')
    for i, part in enumerate(parts):
        if isinstance(obj, type):
            # look in the class dict to see properties / staticmethods raw
            for klass in obj.__mro__:
                if part in klass.__dict__:
                    obj = klass.__dict__[part]
                    break
            else:
                raise AttributeError(qual)
        else:
            obj = getattr(obj, part)
    seen = 0
    while seen < 10:
        seen += 1
        if isinstance(obj, property):
            obj = obj.fget
        elif isinstance(obj, (staticmethod, classmethod)):
            obj = obj.__func__
        elif hasattr(obj, '__wrapped__') and not hasattr(obj, '__code__'):
            obj = obj.__wrapped__
        else:
            break
    code = getattr(obj, '__code__', None)
    if code is None:
        raise AttributeError('%s.%s has no code object' % (modname, qual))
    return code


def _on_start(code, offset):
    c = _counts.get(code)
    if c is None:
        return sys.monitoring.DISABLE
    c += 1
    _counts[code] = c
    if c >= _CAP:
        return sys.monitoring.DISABLE
    return None


def install(anchors):
    """Returns a list of unresolved anchor names."""
    missing = []
    mon = sys.monitoring
    try:
        mon.use_tool_id(TOOL_ID, 'verif-reach')
    except ValueError:
        pass
    mon.register_callback(TOOL_ID, mon.events.PY_START, _on_start)
    for modname, qual in anchors:
        name = '%s:%s' % (modname, qual)
        code = None
        for alt in qual.split('|'):          # "a.__wrapped__|A.__exit__": whichever form the implementation has
            try:
                code = _resolve(modname, alt)
                break
            except Exception as e:  # noqa
                continue
        if code is None:
            missing.append(name)
            continue
        _counts[code] = 0
        _names[code] = name
        mon.set_local_events(TOOL_ID, code, mon.events.PY_START)
    return missing


def snapshot():
    return {_names[c]: n for c, n in _counts.items()}
