"""Call-style dimension: the documented parameter names given by keyword.

`proxy(module)` returns a stand-in for a repository module whose public functions are called, for a fixed share of the
argument tuples (decided by a digest of the arguments, so a replay makes the same choice), with their positional arguments
turned into keywords.  The names are the ones the pinned tree documents; they are written down here, not read from the
module under test, so that a wrapper which hides or renames a parameter is seen.  A keyword call that fails with TypeError
where the positional call works is the property failing for callers who name their arguments.
"""
import zlib

SIGS = {
    'strutils': {
        'bool_from_string': ('subject', 'strict', 'default'), 'check_string_length': ('value', 'name', 'min_length', 'max_length'),
        'int_from_bool_as_string': ('subject',), 'is_int_like': ('val',), 'is_valid_boolstr': ('value',),
        'mask_dict_password': ('dictionary', 'secret'), 'mask_password': ('message', 'secret'),
        'split_by_commas': ('value',), 'split_path': ('path', 'minsegs', 'maxsegs', 'rest_with_last'),
        'string_to_bytes': ('text', 'unit_system', 'return_int'), 'to_slug': ('value', 'incoming', 'errors'),
        'validate_integer': ('value', 'name', 'min_value', 'max_value')},
    'netutils': {
        'escape_ipv6': ('address',), 'get_ipv6_addr_by_EUI64': ('prefix', 'mac'), 'get_mac_addr_by_ipv6': ('ipv6', 'dialect'),
        'is_valid_cidr': ('address',), 'is_valid_icmp_code': ('code',), 'is_valid_icmp_type': ('type',),
        'is_valid_ip': ('address',), 'is_valid_ipv4': ('address', 'strict'), 'is_valid_ipv6': ('address',),
        'is_valid_ipv6_cidr': ('address',), 'is_valid_mac': ('address',), 'is_valid_port': ('port',),
        'parse_host_port': ('address', 'default_port'), 'urlsplit': ('url', 'scheme', 'allow_fragments')},
    'encodeutils': {
        'safe_decode': ('text', 'incoming', 'errors'), 'safe_encode': ('text', 'incoming', 'encoding', 'errors'),
        'to_utf8': ('text',)},
    'versionutils': {
        'convert_version_to_int': ('version',), 'convert_version_to_str': ('version_int',),
        'convert_version_to_tuple': ('version_str',), 'is_compatible': ('requested_version', 'current_version', 'same_major')},
    'specs_matcher': {'match': ('cmp_value', 'spec')},
    'fileutils': {
        'compute_file_checksum': ('path', 'read_chunksize', 'algorithm'), 'delete_if_exists': ('path', 'remove'),
        'ensure_tree': ('path', 'mode'), 'last_bytes': ('path', 'num'),
        'write_to_tempfile': ('content', 'path', 'suffix', 'prefix')},
    'uuidutils': {'is_uuid_like': ('val',)},
    'timeutils': {
        'is_newer_than': ('after', 'seconds'), 'is_older_than': ('before', 'seconds'), 'is_soon': ('dt', 'window'),
        'normalize_time': ('timestamp',), 'parse_isotime': ('timestr',), 'unmarshall_time': ('tyme',)},
}
COUNT = {'kw': 0, 'pos': 0}


def _digest(args):
    try:
        return zlib.crc32(repr(args).encode('utf-8', 'backslashreplace'))
    except Exception:  # noqa  (an argument whose repr fails: call positionally)
        return 1


class _AltCall:
    __slots__ = ('f', 'names', 'share')

    def __init__(self, f, names, share):
        self.f, self.names, self.share = f, names, share

    def __call__(self, *a, **k):
        if a and len(a) <= len(self.names) and _digest(a) % self.share == 0 and not (set(self.names[:len(a)]) & set(k)):
            COUNT['kw'] += 1
            k = dict(zip(self.names, a), **k)
            return self.f(**k)
        COUNT['pos'] += 1
        return self.f(*a, **k)

    def __getattr__(self, name):
        return getattr(self.f, name)


class _Proxy:
    def __init__(self, module, share):
        object.__setattr__(self, '_m', module)
        object.__setattr__(self, '_s', share)
        object.__setattr__(self, '_sig', SIGS.get(module.__name__.rsplit('.', 1)[-1], {}))

    def __getattr__(self, name):
        v = getattr(self._m, name)
        names = self._sig.get(name)
        if names is not None and callable(v):
            return _AltCall(v, names, self._s)
        return v

    def __setattr__(self, name, value):          # failpoints patched into the module (fu.open = ...) go through
        setattr(self._m, name, value)

    def __delattr__(self, name):
        delattr(self._m, name)

    @property
    def __dict__(self):                          # vars(proxy) is vars(module)
        return vars(self._m)


def proxy(module, share=4):
    """Every `share`-th distinct argument tuple is passed by keyword."""
    return _Proxy(module, share)


def flush(ctx, clause='documented-keyword-call'):
    if COUNT['kw']:
        ctx.clause(clause, COUNT['kw'])
    ctx.h('call style', 'keyword', COUNT['kw'])
    ctx.h('call style', 'positional', COUNT['pos'])
    COUNT['kw'] = COUNT['pos'] = 0
