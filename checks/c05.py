"""C05 Inspector memory is bounded by a constant, whatever the stream claims.

Invariant at a hook: after every eat_chunk and after finish(),
sum(context_info.values()) <= 1.5 MiB for VMDK and <= 512 KiB for every other format.
The workload aims at the clamps: length / count / offset fields at boundary and
maximal values on multi-MiB streams, pure text (VMDK text-descriptor path), random data.
"""
import struct

from vlib import imagegen as ig
from vlib import streamlab as sl

PROPERTY = 'C05'
LEVEL = 'exploration'
FI = 'oslo_utils.imageutils.format_inspector'
ANCHORS = [(FI, 'CaptureRegion.capture'), (FI, 'EndCaptureRegion.capture'), (FI, 'FileInspector.context_info'),
           (FI, 'VHDXInspector._find_meta_region'), (FI, 'VHDXInspector._find_meta_entry'),
           (FI, 'VMDKInspector.post_process')]
RULE = ('hostile multi-MiB streams per format (valid images, every length/count/offset field at boundary and maximal '
        'values, pure text, random) x chunk schedules (giant, 1 MiB, 64 KiB, 4 KiB, boundary cuts, byte windows); the '
        'retained total is read after every chunk. non-trivial = stream longer than the bound of its inspector; '
        'distinct by (stream spec, inspector, schedule)')
REQUIRED_CLAUSES = ['under-debug-logging', 'bound-under-reused-chunk-buffers', 'bound-after-chunk', 'bound-after-finish', 'clamp-reached-vmdk', 'clamp-reached-vhdx']
ASSUMPTIONS = ['context_info is the audit accessor named by the property; len(region.data) is cross-checked against it']
INTERPRETER_FLAGS = [[], ['-O'], ['-X', 'dev'], ['-bb']]
SHARDS = {'quick': 8, 'thorough': 16}
MIN_DISTINCT = {'quick': 300, 'thorough': 3000}
LEVEL_TEXT = ('Exploration with a constant-bound invariant evaluated after every chunk; the workload is built so that the '
              'observed maxima reach the theoretical caps (VMDK 512+(1 MiB-1)+1536, VHDX 32+3x64 KiB), i.e. the clamps the '
              'property depends on are actually exercised - a run that does not reach them is inconclusive.')
LEVEL_NOTE = 'Trusted: context_info (cross-checked against the sum of len(region.data) through region()).'
TECHNIQUE = 'invariant at a hook (retained-bytes bound after every eat_chunk) under hostile field values and chunk schedules'

MI = 1 << 20
BOUND = {'vmdk': 1536 * 1024}
DEFAULT_BOUND = 512 * 1024


def hostile_vmdk(p):
    """VMDK whose descriptor size field announces a huge descriptor; the area after the header is non-NUL text."""
    total = p['total']
    d = bytearray(total)
    hdr = struct.pack('<4sIIQQQQIQQ', b'KDMV', p.get('ver', 1), 3, 2048, 128, p.get('desc_sec', 1), p['desc_num'], 512, 0,
                      ig.GD_AT_END if p.get('footer') else 0x15)
    d[:len(hdr)] = hdr
    fill = b'# comment line filler\n'
    body = (fill * (total // len(fill) + 1))[:total - 512]
    if p.get('nul_at') is not None and p['nul_at'] < len(body):
        body = body[:p['nul_at']] + b'\0' + body[p['nul_at'] + 1:]
    d[512:] = body
    return bytes(d)


def hostile_vhdx(p):
    spec = {'meta_off': p.get('meta_off', 256 * 1024), 'item_off': p.get('item_off', 0x10000),
            'item_len': p.get('item_len', 8), 'n_pad_meta': p.get('n_pad_meta', 0), 'tail': p.get('tail', 3 * MI),
            'with_vds': p.get('with_vds', True), 'meta_len': p.get('meta_len', (1 << 32) - 1)}
    for k in ('meta_sig', 'regi'):
        if p.get(k) is not None:
            spec[k] = p[k]
    if p.get('region_count') is not None:
        spec['region_count'] = p['region_count']
    if p.get('meta_count') is not None:
        spec['meta_count'] = p['meta_count']
    data, _t = ig.vhdx(spec)
    b = bytearray(data)
    # make the tail non-zero so over-capture would be visible in size, not content
    for pos in range(len(b) - spec['tail'], len(b), 4096):
        b[pos] = 0x41
    return bytes(b)


# Integer fields of each format's header as the FORMAT documents them (not as the inspectors read them): (offset, width,
# endianness).  The 'fieldpair' family sets one field to an offset that lies inside the stream and another one to a huge
# length - any field an inspector trusts as "where" and "how much" then announces a structure far larger than the bound.
FIELDS = {
    'qcow2': (0, '>', [(4, 4), (8, 8), (16, 4), (20, 4), (24, 8), (32, 4), (36, 4), (40, 8), (48, 8), (56, 4), (60, 4), (64, 8),
                       (72, 8), (80, 8), (88, 8), (96, 4), (100, 4)]),
    'qed': (0, '<', [(4, 4), (8, 4), (12, 4), (16, 8), (24, 8), (32, 8), (40, 8), (48, 8), (56, 4), (60, 4)]),
    'vhd': (0, '>', [(8, 4), (12, 4), (16, 8), (24, 4), (36, 4), (40, 8), (48, 8), (56, 4), (60, 4), (64, 4)]),
    'vdi': (0, '<', [(68, 4), (72, 4), (76, 4), (80, 4), (340, 4), (344, 4), (348, 4), (352, 4), (356, 4), (360, 4), (368, 8),
                     (376, 4), (380, 4), (384, 4), (388, 4)]),
    'luks': (0, '>', [(6, 2), (104, 4), (108, 4), (164, 4), (208, 4), (212, 4), (248, 4), (252, 4), (256, 4)]),
    'gpt': (0, '<', [(454, 4), (458, 4), (470, 4), (474, 4), (512 + 8, 4), (512 + 12, 4), (512 + 24, 8), (512 + 32, 8), (512 + 40, 8),
                     (512 + 48, 8), (512 + 72, 8), (512 + 80, 4), (512 + 84, 4)]),
    'mbr': (0, '<', [(454, 4), (458, 4), (470, 4), (474, 4), (486, 4), (490, 4), (502, 4), (506, 4)]),
    'iso': (32768, '<', [(80, 4), (120, 2), (124, 2), (128, 2), (132, 4), (140, 4), (144, 4), (156 + 2, 4), (156 + 10, 4)]),
    'vmdk': (0, '<', [(4, 4), (8, 4), (12, 8), (20, 8), (28, 8), (36, 8), (44, 4), (48, 8), (56, 8), (64, 8)]),
}
FIELD_BASE = {'qcow2': {'total': 1024}, 'qed': {'total': 1024}, 'vhd': {'total': 1024}, 'vdi': {'total': 1024},
              'luks': {'total': 4096, 'payload': 2}, 'gpt': {'total': 2048}, 'mbr': {'total': 2048}, 'iso': {'total': 36864},
              'vmdk': {'desc_num': 4, 'min_total': 4096}}
FLOOD_MARKS = ['\x00BEA01\x01', '\x00BOOT2\x01', '\x00CDW02\x01', '\x01CD001\x01', '\x02CD001\x01', '\xffCD001\x01', '\x00NSR02\x01',
               '\x00NSR03\x01', '\x00TEA01\x01', '\x01CD001', '\x00BEA01', '\x00BOOT2', '\x02CD001', '\x00NSR02', '\x00TEA01', '\xffCD001', 'conectix', 'KDMV', 'QFI\xfb',
               'vhdxfile', 'head', 'regi', 'metadata', 'LUKS\xba\xbe\x00\x01', 'EFI PART', 'QED\x00', '<<< Oracle VM VirtualBox Disk Image >>>\n']


def fieldpair(p):
    """Valid small image of p['fmt'] with field p['a'] := p['va'] and (optionally) field p['b'] := p['vb'], followed by
    p['tail'] bytes of non-zero filler."""
    data, _t = ig.build({'gen': p['fmt'], 'params': FIELD_BASE[p['fmt']]})
    base, endian, _fields = FIELDS[p['fmt']]
    b = bytearray(data)
    for key, vkey in (('a', 'va'), ('b', 'vb')):
        if p.get(key) is None:
            continue
        off, width = p[key]
        v = p[vkey] & ((1 << (8 * width)) - 1)
        b[base + off:base + off + width] = v.to_bytes(width, 'big' if endian == '>' else 'little')
    filler = b'tail filler 0123456789 abcdefghijklmnopqrstuvwxyz\n'
    b += (filler * (p['tail'] // len(filler) + 1))[:p['tail']]
    return bytes(b)


def flood(p):
    """A stream in which every `stride`-byte sector from `start` on begins (at in-sector offset `at`) with one format's
    descriptor / structure magic: whatever an inspector does per recognised structure, it is asked to do it thousands of times."""
    mark = p['mark'].encode('latin-1')
    total, stride, at = p['total'], p['stride'], p['at']
    sector = bytearray(b'x' * stride)
    sector[at:at + len(mark)] = mark
    sector = bytes(sector[:stride])
    body = sector * (total // stride + 1)
    head = b'\0' * p['start'] if p.get('zero_head') else body[:p['start']]
    return (head + body)[:total]


def build(case):
    g = case['gen']
    p = case['params']
    if g == 'fieldpair':
        return fieldpair(p)
    if g == 'flood':
        return flood(p)
    if g == 'hostile_vmdk':
        return hostile_vmdk(p)
    if g == 'hostile_vhdx':
        return hostile_vhdx(p)
    if g == 'text':
        line = p.get('line', 'createType="monolithicSparse"\n' + 'x' * 80 + '\n').encode()
        return (line * (p['total'] // len(line) + 1))[:p['total']]
    if g == 'random':
        return ig._rand_bytes(('c05', p['seed']), 4096) * (p['total'] // 4096)
    data, _t = ig.build({'gen': g, 'params': p})
    return data


def eval_case(ctx, case):
    F = sl.fi()
    data = build(case)
    n = len(data)
    for name in case['inspectors']:
        cls = F.ALL_FORMATS[name]
        bound = BOUND.get(name, DEFAULT_BOUND)
        scheds = list(case['schedules'])
        if n > 2 * MI + 512:
            scheds.append(['first-512-then-2MiB', [512] + list(range(512 + 2 * MI, n, 2 * MI))])
        # how the chunk is handed over is part of "however it is chunked": one bytearray refilled in place, or
        # memoryview slices of one buffer (vlib/streamlab.Carrier), for the schedules with few chunks
        for klass, cuts in list(scheds):
            if len(cuts) <= 64 and (len(cuts) + n) % 2 == 0:
                scheds.append([klass + '+bytearray', cuts, 'bytearray'])
                scheds.append([klass + '+memoryview', cuts, 'memoryview'])
        for sched in scheds:
            klass, cuts = sched[:2]
            carrier = sched[2] if len(sched) > 2 else 'bytes'
            st = {'max': 0, 'bad': None, 'n': 0}

            def cb(insp, pos):
                info = insp.context_info
                tot = sum(info.values())
                st['n'] += 1
                if tot > st['max']:
                    st['max'] = tot
                if tot > bound and not st['bad']:
                    st['bad'] = (pos, tot, dict(info))
            res = sl.feed(cls, data, cuts, monitor=False, per_chunk=cb, carrier=carrier)
            if carrier != 'bytes':
                ctx.clause('bound-under-reused-chunk-buffers')
            insp = res['inspector']
            info = insp.context_info
            final = sum(info.values())
            real = 0
            for rn in info:
                real += len(insp.region(rn).data)
            ctx.case((case['gen'], repr(case['params']), name, klass, tuple(cuts[:50]), len(cuts)), nontrivial=n > bound)
            ctx.clause('bound-after-chunk', st['n'])
            ctx.clause('bound-after-finish')
            ctx.h('inspector x schedule', '%s/%s' % (name, klass.split('-')[0]))
            key = 'max_retained_%s' % name
            ctx.extra[key] = max(ctx.extra.get(key, 0), st['max'], final)
            if name == 'vmdk' and max(st['max'], final) >= 512 + (MI - 1):
                ctx.clause('clamp-reached-vmdk')
            if name == 'vhdx' and max(st['max'], final) >= 32 + 3 * 65536:
                ctx.clause('clamp-reached-vhdx')
            if st['bad']:
                ctx.fail('bound-after-chunk', dict(case, failing=[name, klass, cuts[:20]]),
                         {'inspector': name, 'pos': st['bad'][0], 'retained': st['bad'][1], 'bound': bound,
                          'regions': st['bad'][2]})
            elif final > bound:
                ctx.fail('bound-after-finish', dict(case, failing=[name, klass]),
                         {'inspector': name, 'retained': final, 'bound': bound})
            if real != final:
                ctx.fail('context_info-honest', dict(case, failing=[name, klass]), {'context_info': final, 'real': real})


def evaluate(ctx, case):
    eval_case(ctx, case)


def schedules_for(rng, n, bounds, quick):
    out = [['giant', []], ['fixed-1MiB', sl.fixed(n, MI)], ['fixed-64KiB', sl.fixed(n, 65536)]]
    if rng.random() < 0.6:
        out.append(['fixed-512', sl.fixed(n, 512)])            # what FileInspector.from_file uses
    if not quick or rng.random() < 0.5:
        out.append(['fixed-4KiB', sl.fixed(n, 4096)])
    near = sorted({b + d for b in bounds for d in (-1, 0, 1) if 0 < b + d < n})
    if near:
        out.append(['single-cut', [rng.choice(near)]])
        out.append(['pair-cut', sorted(set(rng.sample(near, min(2, len(near)))))])
        out.append(['window-8', sl.window_cuts(n, rng.sample(bounds, min(len(bounds), 3)), 8, coarse=MI)])
    cuts, pos = [], 0
    while True:
        pos += rng.choice([1, 100, 5000, 70000, 300000, 900000])
        if pos >= n:
            break
        cuts.append(pos)
    out.append(['random-mixed', cuts])
    return out


def run(ctx):
    rng = ctx.rng('hostile')
    idx = 0
    cases = []
    huge = [1, 2047, 2048, 2049, 4096, 1 << 32, 1 << 55, (1 << 64) - 1]
    for desc_num in huge:
        for footer in (False, True):
            cases.append(({'gen': 'hostile_vmdk', 'params': {'desc_num': desc_num, 'footer': footer,
                                                             'total': rng.choice([2, 3, 4]) * MI + rng.randrange(1000)}},
                          ['vmdk'], [512, 512 + MI - 1, 512 + MI]))
    cases.append(({'gen': 'hostile_vmdk', 'params': {'desc_num': (1 << 64) - 1, 'total': 3 * MI, 'nul_at': 700000}},
                  ['vmdk'], [512, 700512, 512 + MI]))
    for k in range(ctx.pick(20, 1500)):
        cases.append(({'gen': 'hostile_vmdk', 'params': {'desc_num': rng.choice(huge + [rng.getrandbits(64), rng.randrange(2048, 1 << 20), rng.randrange(1, 1 << 32), rng.randrange(1, 5000)]),
                                                         'footer': rng.random() < 0.5, 'ver': rng.choice([1, 2, 3]),
                                                         'total': rng.randrange(2 * MI, ctx.pick(4, 6) * MI)}},
                      ['vmdk'], [512, 512 + MI - 1]))
    vh = [dict(with_vds=False), dict(item_len=(1 << 32) - 1), dict(item_len=65536), dict(item_len=65537),
          dict(region_count=2047), dict(region_count=2048), dict(region_count=65535), dict(region_count=(1 << 32) - 1),
          dict(meta_count=2047), dict(meta_count=2048), dict(meta_count=65535), dict(n_pad_meta=2046),
          dict(n_pad_meta=2046, with_vds=False), dict(meta_off=MI, with_vds=False), dict(meta_off=MI, item_len=(1 << 32) - 1),
          dict(item_off=2 * MI, item_len=(1 << 32) - 1, tail=3 * MI)]
    vh += [dict(meta_sig='metadatx'), dict(meta_sig='metadatx', meta_len=65536), dict(meta_sig='\x00etadata', n_pad_meta=100),
           dict(regi=0), dict(meta_count=2048), dict(meta_count=65535, meta_sig='metadatx'),
           # backward pointers: the size item "inside" the entry table, the metadata region inside the headers
           dict(item_off=40, n_pad_meta=3), dict(item_off=64), dict(item_off=0x100, n_pad_meta=100),
           dict(item_off=32, item_len=(1 << 32) - 1), dict(meta_off=200 * 1024, item_off=0x10000)]
    vh += [dict(meta_len=0), dict(meta_len=4096), dict(meta_len=65535, item_off=65536), dict(meta_len=1, item_len=(1 << 32) - 1),
           dict(meta_len=65536, item_off=65544), dict(meta_len=0, item_len=0)]
    for p in vh:
        q = dict(p)
        q.setdefault('tail', rng.choice([2, 3]) * MI)
        mo = q.get('meta_off', 256 * 1024)
        cases.append(({'gen': 'hostile_vhdx', 'params': q}, ['vhdx'],
                      [192 * 1024, 256 * 1024, mo, mo + 32, mo + 65536, mo + q.get('item_off', 0x10000)]))
    for k in range(ctx.pick(20, 1500)):
        q = dict(rng.choice(vh))
        q['tail'] = rng.randrange(2 * MI, ctx.pick(3, 5) * MI)
        q['item_len'] = rng.choice([8, 65536, (1 << 32) - 1, rng.getrandbits(32)])
        q['meta_len'] = rng.choice([(1 << 32) - 1, MI, 0, 4096, 65535, 65536, rng.getrandbits(20)])
        mo = q.get('meta_off', 256 * 1024)
        cases.append(({'gen': 'hostile_vhdx', 'params': q}, ['vhdx'], [256 * 1024, mo + 65536, mo + q.get('item_off', 0x10000)]))
    everyone = [n for n in sl.fi().ALL_FORMATS]
    for total in ([2 * MI + 17, 3 * MI] if ctx.quick else [2 * MI + 17, 3 * MI, 5 * MI + 1, 6 * MI]):
        cases.append(({'gen': 'text', 'params': {'total': total}}, everyone, [64, 512, MI]))
        cases.append(({'gen': 'text', 'params': {'total': total, 'line': 'RW 2048 FLAT "/x" 0\n'}}, ['vmdk'], [4, 64, 512, MI]))
        cases.append(({'gen': 'random', 'params': {'total': total, 'seed': rng.getrandbits(20)}}, everyone, [512, 34816, 256 * 1024]))
    valid = [('qcow2', {'total': 2 * MI}), ('vhd', {'total': 2 * MI}), ('vdi', {'total': 2 * MI}), ('qed', {'total': 2 * MI}),
             ('iso', {'total': 3 * MI}), ('mbr', {'total': 2 * MI}), ('luks', {'total': 3 * MI, 'payload': 8}),
             ('vmdk', {'desc_num': 2048, 'min_total': 3 * MI, 'footer': True}), ('vmdk', {'desc_num': 20, 'min_total': 2 * MI}),
             ('vhdx', {'meta_off': MI, 'tail': 2 * MI, 'n_pad_meta': 2046, 'item_off': 0x10000})]
    for g, p in valid:
        insps = [ig.INSPECTOR_OF[g]] + ([rng.choice(everyone)] if not ctx.quick else [])
        cases.append(({'gen': g, 'params': p}, sorted(set(insps)), [512, 34816, 256 * 1024, MI]))
    # every ordered pair of documented header fields: (offset inside the stream, huge length); plus every field alone
    offs = [512, 520, 4096, 65536, 600000]
    hugev = [(1 << 64) - 1, (1 << 32) - 1, 1 << 31, 3 * MI, (1 << 63)]
    for fmt in sorted(FIELDS):
        base, _e, fields = FIELDS[fmt]
        tail = MI + 300 * 1024
        for fa in fields:
            for v in offs + hugev:
                if ctx.quick and rng.random() < 0.5:
                    continue
                cases.append(({'gen': 'fieldpair', 'params': {'fmt': fmt, 'a': fa, 'va': v, 'tail': tail}},
                              [ig.INSPECTOR_OF[fmt]], [base + fa[0], v if v < tail else 512]))
            for fb in fields:
                if fa == fb:
                    continue
                combos = [(o, h) for o in offs for h in hugev]
                for o, h in (combos if not ctx.quick else rng.sample(combos, 2)):
                    cases.append(({'gen': 'fieldpair', 'params': {'fmt': fmt, 'a': fa, 'va': o, 'b': fb, 'vb': h, 'tail': tail}},
                                  [ig.INSPECTOR_OF[fmt]], [base + fa[0], o, o + 512 * 1024]))
    for mark in FLOOD_MARKS:
        for stride in (512, 2048, 4096, 65536):
            for at in (0, 1):
                if ctx.quick and stride in (4096, 65536) and rng.random() < 0.5:
                    continue
                for start, zero_head in ((0, False), (32768, True), (65536, True)):
                    if ctx.quick and start == 65536:
                        continue
                    cases.append(({'gen': 'flood', 'params': {'mark': mark, 'stride': stride, 'at': at, 'start': start,
                                                              'zero_head': zero_head, 'total': ctx.pick(2, 4) * MI + 77}},
                                  everyone, [start, start + stride]))
    for spec, insps, bounds in cases:
        idx += 1
        seed_for_case = rng.getrandbits(48)
        if not ctx.mine(idx):
            continue
        crng = ctx.rng('case-%d' % seed_for_case)
        data = build(spec)
        if spec['gen'] in ('fieldpair', 'flood'):
            sch = [['giant', []], ['fixed-1MiB', sl.fixed(len(data), MI)], ['fixed-64KiB', sl.fixed(len(data), 65536)]]
            if spec['gen'] == 'flood' or crng.random() < 0.15:
                sch.append(['fixed-512', sl.fixed(len(data), 512)])
            near = [b for b in bounds if 0 < b < len(data)]
            if near:
                sch.append(['single-cut', [crng.choice(near)]])
        else:
            sch = schedules_for(crng, len(data), bounds, ctx.quick)
            if spec['gen'] == 'hostile_vhdx':
                mo = spec['params'].get('meta_off', 256 * 1024)
                for d_ in (crng.choice([1, 31, 32, 33]), crng.choice([1000, 40000, 65535])):
                    if mo + d_ < len(data):
                        sch.append(['cut-inside-metadata-then-giant', [mo + d_]])
                        sch.append(['cut-inside-metadata-then-1MiB', [mo + d_] + list(range(mo + d_ + MI, len(data), MI))])
                small = crng.choice([32, 512, 4096])
                upto = mo + crng.choice([64, 4096, 65536 + 64])
                if upto < len(data):
                    sch.append(['small-chunks-through-metadata-start-then-giant', list(range(small, upto, small)) + [upto]])
        case = dict(spec, inspectors=insps, schedules=sch)
        ctx.sample(spec['gen'], {'gen': spec['gen'], 'params': spec['params'], 'inspectors': insps,
                                 'schedules': [s[0] for s in case['schedules']], 'stream_len': len(data)})
        eval_case(ctx, case)


# a third of the cases runs with the library's loggers at DEBUG and a handler that renders every record (debug=True in a
# service's configuration); what the inspectors conclude may not depend on it
from vlib import envmodes as _envmodes_dbg  # noqa: E402
eval_case = _envmodes_dbg.with_modes(eval_case, debug=lambda case: True)
