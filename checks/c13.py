"""C13 StopWatch obeys its state machine under every call sequence.

History monitor with an executable model: timeutils.now is replaced by a
harness clock that only moves BETWEEN calls (so the number of clock reads
inside a method is not part of the contract).  The real watch and the
sequential model (vlib/models/stopwatch.py) receive the same call at the same
clock reading; every call is monitored.  Bounded-exhaustive part: depth-first
search that copies watch and model at every node, so every sequence over the
12-symbol alphabet up to the depth bound is executed and monitored once.
"""
import copy

from vlib.models.stopwatch import (
    WatchModel, OPS, STATES, NEW, STARTED, STOPPED, ILLEGAL, SELF, FALSY,
    START, STOP, RESUME, RESTART, SPLIT, ELAPSED, ELAPSED_MAX, LEFTOVER, LEFTOVER_NONE,
    EXPIRED, ENTER, EXIT)

PROPERTY = 'C13'
LEVEL = 'exploration'
ANCHORS = [('oslo_utils.timeutils', 'StopWatch.' + n) for n in (
    'start', 'stop', 'resume', 'restart', 'split', 'splits', 'elapsed', '_delta_seconds',
    'leftover', 'expired', '__enter__', '__exit__')]
RULE = ('depth-first enumeration of ALL call sequences over the 12-symbol alphabet (start, stop, resume, '
        'restart, split, elapsed, elapsed(maximum), leftover, leftover(return_none=True), expired, '
        '__enter__, __exit__) up to length 5 (quick) / 6 (thorough) x durations {None, 0, 2 tiny steps, '
        '2 large steps} x constant clock steps {0, 2^-20, 2^20} (+ a clock that jumps backwards, for the '
        'non-negativity and illegal-call clauses only); then seeded random sequences of length <= 200 with '
        'per-call steps from a dyadic pool. Every node of the search tree is one monitored sequence '
        '(evaluations); to keep the digest set small a digest is recorded for every sequence of length <= 4 '
        'x configuration (it stands for all its enumerated extensions) and for every random sequence. '
        'non-trivial = the watch has left the new state at that point')
_PAIRS = ['visit %s/%s' % (s, o) for s in STATES for o in OPS]
REQUIRED_CLAUSES = ['clock-replaced-mid-history', 
    'outcome-equals-model', 'illegal-call-raises-RuntimeError', 'illegal-call-leaves-watch-unchanged',
    'elapsed-nonnegative', 'elapsed-nonnegative-backwards-clock', 'elapsed-le-maximum',
    'elapsed-is-distance-from-last-restart-while-running', 'elapsed-is-distance-to-stop-instant-while-stopped',
    'under-warnings-as-errors', 'clock-replaced-after-construction', 'watch-copied-mid-history', 'two-watches-interleaved', 'decimal-readings-consistency', 'leftover-is-max0-duration-minus-elapsed', 'leftover-nonnegative-backwards-clock',
    'leftover-without-duration', 'expired-iff-elapsed-exceeds-duration', 'expired-false-without-duration',
    'observable-state-equals-model', 'splits-nondecreasing-lengths-are-differences',
    'splits-cleared-by-restart', 'illegal-call-raises-RuntimeError-backwards-clock',
    'with-statement-propagates-and-stops'] + _PAIRS
ASSUMPTIONS = [
    'timeutils.now is the only clock StopWatch reads; it is replaced by a harness clock that is constant '
    'during a call',
    'all clock readings, durations and maxima are dyadic rationals well inside 53 bits, so every sum and '
    'difference is exact and values are compared with ==',
    'start/stop/resume/restart/__enter__ hand back the watch itself, __exit__ returns a false value, '
    'split() returns the captured split (long-standing fluent API; the docstrings do not spell it out)',
    'DONT-CARE (either outcome accepted, watch must be unchanged where RuntimeError is raised): stop() on a '
    'stopped watch may raise instead of being a no-op; restart() on a new watch may raise instead of '
    'starting; leftover() on a stopped watch may return the formula value instead of raising; '
    'leftover(return_none=True)/expired() on a new watch without duration may return None/False; '
    'elapsed(maximum < 0); split values under a backwards clock',
]
INTERPRETER_FLAGS = [[], ['-O'], ['-X', 'dev'], ['-bb']]
SHARDS = {'quick': 4, 'thorough': 16}

TINY, LARGE = 2.0 ** -20, 2.0 ** 20
T0 = 1024.0
DURATIONS = [None, 0.0, 2 * TINY, 2 * LARGE]
STEPS = [0.0, TINY, LARGE]
BACK_UNIT = 0.5
POOL = [0.0, TINY, 2.0 ** -10, 0.25, 0.5, 1.0, 1.5, 3.0, 7.0, 64.0, LARGE]
MAY_RAISE = {(STOPPED, STOP), (NEW, RESTART)}           # DONT-CARE: RuntimeError or the documented effect
NUMERIC = (ELAPSED, ELAPSED_MAX, LEFTOVER, LEFTOVER_NONE)
MAX_DETAILED_FAILS = 3


class Boom(Exception):
    pass


_CLOCKS = []


def _clock_by_index(i):
    return _CLOCKS[i]


class CellClock:
    """A replaceable clock function reading one cell.  It survives pickling and deepcopy as the SAME object (a watch that
    wrongly keeps a reference to the clock it saw first can then still travel, and shows its stale reading)."""
    def __init__(self, cell):
        self.cell = cell
        self.index = len(_CLOCKS)
        _CLOCKS.append(self)

    def __call__(self):
        return self.cell[0]

    def __reduce__(self):
        return (_clock_by_index, (self.index,))

    def __deepcopy__(self, memo):
        return self


class Kit:
    """Per-worker harness state: clock cell, method table, counters, current path."""

    def __init__(self, ctx):
        from oslo_utils import timeutils
        self.ctx = ctx
        self.tu = timeutils
        self.SW = SW = timeutils.StopWatch
        self.cell = cell = [T0]
        self.saved_now = timeutils.now
        timeutils.now = CellClock(cell)
        self.F = [SW.start, SW.stop, SW.resume, SW.restart, SW.split, SW.elapsed, None, SW.leftover,
                  None, SW.expired, SW.__enter__, None]
        self.visit_mono = [0] * 36
        self.visit_back = [0] * 36
        self.cnt = {}
        self.nfail = {}
        self.path = [0] * 200
        self.depth = 0
        self.exit_args = (None, None, None)
        self.kw = True

    def swap_clock(self):
        """Replace the module-level clock by a NEW function object reading a new cell; the function that was installed
        until now keeps answering, but with a reading far in the past (a watch must look the clock up when it needs it)."""
        old, new = self.cell, [self.cell[0]]
        self.cell = new
        self.tu.now = CellClock(new)
        old[0] = -1.0e9

    def configure(self, duration, times, maximum, mono):
        self.duration, self.T, self.maximum, self.mono = duration, times, maximum, mono
        self.visit = self.visit_mono if mono else self.visit_back

    def close(self):
        self.tu.now = self.saved_now

    def bump(self, name, n=1):
        self.cnt[name] = self.cnt.get(name, 0) + n

    def case_dict(self):
        T = self.T
        n = self.depth
        return {'sequence': [OPS[o] for o in self.path[:n]], 'duration': self.duration,
                'steps': [T[i + 1] - T[i] for i in range(n)], 't0': T[0], 'maximum': self.maximum,
                'exit_with_exception': self.exit_args[0] is not None, 'keywords': self.kw}

    def report(self, clause, **detail):
        self.nfail[clause] = self.nfail.get(clause, 0) + 1
        if self.nfail[clause] > MAX_DETAILED_FAILS:      # the framework keeps the first 3 per clause
            self.ctx.fail(clause, None, None)
            return
        detail['call_index'] = self.depth - 1
        detail['call'] = OPS[self.path[self.depth - 1]]
        detail['clock'] = self.cell[0]
        self.ctx.fail(clause, self.case_dict(), detail)

    def flush(self):
        ctx = self.ctx
        for mono, visit in ((True, self.visit_mono), (False, self.visit_back)):
            for i, n in enumerate(visit):
                if not n:
                    continue
                s, op = divmod(i, 12)
                ctx.h('state x operation' if mono else 'state x operation (backwards clock)',
                      '%s/%s' % (STATES[s], OPS[op]), n)
                if mono:
                    ctx.clause(_PAIRS[i], n)
                illegal = model_verdict(s, op)
                if illegal is True:
                    ctx.clause('illegal-call-raises-RuntimeError' if mono
                               else 'illegal-call-raises-RuntimeError-backwards-clock', n)
                    ctx.clause('illegal-call-leaves-watch-unchanged', n)
                    ctx.h('outcomes', 'RuntimeError', n)
                elif illegal is False:
                    if mono:
                        ctx.clause('outcome-equals-model', n)
                        if op == ELAPSED:
                            ctx.clause('elapsed-is-distance-from-last-restart-while-running' if s == STARTED
                                       else 'elapsed-is-distance-to-stop-instant-while-stopped', n)
                            ctx.clause('elapsed-nonnegative', n)
                        elif op == ELAPSED_MAX:
                            ctx.clause('elapsed-le-maximum', n)
                            ctx.clause('elapsed-nonnegative', n)
                    else:
                        ctx.clause('legal-call-does-not-raise-backwards-clock', n)
                        if op in (ELAPSED, ELAPSED_MAX):
                            ctx.clause('elapsed-nonnegative-backwards-clock', n)
                    if op in (START, STOP, RESUME, RESTART, ENTER):
                        ctx.h('outcomes', 'the watch itself', n)
                    elif op == EXIT:
                        ctx.h('outcomes', '__exit__ false value', n)
                    elif op == SPLIT:
                        ctx.h('outcomes', 'Split', n)
                if mono:
                    ctx.clause('observable-state-equals-model', n)
        for name, n in self.cnt.items():
            if name.startswith('outcome:'):
                ctx.h('outcomes', name[8:], n)
            else:
                ctx.clause(name, n)
        self.visit_mono[:] = [0] * 36
        self.visit_back[:] = [0] * 36
        self.cnt.clear()


def model_verdict(state, op):
    """Model's verdict for (state, op): True illegal, False legal, None depends on the duration
    (leftover while running; counted per call)."""
    if op in (LEFTOVER, LEFTOVER_NONE) and state == STARTED:
        return None
    probe = WatchModel(1.0)
    if state != NEW:
        probe.apply(START, 0.0)
    if state == STOPPED:
        probe.apply(STOP, 0.0)
    return probe.apply(op, 0.0, 1.0) is ILLEGAL


def observe(K, w):
    """The observable state the property speaks of (a pure probe at the current clock)."""
    try:
        try:
            e = K.SW.elapsed(w)
        except RuntimeError:
            e = ILLEGAL
        return (w.has_started(), w.has_stopped(), [(s.elapsed, s.length) for s in w.splits], e)
    except BaseException as ex:  # noqa
        return ('probe raised', repr(ex))


def tolerated_value(s0, op, m, t, got):
    """Model says RuntimeError, the watch returned `got`: is that inside a DONT-CARE zone?"""
    if s0 == STOPPED and op in (LEFTOVER, LEFTOVER_NONE):
        if m.duration is None:
            return op == LEFTOVER_NONE and got is None
        return got == max(0.0, m.duration - (m.stopped_at - m.started_at))
    # (a watch that has not been started: leftover/expired are illegal whatever the arguments - the statement's
    # "every call that is illegal in the current state raises RuntimeError"; no tolerance here)
    return False


def call_and_check(K, w, m, op, t):
    """One call at clock reading t on the real watch `w` and the model `m`, all monitors."""
    try:
        _call_and_check(K, w, m, op, t)
    except (TypeError, AttributeError) as e:   # a return value the monitors cannot even compare
        K.report('outcome-of-unexpected-type', exc=e)


def _call_and_check(K, w, m, op, t):
    mono = K.mono
    s0 = m.state
    K.visit[s0 * 12 + op] += 1
    p_started, p_stopped, p_splits = m.started_at, m.stopped_at, m.splits
    exp = m.apply(op, t, K.maximum)
    K.cell[0] = t
    pre = observe(K, w) if exp is ILLEGAL else None
    try:
        if op == ELAPSED_MAX:
            got = K.SW.elapsed(w, maximum=K.maximum) if K.kw else K.SW.elapsed(w, K.maximum)
        elif op == LEFTOVER_NONE:
            got = K.SW.leftover(w, return_none=True) if K.kw else K.SW.leftover(w, True)
        elif op == EXIT:
            got = K.SW.__exit__(w, *K.exit_args)
        else:
            got = K.F[op](w)
    except RuntimeError:
        got = ILLEGAL
    except BaseException as e:  # noqa
        K.report('unexpected-exception', state_before=STATES[s0], exc=e)
        return

    if exp is ILLEGAL:
        if got is not ILLEGAL:
            if tolerated_value(s0, op, m, t, got):
                K.bump('dont-care-zone')
            else:
                K.report('illegal-call-must-raise-RuntimeError', state_before=STATES[s0], got=got)
        post = observe(K, w)
        if post != pre:
            K.report('illegal-call-must-leave-watch-unchanged', state_before=STATES[s0],
                     before=pre, after=post)
        if op in (LEFTOVER, LEFTOVER_NONE) and s0 == STARTED:
            K.bump('illegal-call-raises-RuntimeError' if mono
                   else 'illegal-call-raises-RuntimeError-backwards-clock')
            K.bump('illegal-call-leaves-watch-unchanged')
            K.bump('leftover-without-duration')
            K.bump('outcome:RuntimeError')
    elif got is ILLEGAL:
        if (s0, op) in MAY_RAISE:
            K.bump('dont-care-zone')
            m.state, m.started_at, m.stopped_at, m.splits = s0, p_started, p_stopped, p_splits
        else:
            K.report('legal-call-raised-RuntimeError', state_before=STATES[s0], expected=exp)
            return
    elif not mono:
        # backwards clock: only non-negativity (and the illegal-call clauses above)
        if op in NUMERIC and got is not None:
            if op >= LEFTOVER:
                K.bump('leftover-nonnegative-backwards-clock')
            if not got >= 0:
                K.report('elapsed-must-not-be-negative' if op < LEFTOVER else 'leftover-must-not-be-negative',
                         state_before=STATES[s0], got=got)
            elif op == ELAPSED_MAX and not got <= K.maximum:
                K.report('elapsed-must-not-exceed-maximum', got=got, maximum=K.maximum)
            elif op >= LEFTOVER and m.duration is not None and not got <= m.duration:
                # leftover = max(0, duration - elapsed) with elapsed >= 0: never more than the duration
                K.report('leftover-must-not-exceed-duration', state_before=STATES[s0], got=got,
                         duration=m.duration)
        elif op == SPLIT:
            try:
                if not got.elapsed >= 0:
                    K.report('elapsed-must-not-be-negative', split=(got.elapsed, got.length))
            except AttributeError:
                K.report('split-return-value', got=got)
    else:
        if exp is SELF:
            ok = got is w
        elif exp is FALSY:
            ok = not got
        elif op == SPLIT:
            try:
                ok = (got.elapsed, got.length) == exp
            except AttributeError:
                ok = False
        elif exp is None:
            ok = got is None
            K.bump('outcome-equals-model')
            K.bump('leftover-without-duration')
            K.bump('outcome:None')
        else:
            ok = got == exp and got is not None
            if op == EXPIRED:
                if m.duration is None:
                    K.bump('expired-false-without-duration')
                else:
                    K.bump('expired-iff-elapsed-exceeds-duration')
                K.bump('outcome:expired True' if exp else 'outcome:expired False')
            elif op == ELAPSED:
                if ok and not got >= 0:
                    ok = False
                K.bump('outcome:elapsed > 0' if exp else 'outcome:elapsed == 0')
            elif op == ELAPSED_MAX:
                if ok and not 0 <= got <= K.maximum:
                    ok = False
                K.bump('outcome:elapsed(maximum) clamped' if exp == K.maximum
                       else 'outcome:elapsed(maximum) below maximum')
            else:
                K.bump('outcome-equals-model')
                K.bump('leftover-is-max0-duration-minus-elapsed')
                K.bump('outcome:leftover > 0' if exp else 'outcome:leftover == 0')
        if not ok:
            if op in (ELAPSED, ELAPSED_MAX) and exp is not None and got is not None and \
                    not isinstance(got, bool) and isinstance(got, (int, float)):
                if got < 0:
                    clause = 'elapsed-must-not-be-negative'
                elif op == ELAPSED_MAX and got > K.maximum:
                    clause = 'elapsed-must-not-exceed-maximum'
                else:
                    clause = ('elapsed-must-equal-distance-from-last-restart' if s0 == STARTED
                              else 'elapsed-must-equal-distance-to-stop-instant')
            else:
                clause = {SPLIT: 'split-value', LEFTOVER: 'leftover-formula', LEFTOVER_NONE: 'leftover-formula',
                          EXPIRED: 'expired-iff-elapsed-exceeds-duration',
                          EXIT: '__exit__-must-return-false-value'}.get(op, 'fluent-call-returns-the-watch')
            K.report(clause, state_before=STATES[s0], got=got, expected=exp)
    if not mono:
        return
    # observable state == model's after EVERY call (monotonic clocks)
    try:
        hs, hp, sp = w.has_started(), w.has_stopped(), w.splits
        if hs != (m.state == STARTED) or hp != (m.state == STOPPED):
            K.report('observable-state-flags', state_before=STATES[s0], has_started=hs, has_stopped=hp,
                     model_state=STATES[m.state])
        n = len(sp)
        if n != len(m.splits):
            K.report('splits-must-be-cleared-by-restart' if (p_splits and not m.splits) else 'splits-count',
                     state_before=STATES[s0], splits=[(s.elapsed, s.length) for s in sp],
                     model_splits=m.splits)
        elif p_splits and not m.splits:
            K.bump('splits-cleared-by-restart')
        elif op == SPLIT and exp is not ILLEGAL:
            K.bump('splits-nondecreasing-lengths-are-differences')
            vals = [(s.elapsed, s.length) for s in sp]
            last = vals[-1]
            prev_e = vals[-2][0] if n > 1 else 0.0
            if not (last[0] >= prev_e and last[1] == last[0] - prev_e) or tuple(vals) != m.splits:
                K.report('splits-nondecreasing-lengths-are-differences', splits=vals, model_splits=m.splits)
    except BaseException as e:  # noqa
        K.report('unexpected-exception-observing-state', exc=e)


# ----------------------------------------------------------------------
# one self-contained case (also the replay entry)
# ----------------------------------------------------------------------
def _evaluate(K, case):
    if case.get('warnings_as_errors'):
        # the process turns warnings into errors (python -W error): a watch that warns about a clock anomaly no longer answers
        from vlib import envmodes
        K.bump('under-warnings-as-errors')
        with envmodes.warnings_as_errors():
            return _evaluate_inner(K, case)
    return _evaluate_inner(K, case)


def _evaluate_inner(K, case):
    ctx = K.ctx
    if case.get('kind') == 'with':
        return _evaluate_with(K, case)
    if case.get('kind') == 'decimal':
        return _evaluate_decimal(K, case)
    seq = [OPS.index(name) for name in case['sequence']]
    steps = case['steps']
    duration = case['duration']
    times = [case.get('t0', T0)]
    for s in steps:
        times.append(times[-1] + s)
    mono = all(s >= 0 for s in steps)
    K.configure(duration, times, case.get('maximum', 1.0), mono)
    K.exit_args = (None, None, None)
    if case.get('exit_with_exception'):
        e = Boom('body failed')
        K.exit_args = (Boom, e, None)
    K.kw = case.get('keywords', True)
    K.cell[0] = times[0]
    K.depth = 0
    try:
        w = K.SW(duration) if duration is None or not K.kw else K.SW(duration=duration)
    except BaseException as e:  # noqa
        ctx.fail('constructor-raised', case, {'exc': e})
        return
    if case.get('swap_clock'):
        K.swap_clock()
        K.bump('clock-replaced-after-construction')
    m = WatchModel(duration)
    if len(seq) > len(K.path):
        K.path = [0] * len(seq)
    path = K.path
    left_new = False
    second = case.get('second')
    if second:
        # a second watch alive at the same time, with its own duration and its own call sequence interleaved call by
        # call: each watch obeys its own model (nothing is shared between instances)
        w2, m2 = K.SW(second['duration']), WatchModel(second['duration'])
        seq2 = [OPS.index(name) for name in second['sequence']]
        K.bump('two-watches-interleaved')
    for i, op in enumerate(seq):
        if case.get('swap_at') == i:
            # the module-level clock is replaced (re-assigned, mock.patch'ed) in the middle of the watch's history
            K.swap_clock()
            K.bump('clock-replaced-mid-history')
        if case.get('copy_at') == i:
            # the watch travels (pickle round trip / deepcopy) in the middle of its history and the copy is used from
            # here on: same state, same answers
            import copy
            import pickle
            w = pickle.loads(pickle.dumps(w)) if case.get('copy_how') == 'pickle' else copy.deepcopy(w)
            K.bump('watch-copied-mid-history')
        path[i] = op
        K.depth = i + 1
        call_and_check(K, w, m, op, times[i + 1])
        left_new = left_new or m.state != NEW
        if second and i < len(seq2):
            path[i] = seq2[i]
            call_and_check(K, w2, m2, seq2[i], times[i + 1])
            path[i] = op
    ctx.case((tuple(seq), duration, tuple(steps), times[0], K.maximum, K.exit_args[0] is not None, K.kw,
              repr(second) if second else None, bool(case.get('swap_clock')), case.get('swap_at'), case.get('copy_at'), case.get('copy_how')),
             nontrivial=left_new)
    K.exit_args = (None, None, None)
    K.kw = True


def _evaluate_decimal(K, case):
    """Decimal (non-dyadic) clock readings and durations.  The model's exact arithmetic does not apply, so the oracle is
    the statement's own definitions evaluated on what the watch reports at ONE clock reading: expired() == (elapsed() >
    duration) and leftover() == max(0, duration - elapsed()); elapsed itself is the float difference reading - start
    (one subtraction of two doubles, the only correctly rounded answer) while running and stop - start when stopped."""
    ctx = K.ctx
    t0, gaps, duration, stop_at = case['t0'], case['gaps'], case['duration'], case.get('stop_at')
    ctx.case(('decimal', t0, tuple(gaps), duration, stop_at))
    K.cell[0] = t0
    try:
        w = K.SW(duration)
        w.start()
        t = t0
        stopped = None
        for i, g in enumerate(gaps):
            t = t + g
            K.cell[0] = t
            if stop_at == i:
                w.stop()
                stopped = t
            e, x = w.elapsed(), w.expired()
            l = w.leftover() if stopped is None else max(0.0, duration - e)      # leftover is legal only while running
            want_e = (stopped if stopped is not None else t) - t0
            K.bump('decimal-readings-consistency')
            if e != want_e or x is not (e > duration) or l != max(0.0, duration - e):
                ctx.fail('decimal-readings-consistency', case,
                         {'reading': t, 'start': t0, 'stopped_at': stopped, 'elapsed': e, 'elapsed_want': want_e,
                          'duration': duration, 'expired': x, 'expired_want': e > duration,
                          'leftover': l, 'leftover_want': max(0.0, duration - e)})
                return
    except BaseException as ex:  # noqa
        ctx.fail('decimal-readings-consistency', case, {'exc': ex})


def _evaluate_with(K, case):
    """The context-manager protocol through a real with statement."""
    ctx = K.ctx
    steps, duration, body = case['steps'], case['duration'], case['body']
    K.cell[0] = T0 + steps[0]
    K.bump('with-statement-propagates-and-stops')
    ctx.case(('with', body, duration, tuple(steps)))
    propagated = target = watch = None
    try:
        watch = K.SW(duration)
        try:
            with watch as target:
                running = watch.has_started()
                K.cell[0] += steps[1]
                if body == 'raise':
                    raise Boom('body failed')
        except Boom:
            propagated = True
        K.cell[0] += steps[2]
        got = (target is watch, running, watch.has_stopped(), watch.elapsed(), bool(propagated))
    except BaseException as e:  # noqa
        ctx.fail('with-statement', case, {'exc': e})
        return
    want = (True, True, True, max(0.0, steps[1]), body == 'raise')
    if steps[1] < 0:
        got, want = got[:3] + (got[3] >= 0,) + got[4:], want[:3] + (True,) + want[4:]
    if got != want:
        ctx.fail('with-statement', case, {'got (target is watch, running inside, stopped after, elapsed, '
                                          'body exception propagated)': got, 'want': want})


def evaluate(ctx, case):
    K = Kit(ctx)
    try:
        _evaluate(K, case)
    finally:
        K.flush()
        K.close()


# ----------------------------------------------------------------------
# bounded-exhaustive search
# ----------------------------------------------------------------------
def dfs(K, w, m, depth, maxdepth, cfg, digest_depth, clone):
    """w, m: watch and model after K.path[:depth]; tries every one-call extension."""
    d1 = depth + 1
    t = K.T[d1]
    path = K.path
    ctx = K.ctx
    more = d1 < maxdepth
    for op in range(12):
        w2 = clone(w)
        m2 = m.copy()
        path[depth] = op
        K.depth = d1
        call_and_check(K, w2, m2, op, t)
        if d1 <= digest_depth:
            ctx.case(bytes([cfg] + path[:d1]), nontrivial=m2.state != NEW)
        if more:
            dfs(K, w2, m2, d1, maxdepth, cfg, digest_depth, clone)


def make_clone(SW):
    """copy.copy(watch), or an equivalent shallow copy without the __reduce_ex__ detour when the
    class is a plain __dict__ class (checked once against copy.copy on a used watch)."""
    new = object.__new__

    def fast(w):
        c = new(SW)
        c.__dict__.update(w.__dict__)
        return c
    try:
        w = SW(1.0)
        w.start()
        w.split()
        a, b = fast(w), copy.copy(w)
        if (type(a) is type(b) is SW and vars(a) == vars(b) and not hasattr(SW, '__copy__') and
                not hasattr(SW, '__slots__') and SW.__reduce_ex__ is object.__reduce_ex__):
            return fast
    except BaseException:  # noqa
        pass
    return copy.copy


def configurations(maxdepth):
    """(name, duration, clock readings per depth, maximum, monotonic)"""
    out = []
    for di, d in enumerate(DURATIONS):
        for si, s in enumerate(STEPS):
            out.append(('duration=%r step=%r' % (d, s), d, [T0 + k * s for k in range(maxdepth + 1)],
                        1.5 * s, True))
    for d in DURATIONS:
        # ... T0-1u, T0+2u, T0-3u, T0+4u ...: later readings both above and below earlier ones
        out.append(('duration=%r backwards' % (d,), d,
                    [T0 + (k if k % 2 == 0 else -k) * BACK_UNIT for k in range(maxdepth + 1)],
                    BACK_UNIT, False))
    return out


def exhaustive(K, maxdepth, back_depth):
    ctx = K.ctx
    clone = make_clone(K.SW)
    ctx.h('watch copied with', 'copy.copy' if clone is copy.copy else 'shallow __dict__ copy (== copy.copy)')
    digest_depth = 4
    unit = 0
    deep = 0
    for cfg, (name, duration, times, maximum, mono) in enumerate(configurations(maxdepth)):
        K.configure(duration, times, maximum, mono)
        depth_here = maxdepth if mono else back_depth
        before = sum(K.visit)
        for a in range(12):
            w1 = m1 = None
            for b in range(12):
                unit += 1
                if not ctx.mine(unit):
                    continue
                if w1 is None:
                    K.cell[0] = times[0]
                    w1, m1 = K.SW(duration), WatchModel(duration)
                    K.path[0] = a
                    K.depth = 1
                    call_and_check(K, w1, m1, a, times[1])
                    ctx.case(bytes([cfg, a]), nontrivial=m1.state != NEW)
                w2, m2 = clone(w1), m1.copy()
                K.path[0], K.path[1] = a, b
                K.depth = 2
                call_and_check(K, w2, m2, b, times[2])
                ctx.case(bytes([cfg, a, b]), nontrivial=m2.state != NEW)
                if depth_here > 2:
                    dfs(K, w2, m2, 2, depth_here, cfg, digest_depth, clone)
        nodes = sum(K.visit) - before
        ctx.h('search-tree nodes per configuration', name, nodes)
    total = sum(K.visit_mono) + sum(K.visit_back)
    # nodes deeper than digest_depth were monitored but carry no digest of their own
    ctx.case(b'', nontrivial=False, n=max(0, total - ctx.evaluations))
    ctx.exhaustive['all call sequences over the 12-symbol alphabet up to length %d x 4 durations x 3 '
                   'constant clock steps' % maxdepth] = True
    ctx.exhaustive['all call sequences up to length %d x 4 durations under the backwards-jumping clock '
                   '(non-negativity and illegal-call clauses)' % back_depth] = True
    ctx.extra['exhaustive depth'] = maxdepth


# ----------------------------------------------------------------------
# directed + random sequences
# ----------------------------------------------------------------------
DIRECTED = [
    # (sequence, duration, steps)
    (['start', 'stop', 'resume', 'elapsed', 'split', 'stop', 'elapsed', 'restart', 'elapsed'], None, 1.0),
    (['start', 'split', 'split', 'stop', 'resume', 'split', 'stop', 'restart', 'split'], 3.0, 0.5),
    (['start', 'stop', 'stop', 'elapsed', 'stop', 'elapsed'], 1.0, 1.0),
    (['start', 'start', 'elapsed', '__enter__', 'elapsed', 'split', 'start', 'split'], 1.0, 1.0),
    (['__enter__', 'split', '__exit__', 'split', 'elapsed', '__exit__', 'elapsed'], None, 0.25),
    (['__exit__', 'stop', 'resume', 'split', 'elapsed', 'elapsed_max', 'leftover', 'leftover_none',
      'expired', 'restart', 'leftover', 'leftover_none', 'expired'], None, 1.0),
    (['start', 'leftover', 'expired', 'leftover', 'expired', 'leftover', 'expired', 'stop', 'expired',
      'leftover', 'resume', 'leftover', 'expired'], 2.0, 1.0),
    (['start', 'elapsed_max', 'elapsed_max', 'elapsed_max', 'stop', 'elapsed_max', 'resume',
      'elapsed_max'], 0.0, 0.5),
]


def random_case(rng, backwards):
    n = rng.choice([rng.randint(1, 12), rng.randint(13, 60), rng.randint(61, 200), 200])
    profile = rng.randrange(4)
    if profile == 0:
        weights = [1] * 12
    elif profile == 1:    # long runs with many splits
        weights = [1, 1, 2, 1, 8, 2, 2, 2, 1, 2, 1, 1]
    elif profile == 2:    # stop/resume heavy
        weights = [2, 5, 6, 1, 3, 3, 2, 2, 1, 2, 1, 2]
    else:                 # queries on a mostly running watch
        weights = [3, 1, 1, 1, 2, 5, 5, 5, 3, 5, 1, 1]
    seq = rng.choices(range(12), weights=weights, k=n)
    if rng.random() < 0.7:      # do not spend the whole sequence in the new state
        seq[0] = rng.choice([START, ENTER, RESTART])
    pat = rng.randrange(5)
    if pat < 3:
        steps = [[0.0, TINY, LARGE][pat]] * n
    elif pat == 3:
        steps = [rng.choice(POOL) for _ in range(n)]
    else:                 # bursts: long pauses between groups of instantaneous calls
        steps = [rng.choice(POOL) if rng.random() < 0.3 else 0.0 for _ in range(n)]
    if backwards:
        steps = [-s if rng.random() < 0.35 else s for s in steps]
        if all(s >= 0 for s in steps):
            steps[rng.randrange(n)] = -1.0
    k = rng.randrange(6)
    if k == 0:
        duration = None
    elif k == 1:
        duration = 0.0
    elif k == 2:
        duration = rng.choice(POOL)
    else:                 # a value some elapsed reading can hit exactly
        i = rng.randrange(n)
        j = rng.randrange(i, n)
        duration = abs(sum(steps[i:j + 1]))
    maximum = rng.choice(POOL + [abs(sum(steps[:rng.randrange(n) + 1]))])
    return {'sequence': [OPS[o] for o in seq], 'duration': duration, 'steps': steps,
            't0': rng.choice([0.0, T0, -4096.0]), 'maximum': maximum,
            'exit_with_exception': rng.random() < 0.3, 'keywords': rng.random() < 0.5}


def run(ctx):
    K = Kit(ctx)
    try:
        maxdepth = ctx.pick(5, 7)
        exhaustive(K, maxdepth, back_depth=ctx.pick(4, 6))
        idx = 0
        for seq, duration, step in DIRECTED:
            for st in (step, 0.0, TINY):
                idx += 1
                if ctx.mine(idx):
                    case = {'sequence': seq, 'duration': duration, 'steps': [st] * len(seq),
                            'maximum': 1.5 * st}
                    ctx.sample('directed', case)
                    _evaluate(K, case)
        for body in ('pass', 'raise'):
            for duration in DURATIONS:
                for steps in ([0.0, 0.0, 0.0], [1.0, 2.0, 4.0], [TINY, LARGE, TINY], [1.0, -2.0, 0.5]):
                    idx += 1
                    if ctx.mine(idx):
                        case = {'kind': 'with', 'body': body, 'duration': duration, 'steps': steps}
                        ctx.sample('with-statement', case)
                        _evaluate(K, case)
        # decimal readings: the duration sits on, or one ulp beside, a value elapsed() actually takes
        import math
        drng = ctx.rng('decimal')
        for i in range(ctx.pick(3000, 300000)):
            idx += 1
            t0 = drng.choice([0.0, 0.1, 0.2, 0.7, 1.1, 1e9 + 0.1, round(drng.uniform(0, 1000), drng.choice([1, 2, 3]))])
            gaps = [drng.choice([0.1, 0.2, 0.3, 0.7, 1.1, 0.01, round(drng.uniform(0, 10), drng.choice([1, 2]))])
                    for _ in range(drng.randrange(1, 5))]
            if i % 7 == 3:
                # an integer tick clock far above 2**53 (nanoseconds after months of uptime): distances are exact integers
                t0 = drng.choice([2 ** 53 + 1, 2 ** 60 + 7, 10 ** 18 + 3])
                gaps = [drng.choice([1, 2, 3, 7, 1000]) for _ in gaps]
            t, seen = t0, []
            for g in gaps:
                t = t + g
                seen.append(t - t0)
            base = drng.choice(seen)
            duration = drng.choice([base, math.nextafter(base, math.inf), math.nextafter(base, 0.0),
                                    round(base, 1), round(base, 2), sum(gaps[:drng.randrange(1, len(gaps) + 1)])])
            if not (duration >= 0):
                duration = 0.0
            case = {'kind': 'decimal', 't0': t0, 'gaps': gaps, 'duration': duration,
                    'stop_at': drng.choice([None, None, drng.randrange(len(gaps))])}
            if ctx.mine(idx):
                if i % 100 == 0:
                    ctx.sample('decimal-readings', case)
                _evaluate(K, case)
        n_mono, n_back = ctx.pick((2500, 600), (1000000, 250000))
        for i in range(n_mono + n_back):
            idx += 1
            if ctx.mine(idx):
                # one stream per sequence: a worker generates only its own sequences
                crng = ctx.rng('random-sequence-%d' % i)
                case = random_case(crng, backwards=i >= n_mono)
                if i % 3 == 1:
                    case['swap_clock'] = True
                if i % 3 == 2 and len(case['steps']) >= 2:
                    case['swap_at'] = crng.randrange(1, len(case['steps']))
                if i % 4 == 2:
                    case['warnings_as_errors'] = True
                if i % 5 == 2 and len(case['steps']) >= 2:
                    case['copy_at'] = crng.randrange(1, len(case['steps']))
                    case['copy_how'] = crng.choice(['pickle', 'deepcopy'])
                if i % 4 == 0 and i < n_mono and len(case['steps']) <= 60:
                    other = random_case(crng, backwards=False)
                    case['second'] = {'duration': other['duration'],
                                      'sequence': other['sequence'][:len(case['sequence'])]}
                if len(case['steps']) <= 16:
                    ctx.sample('random-backwards' if i >= n_mono else 'random', case)
                ctx.h('random sequence length', '%3d-%3d' % (len(case['steps']) // 50 * 50,
                                                             len(case['steps']) // 50 * 50 + 49))
                _evaluate(K, case)
    finally:
        K.flush()
        K.close()


LEVEL_TEXT = ('Exploration with a bounded-exhaustive part: every call sequence over the full 12-symbol method '
              'alphabet up to length 5 (quick) / 6 (thorough) x 4 durations x 3 constant clock steps is executed '
              'against the real class and an independent sequential model, every call monitored; longer '
              'sequences (<= 200 calls, varying steps, backwards clocks) are sampled.')
LEVEL_NOTE = ('Trusted: the 40-line model in vlib/models/stopwatch.py (written from the statement and the '
              'docstrings) and exact dyadic arithmetic. The clock is constant during a call, so behaviour that '
              'depends on several clock reads inside one method is not observed. Backwards clocks are used for '
              'the non-negativity and illegal-call clauses only. Sequences longer than the depth bound are '
              'sampled, not enumerated.')
TECHNIQUE = 'history monitor with an executable sequential model; bounded-exhaustive DFS with state copying'
