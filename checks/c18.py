"""C18 the spec matcher implements its documented operator table.

Reference-model monitor: the generator chooses the operator and the operands
(numerals as sign/integer-digits/fraction-digits components, words, lists,
alternatives, interval ends and brackets) and only then spells the spec, so the
expected truth value is a plain Python comparison on the operands - exact
rationals for the numeric operators, ``str`` comparison for the s-operators,
``in`` / ``all`` / ``any`` / interval membership for the others.  Nothing is
parsed by the harness.  Every operator x outcome cell has to be hit.
"""
import ast
import json
import string
from fractions import Fraction

PROPERTY = 'C18'
LEVEL = 'exploration'
ANCHORS = [('oslo_utils.specs_matcher', 'match'),
           ('oslo_utils.specs_matcher', 'make_grammar'),
           ('oslo_utils.specs_matcher', '_all_in'),
           ('oslo_utils.specs_matcher', '_range_in')]
RULE = ('directed corpus (docstring examples, boundaries) + seeded blocks; every block generates one case per '
        'cell: 7 numeric operators x {value<operand, =, >} over ints/decimals/negatives/adjacent values and '
        'alternative spellings; 6 string operators x {<, =, >} over words of letters, digits, punctuation; '
        '<in> x substring positions / reversed containment; <all-in> x {all, some, none present, near misses} with '
        '1..5 items; <or> x match position 1..5 / no match; <range-in> x 4 bracket pairs x {below, on-low, inside, '
        'on-high, above, degenerate}; no operator x {equal, substring, superstring, other}; x separators of spaces '
        'and tabs. Inputs outside the documented grammar are run as DONT-CARE and only recorded. '
        'non-trivial = every case; distinct by (value, spec)')
REQUIRED_CLAUSES = ['equal-valued-arguments-in-any-order', 'valid-calls-after-rejected-calls-answer-as-before', 'under-pyparsing-inline-literals-suppressed', 'numeric-value-as-number-object', 'concurrent-calls-answer-as-alone', 'documented-keyword-call', 'extra-whitespace-around-spec', 'numeric-op', 'string-op', 'in', 'all-in', 'or', 'range-in', 'no-operator',
                    'dont-care-recorded']
ASSUMPTIONS = ['numeric oracle: exact rational comparison (fractions.Fraction built from the generated digit strings); '
               'asserted only for numerals with at most 15 significant digits, where float() is order- and '
               'equality-preserving, so the float-based implementation must agree exactly; longer numerals are DONT-CARE',
               'a word is a non-empty string without whitespace that does not start with one of the 17 documented '
               'operators; separators between tokens are spaces and tabs',
               '<all-in> value is the text of a Python list of str; <range-in> value is the text of a Python number '
               'literal without leading zeros; other value spellings are DONT-CARE',
               'string order is Python str order (code points)']
INTERPRETER_FLAGS = [[], ['-O'], ['-X', 'dev'], ['-bb']]
CONCURRENT = lambda case: case.get('kind') != 'twins' and (True)          # pure function of its arguments; see vlib/concurrent.py
SHARDS = {'quick': 4, 'thorough': 16}
MIN_DISTINCT = {'quick': 5000, 'thorough': 100000}

NUM_OPS = ['=', '==', '!=', '<', '<=', '>', '>=']
STR_OPS = ['s==', 's!=', 's<', 's<=', 's>', 's>=']
ALL_OPS = NUM_OPS + STR_OPS + ['<in>', '<all-in>', '<or>', '<range-in>']
BRACKETS = [('[', ']'), ('(', ')'), ('[', ')'), ('(', ']')]
RELS = ['lt', 'eq', 'gt']
# documented meaning, as a table over the three-way relation of value vs operand
NUM_TABLE = {'=': {'lt': False, 'eq': True, 'gt': True},      # "equal to or greater than"
             '==': {'lt': False, 'eq': True, 'gt': False},
             '!=': {'lt': True, 'eq': False, 'gt': True},
             '<': {'lt': True, 'eq': False, 'gt': False},
             '<=': {'lt': True, 'eq': True, 'gt': False},
             '>': {'lt': False, 'eq': False, 'gt': True},
             '>=': {'lt': False, 'eq': True, 'gt': True}}
STR_TABLE = {'s' + k: v for k, v in NUM_TABLE.items() if k != '='}
SEPS = [' ', ' ', ' ', '  ', '\t', ' \t', '\t ', '     ', '\t\t']
PERTURBATIONS = ['lead-ws', 'trail-ws', 'newline-sep', 'glued-op', 'trailing-token']
DC_ALLOWED_EXC = (ValueError, TypeError, SyntaxError)

LETTERS = string.ascii_letters
DIGITS = string.digits
PUNCT = string.punctuation
FOREIGN = 'éßжλ日Ωñ'
POOLS = [LETTERS, LETTERS, LETTERS + DIGITS, LETTERS + DIGITS + '._-', DIGITS + '.',
         LETTERS + DIGITS + PUNCT, PUNCT, LETTERS + FOREIGN, 'ab', 'abc_X']


# ----------------------------------------------------------------------
# operand helpers (shared by generator and oracle; none of them parses a spec)
# ----------------------------------------------------------------------
def valid_word(w):
    if not isinstance(w, str) or not w:
        return False
    if any(c.isspace() or c in ' \t\r\n\x0b\x0c' for c in w):
        return False
    return not any(w.startswith(op) for op in ALL_OPS)


def num_ok(sp):
    if not (isinstance(sp, (list, tuple)) and len(sp) == 3):
        return False
    sign, intd, frac = sp
    if sign not in ('', '+', '-') or not isinstance(intd, str):
        return False
    if intd and not (intd.isascii() and intd.isdigit()):
        return False
    if frac is not None and frac and not (frac.isascii() and frac.isdigit()):
        return False
    return bool(intd or frac)


def num_text(sp):
    sign, intd, frac = sp
    return sign + intd + ('.' + frac if frac is not None else '')


def num_exact(sp):
    sign, intd, frac = sp
    q = Fraction(int((intd + (frac or '')) or '0'), 10 ** len(frac or ''))
    return -q if sign == '-' else q


def num_sig_digits(sp):
    return len(str(int((sp[1] + (sp[2] or '')) or '0')).rstrip('0'))


def num_canonical(sp):
    """Spelled the way a Python number literal is: no '+', no leading zeros."""
    sign, intd, frac = sp
    return sign in ('', '-') and intd != '' and (intd == '0' or not intd.startswith('0')) and frac != ''


def rel3(a, b):
    return 'lt' if a < b else ('gt' if a > b else 'eq')


def join_tokens(tokens, seps):
    out = [tokens[0]]
    for i, t in enumerate(tokens[1:]):
        out.append(seps[i % len(seps)] if seps else ' ')
        out.append(t)
    return ''.join(out)


def build(case):
    """-> (value, tokens, expect, cell, dontcare_reason).  expect is True/False
    (documented meaning on the operands) or None for DONT-CARE."""
    kind = case['kind']
    dc = None
    if kind == 'num':
        op, a, b = case['op'], case['a'], case['b']
        if op not in NUM_OPS or not (num_ok(a) and num_ok(b)):
            return None, None, None, None, 'malformed case'
        value, tokens = num_text(a), [op, num_text(b)]
        rel = rel3(num_exact(a), num_exact(b))
        if max(num_sig_digits(a), num_sig_digits(b)) > 15:
            dc = 'numeral with more than 15 significant digits'
        return value, tokens, NUM_TABLE[op][rel], '%s/%s' % (op, rel), dc
    if kind == 'str':
        op, value, word = case['op'], case['value'], case['word']
        if op not in STR_OPS:
            return None, None, None, None, 'malformed case'
        if not valid_word(word):
            dc = 'operand is not a word'
        rel = rel3(value, word)
        return value, [op, word], STR_TABLE[op][rel], '%s/%s' % (op, rel), dc
    if kind == 'in':
        value, word = case['value'], case['word']
        if not valid_word(word):
            dc = 'operand is not a word'
        return value, ['<in>', word], word in value, '<in>', dc
    if kind == 'allin':
        lst, items = case['lst'], case['items']
        if case.get('style') == 'json':
            value = json.dumps(lst, ensure_ascii=False)
        else:
            value = str(lst)
        try:
            same = ast.literal_eval(value) == lst
        except Exception:  # noqa
            same = False
        # (members that are not str - numbers, None, nested lists, dicts - are simply never equal to a listed item)
        if not same or not all(isinstance(e, (str, int, float, list, dict, type(None))) for e in lst):
            dc = 'value is not the text of a list'
        if not items or not all(valid_word(w) for w in items):
            dc = 'item is not a word'
        return value, ['<all-in>'] + list(items), all(w in lst for w in items), '<all-in>', dc
    if kind == 'or':
        value, alts = case['value'], case['alts']
        if not alts or not all(valid_word(w) for w in alts):
            dc = 'alternative is not a word'
        tokens = []
        for w in alts:
            tokens += ['<or>', w]
        return value, tokens, any(value == w for w in alts), '<or>', dc
    if kind == 'range':
        x, lo, hi, lb, rb = case['x'], case['lo'], case['hi'], case['lb'], case['rb']
        if not (num_ok(x) and num_ok(lo) and num_ok(hi)) or (lb, rb) not in BRACKETS:
            return None, None, None, None, 'malformed case'
        qx, ql, qh = num_exact(x), num_exact(lo), num_exact(hi)
        if max(num_sig_digits(x), num_sig_digits(lo), num_sig_digits(hi)) > 15:
            dc = 'numeral with more than 15 significant digits'
        if not num_canonical(x):
            dc = 'range value not spelled as a Python number literal'
        if ql > qh:
            dc = 'range ends reversed'
        lower = qx >= ql if lb == '[' else qx > ql
        upper = qx <= qh if rb == ']' else qx < qh
        if ql == qh:
            pos = 'degenerate-on' if qx == ql else ('below' if qx < ql else 'above')
        elif qx < ql:
            pos = 'below'
        elif qx == ql:
            pos = 'on-low'
        elif qx < qh:
            pos = 'inside'
        elif qx == qh:
            pos = 'on-high'
        else:
            pos = 'above'
        return (num_text(x), ['<range-in>', lb, num_text(lo), num_text(hi), rb], lower and upper,
                '<range-in> %s%s/%s' % (lb, rb, pos), dc)
    if kind == 'none':
        value, word = case['value'], case['word']
        if not valid_word(word):
            dc = 'spec is not a single word'
        return value, [word], value == word, 'none', dc
    return None, None, None, None, 'malformed case'


def outcome_of(got, exc):
    if exc is not None:
        return type(exc).__name__
    if got is True or got is False:
        return str(got)
    return 'non-bool:%s' % type(got).__name__


def call_match(value, spec):
    from oslo_utils import specs_matcher
    from vlib import callstyle
    specs_matcher = callstyle.proxy(specs_matcher)
    try:
        return specs_matcher.match(value, spec), None
    except BaseException as e:  # noqa
        if isinstance(e, (KeyboardInterrupt, SystemExit, MemoryError)):
            raise
        return None, e


def dont_care(ctx, case, label, value, spec, ref=None, ref_kind=False):
    got, exc = call_match(value, spec)
    ctx.case(('dc', repr(value), spec))
    ctx.clause('dont-care-recorded')
    out = outcome_of(got, exc)
    ctx.h('dont-care class x outcome', '%s -> %s' % (label.rsplit('/', 1)[0] if ref_kind else label, out))
    if ref is not None:
        agree = 'raises ' + out if exc is not None else ('agrees' if bool(got) == ref else 'differs')
        ctx.h('perturbation x agreement with the unperturbed meaning', '%s: %s' % (label, agree))
    if exc is not None and not isinstance(exc, DC_ALLOWED_EXC):
        ctx.fail('dont-care-unexpected-exception-type', case,
                 {'value': value, 'spec': spec, 'exc': exc, 'class': label})


def TWIN_FUNCS():
    from oslo_utils import specs_matcher as sm
    return {'match_value_in': lambda v: sm.match(v, '<in> Ab'), 'match_value_seq': lambda v: sm.match(v, 's== AbC'),
            'match_value_or': lambda v: sm.match(v, '<or> abc <or> AbC'), 'match_spec': lambda v: sm.match('AbC', v),
            'match_value_plain': lambda v: sm.match(v, 'AbC')}


TWIN_TEXT_FUNCS = ['match_value_in', 'match_value_seq', 'match_value_or', 'match_spec', 'match_value_plain']
TWIN_TEXTS = ['AbC', 'abc', 's== AbC', '<or> AbC <or> dEf', '<in> Ab', 'xAby', 's!= abC', '<all-in> AbC']
TWIN_NUM_FUNCS = ()
TWIN_NUMBERS = ()


def evaluate(ctx, case):
    if case.get('kind') == 'twins':
        from vlib import twins as _tw
        return _tw.evaluate_case(ctx, case, TWIN_FUNCS())
    kind = case['kind']
    if kind == 'raw':
        dont_care(ctx, case, case.get('cls', 'raw'), case['value'], case['spec'])
        return
    value, tokens, expect, cell, dc = build(case)
    if tokens is None:
        ctx.note('malformed case skipped: %r' % (case,))
        return
    perturb = case.get('perturb')
    if perturb:
        seps = case.get('seps') or [' ']
        if perturb == 'lead-ws':
            spec = ' \t' + join_tokens(tokens, seps)
        elif perturb == 'trail-ws':
            spec = join_tokens(tokens, seps) + ' \t '
        elif perturb == 'newline-sep':
            spec = join_tokens(tokens, ['\n', '\r\n', ' \n '])
        elif perturb == 'glued-op':
            spec = tokens[0] + join_tokens(tokens[1:], seps) if len(tokens) > 1 else tokens[0]
        else:
            spec = join_tokens(tokens, seps) + ' zzz'
        if perturb not in ('lead-ws', 'trail-ws') or dc:
            dont_care(ctx, case, 'perturbed/%s/%s' % (perturb, kind), value, spec,
                      ref=None if dc else expect, ref_kind=True)
            return
        # leading / trailing blanks around a documented spec are "extra whitespace": asserted like the plain form
        ctx.clause('extra-whitespace-around-spec')
    else:
        spec = join_tokens(tokens, case.get('seps') or [' '])
    if dc:
        dont_care(ctx, case, 'outside-grammar/%s: %s' % (kind, dc), value, spec)
        return
    vobj = value
    if kind == 'num' and case.get('vtype'):
        # the value handed over as a number object instead of its text: "numeric comparison" is the comparison of the
        # numbers - the float, Decimal or Fraction 3.7 is above 3 like the text '3.7' is
        import decimal
        import fractions
        try:
            vobj = {'float': float, 'Decimal': decimal.Decimal, 'Fraction': fractions.Fraction,
                    'int': lambda t: int(t) if float(t) == int(float(t)) and '.' not in t else float(t)}[case['vtype']](value.strip())
            ctx.clause('numeric-value-as-number-object')
        except (ValueError, decimal.InvalidOperation):
            vobj = value
    got, exc = call_match(vobj, spec)
    ctx.case((value, spec, case.get('vtype')))
    ctx.clause({'num': 'numeric-op', 'str': 'string-op', 'in': 'in', 'allin': 'all-in', 'or': 'or',
                'range': 'range-in', 'none': 'no-operator'}[kind])
    opname = tokens[0] if kind != 'none' else '(none)'
    if kind == 'range':
        opname = '<range-in> %s %s' % (case['lb'], case['rb'])
    ctx.h('operator x outcome', '%s -> %s' % (opname, expect))
    ctx.h('cell', '%s -> %s' % (cell, expect))
    if case.get('sub'):
        ctx.h('generator class', '%s/%s' % (kind, case['sub']))
    if kind in ('allin', 'or'):
        ctx.h('operand count', '%s/%d' % (kind, len(tokens) - 1 if kind == 'allin' else len(tokens) // 2))
    ctx.h('separator', 'plain single spaces' if all(s == ' ' for s in (case.get('seps') or [' ']))
          else 'extra spaces/tabs')
    if exc is not None:
        ctx.fail('documented-spec-must-not-raise', case,
                 {'value': value, 'spec': spec, 'want': expect, 'exc': exc})
        return
    if bool(got) != expect or not isinstance(got, bool):
        ctx.fail('operator-table/%s' % opname, case,
                 {'value': value, 'spec': spec, 'got': got, 'want': expect, 'cell': cell})


# ----------------------------------------------------------------------
# generators
# ----------------------------------------------------------------------
def gen_word(rng, lo=1, hi=8, pool=None):
    while True:
        p = pool or rng.choice(POOLS)
        n = rng.randint(lo, hi)
        if rng.random() < 0.03:
            n = rng.choice([64, 128, 200, 254, 255, 256, 257, 300, 1024, 5000])      # long operands: no length limit is documented
        w = ''.join(rng.choice(p) for _ in range(n))
        if pool is None and rng.random() < 0.04:
            # words that begin like an operator without being one ('s=foo', 's', '<inx', 's>'-free forms)
            w = rng.choice(['s=', 's', '<i', '<o', '<all', 's=s', 'ss=']) + w
        if pool is None and rng.random() < 0.04:
            # operator text INSIDE a word (a word is a whole run of non-blank characters): x<or>y, tail<or>, a<in>b, n>=2
            w = w[:1] + rng.choice(['<or>', '<in>', '<all-in>', '<range-in>', '>=', '==', 's==', '<or>y', '!=', '=']) + w[1:]
        if valid_word(w):
            return w


def gen_seps(rng, n):
    if rng.random() < 0.4:
        return [' '] * max(1, n)
    return [rng.choice(SEPS) for _ in range(max(1, n))]


def spell(rng, n, k, canonical=False):
    """Spell the rational n / 10**k as [sign, integer digits, fraction digits or None]."""
    digits = str(abs(n)).rjust(k + 1, '0')
    intd, frac = (digits[:-k], digits[-k:]) if k else (digits, None)
    if frac is not None and rng.random() < 0.4:
        frac = frac.rstrip('0')
        if not frac:
            frac = None if rng.random() < 0.6 else '0'
    if frac is not None and rng.random() < 0.15:
        frac += '0' * rng.randint(1, 2)
    if frac is None and rng.random() < 0.12:
        frac = '0' * rng.randint(1, 2)
    sign = '-' if n < 0 else ''
    if not canonical:
        r = rng.random()
        if r < 0.10:
            intd = '0' * rng.randint(1, 2) + intd
        elif r < 0.15 and intd == '0' and frac:
            intd = ''
        if n > 0 and rng.random() < 0.07:
            sign = '+'
        if n == 0 and rng.random() < 0.15:
            sign = '-'
    return [sign, intd, frac]


def gen_scaled(rng):
    """-> (n, k): a number n / 10**k from one of the magnitude classes."""
    k = rng.choice([0, 0, 0, 0, 1, 1, 2, 3, 4])
    c = rng.randrange(7)
    if c == 6:
        # tiny magnitudes: few significant digits far behind the decimal point (absolute differences below the
        # machine epsilon, relative differences huge - doubles tell them apart without any doubt)
        return rng.randint(-10 ** rng.choice([1, 2, 6]), 10 ** rng.choice([1, 2, 6])), rng.randint(15, 25)
    if c == 0:
        n = rng.randint(-30, 30)
    elif c == 1:
        n = rng.randint(-3, 3) * 10 ** k + rng.randint(-2, 2)      # around integers
    elif c == 2:
        n = rng.randint(-10 ** 5, 10 ** 5)
    elif c == 3:
        n = rng.randint(-10 ** 11, 10 ** 11)
    elif c == 4:
        n = rng.choice([0, 1, -1, 9, 10, 11, 99, 100, 101, 999, 1000, 2 ** 31 - 1, 2 ** 31, 60, 70])
    else:
        n = rng.randint(0, 2000)
    return n, k


def gen_delta(rng, k):
    r = rng.random()
    if r < 0.45:
        return 1                      # adjacent at the chosen scale
    if r < 0.6:
        return 10 ** k                # exactly one unit
    if r < 0.85:
        return rng.randint(2, 50)
    return rng.randint(1, 10 ** rng.randint(1, 9))


def gen_num(rng, op, rel):
    n, k = gen_scaled(rng)
    d = gen_delta(rng, k)
    m = n if rel == 'eq' else (n + d if rel == 'lt' else n - d)
    case = dict(kind='num', op=op, a=spell(rng, n, k, canonical=True) if rng.random() < 0.2 else spell(rng, n, k),
                b=spell(rng, m, k), seps=gen_seps(rng, 1), sub='adjacent' if (d == 1 and rel != 'eq') else rel)
    if rng.random() < 0.15 and k <= 6:
        case['vtype'] = rng.choice(['float', 'Decimal', 'Fraction', 'int'])
    return case


def gen_pair(rng):
    """Two distinct words p < q (Python str order), from several closeness classes."""
    while True:
        s = rng.randrange(8)
        if s == 0:
            p, q = gen_word(rng), gen_word(rng)
        elif s == 1:                                  # proper prefix
            p = gen_word(rng, 1, 6)
            q = p + rng.choice(LETTERS + DIGITS + PUNCT)
        elif s == 2:                                  # last character adjacent
            p = gen_word(rng, 1, 6)
            c = ord(p[-1])
            q = p[:-1] + chr(c + 1)
        elif s == 3:                                  # case only
            p = gen_word(rng, 1, 6, LETTERS)
            q = p.swapcase()
        elif s == 4:                                  # numbers whose string order differs from numeric order
            a, b = rng.randint(1, 99), rng.randint(100, 2000)
            p, q = str(a), str(b)
        elif s == 5:                                  # version-like
            p = '%d.%d.%d' % (rng.randint(0, 12), rng.randint(0, 12), rng.randint(0, 12))
            q = '%d.%d.%d' % (rng.randint(0, 12), rng.randint(0, 12), rng.randint(0, 12))
        elif s == 6:                                  # common prefix, different tail
            base = gen_word(rng, 1, 4)
            p, q = base + gen_word(rng, 1, 3), base + gen_word(rng, 1, 3)
        else:                                         # one-character words
            p, q = rng.choice(LETTERS + DIGITS + '._-+~'), rng.choice(LETTERS + DIGITS + '._-+~')
        if p == q or not (valid_word(p) and valid_word(q)):
            continue
        return (p, q) if p < q else (q, p)


def gen_str(rng, op, rel):
    if rel == 'eq':
        w = gen_word(rng)
        return dict(kind='str', op=op, value=w, word=w, seps=gen_seps(rng, 1), sub='eq')
    p, q = gen_pair(rng)
    value, word = (p, q) if rel == 'lt' else (q, p)
    sub = rel
    r = rng.random()
    if r < 0.06:                                      # values are free text
        value = '' if rel == 'lt' else word + ' x'
        sub = rel + '/free-text value'
    elif r < 0.10:
        value = (' ' + value) if rel == 'lt' else value + ' ' + value
        sub = rel + '/free-text value'
    elif r < 0.14:
        value = rng.choice(ALL_OPS) + value           # value may start with an operator; relation as it falls
        sub = 'value starts with an operator'
    return dict(kind='str', op=op, value=value, word=word, seps=gen_seps(rng, 1), sub=sub)


def gen_in(rng, want, variant):
    if rng.random() < 0.12:
        # the value looks like what <all-in> receives (the text of a list): <in> is still a plain substring test on
        # that text, so an operand may straddle the quotes, commas and brackets
        items = [gen_word(rng, 1, 4) for _ in range(rng.randrange(0, 4))]
        value = rng.choice([str(items).replace(', ', ','), '[%s]' % ','.join(str(rng.randrange(100)) for _ in items) or '[]',
                            str(items)])
        for _ in range(30):
            if want and len(value) >= 1:
                a = rng.randrange(len(value))
                w = value[a:a + rng.randrange(1, 5)]
            else:
                w = gen_word(rng, 1, 3) + rng.choice(["'", ',', ']', '[', "',", '0]'])
            if valid_word(w) and (w in value) == bool(want):
                return dict(kind='in', value=value, word=w, seps=gen_seps(rng, 1), sub='value is a list literal')
    w = gen_word(rng, 1, 5)
    pre, post = gen_word(rng, 1, 4), gen_word(rng, 1, 4)
    if want:
        value = [w, pre + w, w + post, pre + w + post, pre + ' ' + w + ' ' + post, w + w][variant % 6]
        sub = 'contained/%s' % ['whole', 'suffix', 'prefix', 'middle', 'word in text', 'twice'][variant % 6]
    else:
        v = variant % 6
        if v == 0:                                    # reversed containment: value is a proper part of the word
            value, w = w, pre + w + post
            sub = 'value is part of the word'
        elif v == 1:
            value, sub = w[:-1], 'word minus last char'
        elif v == 2:
            value, sub = '', 'empty value'
        elif v == 3:
            w = gen_word(rng, 2, 5, LETTERS)
            value, sub = pre + w.swapcase() + post, 'case differs'
        elif v == 4:
            w = gen_word(rng, 2, 5)
            value, sub = pre + w[0] + ' ' + w[1:] + post, 'split by a space'
        else:
            value, sub = gen_word(rng, 1, 8), 'unrelated'
    return dict(kind='in', value=value, word=w, seps=gen_seps(rng, 1), sub=sub)


def gen_allin(rng, variant):
    n_items = rng.randint(1, 5)
    v = variant % 6
    lst = [gen_word(rng, 1, 6) for _ in range(rng.randint(n_items if v == 0 else 1, 7))]
    if rng.random() < 0.2:
        lst.insert(rng.randrange(len(lst) + 1), gen_word(rng, 1, 3) + ' ' + gen_word(rng, 1, 3))
    words = [e for e in lst if valid_word(e)]
    if v == 0:                                        # all present
        items = [rng.choice(words) for _ in range(n_items)] if rng.random() < 0.3 else \
            rng.sample(words, min(n_items, len(words)))
        sub = 'all present'
    elif v == 1:                                      # exactly one missing, at any position
        items = rng.sample(words, min(n_items - 1, len(words)))
        items.insert(len(items) if rng.random() < 0.4 else rng.randrange(len(items) + 1), gen_word(rng, 7, 9))
        sub = 'one missing'
    elif v == 2:                                      # only one present, at any position
        items = [gen_word(rng, 7, 9) for _ in range(max(1, n_items - 1))]
        items.insert(rng.randrange(len(items) + 1), rng.choice(words))
        sub = 'one present, others missing'
    elif v == 3:                                      # none present
        items = [gen_word(rng, 7, 9) for _ in range(n_items)]
        if rng.random() < 0.2:
            lst = []
        sub = 'none present'
    elif v == 4:                                      # near miss: part of an element / element plus a char
        e = rng.choice(words)
        near = e[:-1] if (len(e) > 1 and rng.random() < 0.5) else e + rng.choice(LETTERS)
        if not valid_word(near) or near in lst:
            near = e + 'q'
        items = rng.sample(words, min(n_items - 1, len(words)))
        items.insert(len(items) if rng.random() < 0.4 else rng.randrange(len(items) + 1), near)
        sub = 'near miss (substring/superstring of an element)'
    else:                                             # item equal to the concatenation / text of the list
        items = [''.join(words[:2]) if len(words) > 1 else words[0] + words[0]]
        if items[0] in lst or not valid_word(items[0]):
            items = [gen_word(rng, 7, 9)]
        sub = 'item is a concatenation of elements'
    if rng.random() < 0.2:
        # the list also holds things that are not flag strings: nested lists, dicts, numbers, None
        lst = list(lst)
        for _ in range(rng.randrange(1, 3)):
            lst.insert(rng.randrange(len(lst) + 1),
                       rng.choice([[rng.choice(words)], [rng.choice(words), 'x'], {rng.choice(words): 1}, 7, 1.5, None, [],
                                   [[rng.choice(words)]]]))
        sub += ' (list with members that are not str)'
    return dict(kind='allin', lst=lst, items=items[:5], style=rng.choice(['repr', 'repr', 'json']),
                seps=gen_seps(rng, 5), sub=sub)


def gen_or(rng, variant):
    n = rng.randint(1, 5)
    alts = [gen_word(rng, 1, 6) for _ in range(n)]
    v = variant % 6
    if v < 2:                                         # match at a uniformly chosen position (incl. last)
        pos = rng.randrange(n)
        value, sub = alts[pos], 'match at %d of %d' % (pos + 1, n)
    elif v == 2:                                      # match at the last position only, n >= 2
        if n == 1:
            alts.append(gen_word(rng, 1, 6))
        value = alts[-1]
        if value in alts[:-1]:
            alts[-1] = value = value + 'z'
        sub = 'match only at the last position'
    elif v == 3:
        value, sub = gen_word(rng, 7, 9), 'no match'
    elif v == 4:
        a = rng.choice(alts)
        value = rng.choice([a + 'x', a[:-1], a.swapcase(), ' ' + a, a + ' ', ''.join(alts)])
        sub = 'near miss'
    else:
        value = ' '.join(alts) if rng.random() < 0.5 else '<or> ' + ' <or> '.join(alts)
        sub = 'value is the text of the alternatives'
    return dict(kind='or', value=value, alts=alts, seps=gen_seps(rng, 2 * len(alts)), sub=sub)


def gen_range(rng, lb, rb, pos):
    lo, k = gen_scaled(rng)
    if pos == 'degenerate':
        width = 0
    else:
        width = rng.choice([2, 2, 3, 10, 10 ** k + 1, rng.randint(2, 10 ** rng.randint(1, 6))])
    hi = lo + width
    d = gen_delta(rng, k)
    if pos == 'below':
        x = lo - d
    elif pos == 'on-low':
        x = lo
    elif pos == 'inside':
        x = rng.choice([lo + 1, hi - 1, rng.randint(lo + 1, hi - 1)])
    elif pos == 'on-high':
        x = hi
    elif pos == 'above':
        x = hi + d
    else:
        x = rng.choice([lo, lo, lo - d, lo + d])
    return dict(kind='range', x=spell(rng, x, k, canonical=True), lo=spell(rng, lo, k), hi=spell(rng, hi, k),
                lb=lb, rb=rb, seps=gen_seps(rng, 4), sub=pos)


def gen_none(rng, variant):
    w = gen_word(rng, 1, 8)
    v = variant % 8
    if v < 3:
        value, sub = w, 'equal'
    elif v == 3:                                      # spec is a proper part of the value
        value = rng.choice([gen_word(rng, 1, 3) + w, w + gen_word(rng, 1, 3),
                            gen_word(rng, 1, 3) + w + gen_word(rng, 1, 3), w + ' ' + w])
        sub = 'spec is a substring of the value'
    elif v == 4:                                      # value is a proper part of the spec
        w = gen_word(rng, 2, 8)
        i = rng.randrange(len(w))
        value = rng.choice([w[:-1], w[1:], w[i], ''])
        if value == w:
            value = ''
        sub = 'value is a substring of the spec'
    elif v == 5:
        w = gen_word(rng, 1, 6, LETTERS)
        value, sub = w.swapcase(), 'case differs'
    elif v == 6:                                      # numerically equal, textually different
        n = rng.randint(0, 500)
        w, value = str(n), rng.choice(['0%d' % n, '%d.0' % n, '+%d' % n, ' %d' % n])
        sub = 'numerically equal only'
    else:
        value, sub = gen_word(rng, 1, 8), 'unrelated'
        if value == w:
            value = w + '_'
    return dict(kind='none', value=value, word=w, sub=sub)


def gen_raw(rng, variant):
    """Inputs outside the documented grammar: DONT-CARE, recorded only."""
    v = variant % 16
    w, w2 = gen_word(rng, 1, 5), gen_word(rng, 1, 5)
    n = rng.randint(-50, 50)
    if v == 0:
        return dict(kind='raw', cls='numeric operator, non-numeric operand', value=str(n),
                    spec='%s %s' % (rng.choice(NUM_OPS), gen_word(rng, 1, 4, LETTERS)))
    if v == 1:
        return dict(kind='raw', cls='numeric operator, non-numeric value', value=gen_word(rng, 1, 4, LETTERS),
                    spec='%s %d' % (rng.choice(NUM_OPS), n))
    if v == 2:
        return dict(kind='raw', cls='numeric operator, nan/inf', value=rng.choice(['nan', 'inf', '-inf', str(n)]),
                    spec='%s %s' % (rng.choice(NUM_OPS), rng.choice(['nan', 'inf', '-inf'])))
    if v == 3:
        return dict(kind='raw', cls='numeric operator, value is an int/float object',
                    value=rng.choice([n, n + 0.5]), spec='%s %d' % (rng.choice(NUM_OPS), rng.randint(-50, 50)))
    if v == 4:
        return dict(kind='raw', cls='multi-word spec without operator', value=rng.choice([w, w + ' ' + w2, w2]),
                    spec=w + ' ' + w2)
    if v == 5:
        return dict(kind='raw', cls='operator without operand / empty spec', value=rng.choice(['', w, '>=']),
                    spec=rng.choice(ALL_OPS + ['', ' ']))
    if v == 6:
        op = rng.choice(STR_OPS + ['<in>', '<or>', '<all-in>'])
        return dict(kind='raw', cls='operand starts with an operator', value=rng.choice([w, '<' + w]),
                    spec='%s %s%s' % (op, rng.choice(ALL_OPS), w))
    if v == 7:
        return dict(kind='raw', cls='<range-in> ends reversed', value=str(n),
                    spec='<range-in> %s %d %d %s' % (rng.choice('[('), n + rng.randint(1, 9), n - rng.randint(0, 9),
                                                     rng.choice('])')))
    if v == 8:
        return dict(kind='raw', cls='<range-in> brackets glued or wrong',
                    value=str(n), spec=rng.choice(['<range-in> [%d %d]', '<range-in> { %d %d }', '<range-in> ) %d %d (',
                                                   '<range-in> %d %d', '<range-in> [ %d %d', '<range-in> %d %d ]'])
                    % (n - 5, n + 5))
    if v == 9:
        return dict(kind='raw', cls='<range-in> wrong number of operands', value=str(n),
                    spec=rng.choice(['<range-in> [ %d ]' % n, '<range-in> [ %d %d %d ]' % (n - 1, n, n + 1)]))
    if v == 10:
        return dict(kind='raw', cls='<range-in> value not a Python literal (leading zero, int object, text)',
                    value=rng.choice(['0%d' % abs(n), abs(n), '+%d' % abs(n), w, ' %d' % n]),
                    spec='<range-in> [ %d %d ]' % (-100, 100))
    if v == 11:
        return dict(kind='raw', cls='<all-in> value is a list object / not a list text',
                    value=rng.choice([[w, w2], w, str({w: 1}), str((w, w2)), '[%s, %s]' % (w, w2), '^&*($']),
                    spec='<all-in> %s' % w)
    if v == 12:
        return dict(kind='raw', cls='infix <or>', value=rng.choice([w, w2]), spec='%s <or> %s' % (w, w2))
    if v == 13:
        return dict(kind='raw', cls='<or> alternatives without repeated keyword', value=rng.choice([w, w2]),
                    spec='<or> %s %s' % (w, w2))
    if v == 14:
        a = rng.choice([2 ** 53, 10 ** 17, 12345678901234567890]) + rng.randint(0, 3)
        return dict(kind='num', op=rng.choice(NUM_OPS), a=['', str(a), None], b=['', str(a + rng.choice([-1, 0, 1])), None],
                    seps=[' '])
    return dict(kind='raw', cls='spec with leading/trailing whitespace, no operator',
                value=w, spec=rng.choice([' ' + w, w + ' ', '\t' + w + '\n']))


# ----------------------------------------------------------------------
# cells
# ----------------------------------------------------------------------
RANGE_POS = ['below', 'on-low', 'inside', 'on-high', 'above', 'degenerate']


def required_cells():
    out = []
    for op in NUM_OPS:
        out += ['%s/%s -> %s' % (op, r, NUM_TABLE[op][r]) for r in RELS]
    for op in STR_OPS:
        out += ['%s/%s -> %s' % (op, r, STR_TABLE[op][r]) for r in RELS]
    for o in (True, False):
        out += ['<in> -> %s' % o, '<all-in> -> %s' % o, '<or> -> %s' % o, 'none -> %s' % o]
    for lb, rb in BRACKETS:
        for pos in RANGE_POS[:5]:
            if pos in ('below', 'above'):
                want = False
            elif pos == 'inside':
                want = True
            elif pos == 'on-low':
                want = lb == '['
            else:
                want = rb == ']'
            out.append('<range-in> %s%s/%s -> %s' % (lb, rb, pos, want))
        out.append('<range-in> %s%s/degenerate-on -> %s' % (lb, rb, (lb, rb) == ('[', ']')))
    return out


def required_op_outcomes():
    ops = NUM_OPS + STR_OPS + ['<in>', '<all-in>', '<or>', '(none)'] + ['<range-in> %s %s' % b for b in BRACKETS]
    return ['%s -> %s' % (op, o) for op in ops for o in (True, False)]


def directed():
    def n(text):
        sign = text[0] if text[0] in '+-' else ''
        body = text[len(sign):]
        intd, _, frac = body.partition('.')
        return [sign, intd, frac if '.' in body else None]
    out = []
    # the docstring's examples and the operator table at a boundary
    for v, want in [('59', 0), ('60', 1), ('60.0', 1), ('61', 1), ('59.99', 0)]:
        out.append(dict(kind='num', op='>=', a=n(v), b=n('60')))
    for op in NUM_OPS:
        for a, b in [('3', '3'), ('3.0', '3'), ('03', '3'), ('2', '3'), ('4', '3'), ('-3', '3'), ('-3', '-4'),
                     ('3.1', '3'), ('2.9', '3'), ('0', '-0'), ('10', '9'), ('9', '10'), ('0.1', '0.10'),
                     ('123', '2'), ('2.0', '123'), ('+5', '5'), ('.5', '0.5'), ('1000000', '999999')]:
            out.append(dict(kind='num', op=op, a=n(a), b=n(b)))
    for op in STR_OPS:
        for v, w in [('2.1.0', '2.1.0'), ('spam', 'spam'), ('spam', 'spa'), ('spa', 'spam'), ('10', '9'), ('9', '10'),
                     ('a', 'b'), ('b', 'a'), ('A', 'a'), ('a', 'A'), ('', 'a'), ('12311321', '123'), ('2', '12345'),
                     ('2', '2'), ('abc', 'abd'), ('abc d', 'abc')]:
            out.append(dict(kind='str', op=op, value=v, word=w))
    for v, w in [('12311321', '11'), ('12311321', '12311321'), ('12310321', '11'), ('xgccx', 'gcc'), ('gc', 'gcc'),
                 ('gcc', 'gcc'), ('', 'gcc'), ('g cc', 'gcc')]:
        out.append(dict(kind='in', value=v, word=w))
    for lst, items in [(['aes', 'mmx', 'aux'], ['aes', 'mmx']), (['aes', 'mmx', 'aux'], ['mmx']),
                       (['aes', 'mmx', 'aux'], ['txt']), (['aes', 'mmx', 'aux'], ['txt', '3dnow']),
                       (['aes', 'mmx', 'aux'], ['txt', 'aes']), (['aes', 'mmx', 'aux'], ['aes', 'txt']),
                       (['X_X'], ['_']), (['X___X'], ['___']), (['aes', 'mmx', 'aux'], ['XaesX']),
                       (['aes', 'mmx', 'aux'], ['e']), ([], ['aes']), (['a', 'b', 'c', 'd', 'e'], ['e', 'd', 'c', 'b', 'a']),
                       (['a', 'b', 'c', 'd', 'e'], ['e', 'd', 'c', 'b', 'f']), (['aes'], ['aes', 'aes'])]:
        for style in ('repr', 'json'):
            out.append(dict(kind='allin', lst=lst, items=items, style=style))
    for v, alts in [('spam', ['spam', 'eggs']), ('eggs', ['spam', 'eggs']), ('ham', ['spam', 'eggs']),
                    ('12', ['11', '12']), ('13', ['11', '12']), ('12', ['12']), ('1', ['12']), ('12', ['1']),
                    ('e', ['a', 'b', 'c', 'd', 'e']), ('f', ['a', 'b', 'c', 'd', 'e']), ('spameggs', ['spam', 'eggs'])]:
        out.append(dict(kind='or', value=v, alts=alts))
    for lb, rb in BRACKETS:
        for x in ['9', '9.9', '10', '10.0', '10.1', '15', '19.9', '20', '20.0', '20.1', '21', '-15', '0']:
            out.append(dict(kind='range', x=n(x), lo=n('10'), hi=n('20'), lb=lb, rb=rb))
        for x in ['10.3', '10.4', '10.5', '20']:
            out.append(dict(kind='range', x=n(x), lo=n('10.4'), hi=n('20'), lb=lb, rb=rb))
        for x in ['-20.1', '-20', '-15', '-10', '-9.9']:
            out.append(dict(kind='range', x=n(x), lo=n('-20'), hi=n('-10'), lb=lb, rb=rb))
        for x in ['4', '5', '6']:
            out.append(dict(kind='range', x=n(x), lo=n('5'), hi=n('5'), lb=lb, rb=rb))
    for v, w in [('1', '1'), ('01', '1'), ('', '1'), ('3', '1'), ('222', '2'), ('2', '222'), ('abc', 'abc'),
                 ('abc', 'ab'), ('ab', 'abc'), ('abc', 'ABC'), ('1.0', '1'), ('a<b', 'a<b'), ('x=1', 'x=1')]:
        out.append(dict(kind='none', value=v, word=w))
    # different strings that are canonically equivalent (or compatibility twins): they are different strings - the matcher
    # compares strings, not normal forms
    for v, w in [('\u212b', '\u00c5'), ('\u2126', '\u03a9'), ('e\u0301', '\u00e9'), ('caf\u00e9', 'cafe\u0301'),
                 ('\u212a', 'K'), ('\uf900', '\u8c48'), ('A\u030a', '\u00c5'), ('\uff21', 'A'), ('\u00c5ngstr\u00f6m', 'A\u030angstro\u0308m')]:
        for a, b in ((v, w), (w, v), (v, v)):
            for op in STR_OPS:
                out.append(dict(kind='str', op=op, value=a, word=b))
            out.append(dict(kind='none', value=a, word=b))
            out.append(dict(kind='or', value=a, alts=[b, 'zz']))
            out.append(dict(kind='in', value='x' + a + 'y', word=b))
            for style in ('repr', 'json'):
                out.append(dict(kind='allin', lst=[a, 'mmx'], items=[b], style=style))
    out.append(dict(kind='in', value='cafe\u0301', word='e'))
    out.append(dict(kind='in', value='cafe\u0301', word='\u00e9'))
    # every separator with every family
    extra = []
    for sep in sorted(set(SEPS)):
        for c in (out[0], [c for c in out if c['kind'] == 'str'][0], [c for c in out if c['kind'] == 'allin'][0],
                  [c for c in out if c['kind'] == 'or'][1], [c for c in out if c['kind'] == 'range'][2],
                  [c for c in out if c['kind'] == 'in'][0]):
            extra.append(dict(c, seps=[sep]))
    return out + extra


def block_cases(rng, b):
    """One case for every cell (plus DONT-CARE probes); b varies the sub-variants."""
    out = []
    for op in NUM_OPS:
        for rel in RELS:
            out.append(gen_num(rng, op, rel))
    for op in STR_OPS:
        for rel in RELS:
            out.append(gen_str(rng, op, rel))
    for j in range(3):
        out.append(gen_in(rng, True, b * 3 + j))
        out.append(gen_in(rng, False, b * 3 + j))
    for j in range(6):
        out.append(gen_allin(rng, j))
        out.append(gen_or(rng, j))
    for lb, rb in BRACKETS:
        for pos in RANGE_POS:
            out.append(gen_range(rng, lb, rb, pos))
    for j in range(8):
        out.append(gen_none(rng, j))
    for j in range(4):
        out.append(gen_raw(rng, b * 4 + j))
    # perturbations of documented specs (DONT-CARE: recorded)
    for j in range(3):
        base = dict(rng.choice(out[:-4]))
        if base['kind'] != 'raw':
            base['perturb'] = PERTURBATIONS[(b * 3 + j) % len(PERTURBATIONS)]
            out.append(base)
    return out



def REJECTED_FUNCS(ctx):
    from oslo_utils import specs_matcher as sm
    return [sm.match, sm.make_grammar]


def HAMMER(ctx):
    from oslo_utils import specs_matcher
    out = []
    for value, spec in (('5', '>= 3'), ('2', '>= 3'), ('abc', 's== abc'), ('abc', 's!= abc'), ('12311321', '<in> 11'), ('aes mmx', '<all-in> aes mmx'),
                        ('5', '<range-in> [ 1 5 )'), ('5', '<range-in> [ 1 5 ]'), ('x', '<or> x <or> y'), ('z', '<or> x <or> y'), ('plain', 'plain')):
        out.append(('match(%r, %r)' % (value, spec), lambda a=value, b=spec: specs_matcher.match(a, b)))
    return out

def run(ctx):
    # ---- the same characters / the same number handed over as other objects, in several orders (vlib/twins.py)
    from vlib import twins as _tw
    for _i, _case in enumerate(_tw.make_cases(ctx.rng('twins'), ctx.pick(160, 8000), TWIN_TEXT_FUNCS, TWIN_TEXTS,
                                              TWIN_NUM_FUNCS, TWIN_NUMBERS, as_characters=False)):
        # (match() compares: a caller's str subclass with its own equality legitimately takes part in '==')
        if ctx.mine(_i):
            evaluate(ctx, _case)
    for i, case in enumerate(directed()):
        if ctx.mine(i):
            ctx.sample('directed/' + case['kind'], case)
            evaluate(ctx, case)
    nblocks = ctx.pick(300, 10400)
    for b in range(nblocks):
        if not ctx.mine(b):
            continue
        rng = ctx.rng('block-%d' % b)
        for case in block_cases(rng, b):
            evaluate(ctx, case)
    ctx.extra['blocks'] = nblocks
    for key in required_op_outcomes():
        if not ctx.hist['operator x outcome'].get(key):
            ctx.inconclusive_because('operator x outcome cell never hit: %s' % key)
    for key in required_cells():
        if not ctx.hist['cell'].get(key):
            ctx.inconclusive_because('cell never hit: %s' % key)


LEVEL_TEXT = ('Exploration with a constructive oracle: operator and operands are chosen first and the spec text is '
              'spelled from them, so the documented truth value is a direct Python comparison on the operands; every '
              'operator x outcome cell, every numeric/string operator x {<,=,>} cell and every bracket pair x '
              '{below, on-low, inside, on-high, above, degenerate} cell is hit in every block; operands are sampled.')
LEVEL_NOTE = ('Trusted: fractions.Fraction, Python str comparison, the operator table copied from the docstring. '
              'DONT-CARE (recorded, not asserted): numerals with more than 15 significant digits, nan/inf, non-numeric '
              'operands of numeric operators, multi-word specs, leading/trailing whitespace, newlines as separators, '
              'operator glued to its operand, trailing extra tokens, reversed or malformed <range-in>, <range-in> values '
              'that are not Python literals, <all-in> values that are not list texts.')
TECHNIQUE = 'reference-model monitor (operator table on generated operands) over constructive generators'


# a fifth of the cases runs after "another pyparsing user in the process" has switched pyparsing's process-wide class for
# bare strings inside expressions to Suppress (ParserElement.inline_literals_using): the grammar built per call may not
# pick that up
from vlib import envmodes as _envmodes_pp  # noqa: E402
evaluate = _envmodes_pp.with_modes(evaluate, pp=lambda case: True)
