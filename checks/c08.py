"""C08 mask_dict_password masks recursively and never modifies its argument.

Reference-model monitor.  Every case is a JSON description ("spec") of a
nested mapping; the harness builds the argument from it, takes an
identity-carrying snapshot, runs the real function and walks argument and
result in parallel with an independent per-value rule taken from the
property statement (own copy of the 35 sanitize keys, cross-checked against
strutils._SANITIZE_KEYS).

Spec grammar (JSON lists, stored as JSON *text* in the case so that nesting
depth does not matter to the replay encoder):
  value: ["str",s] ["strsub",s] ["bytes",hex] ["bytearray",hex] ["int",n] ["float",x]
         ["bool",b] ["none"] ["obj"] ["list",[v..]] ["tuple",[v..]]
         ["map",mtype,[[key,value]..]] ["let",name,value] ["ref",name]
         ["duck",[[key,value]..]] (has .items() but is not a Mapping) ["dictclass"]
  key:   ["s",text] ["S",text] (str subclass) ["i",n] ["f",x] ["n"] ["B",bool]
         ["b",hex] ["t",[key..]]
  mtype: dict odict ddict proxy proxyc custom chain
"""
import collections
import collections.abc
import itertools
import json
import types

PROPERTY = 'C08'
LEVEL = 'exploration'
ANCHORS = [('oslo_utils.strutils', 'mask_dict_password')]
RULE = ('directed corpus (docstring examples; every one of the 35 sanitize keys x {alone, prefixed, '
        'suffixed, infixed} x {lower, UPPER, Title, alternating, every single-letter case flip}; all 2^n '
        'case patterns of the short keys; one-character near-misses (replace, delete, insert, transpose) '
        'of every key at every position; non-str keys carrying key text; every mapping type at every '
        'level; aliasing; masks) then seeded random nested mappings of depth <= 4, width <= 5. '
        'non-trivial = a non-mapping argument, or a mapping with at least one sensitive str key, nested '
        'mapping or str value; distinct by (spec, secret, call style)')
REQUIRED_CLAUSES = ['reentrant-call-from-the-callers-mapping-answers-as-alone', 'under-warnings-as-errors', 'retry-after-a-failed-call-on-the-same-object', 'documented-keyword-call', 'key-list-cross-check', 'result-new-plain-dict', 'same-keys',
                    'sensitive-key-masked', 'mapping-under-sensitive-key-recursed',
                    'nested-mapping-processed', 'non-dict-mapping-nested',
                    'string-through-mask_password', 'string-changed-by-mask_password',
                    'other-value-by-identity', 'list-holding-dict-by-identity',
                    'nonstr-key-with-key-text-not-masked', 'near-miss-key-not-masked',
                    'custom-secret', 'custom-secret-nested', 'argument-unmodified',
                    'argument-equals-twin', 'non-mapping-TypeError']
ASSUMPTIONS = ['"new dict" is read as: type(result) is dict at every mapping level and no result level is an '
               'object reachable from the argument',
               'string values under non-sensitive keys are compared with strutils.mask_password applied by '
               'the harness to the original string (mask_password itself is property C04)',
               'str keys on which lower(), casefold() and upper() based containment disagree (non-ASCII '
               'case mappings such as the Kelvin sign or long s) are DONT-CARE: either outcome accepted',
               'key order of the result, identity of key objects and identity of returned str values are '
               'not asserted; masks containing backslashes (regex templates) are not generated']
INTERPRETER_FLAGS = [[], ['-O'], ['-X', 'dev'], []]      # -bb not used here: the inputs mix str and bytes keys/subjects (DONT-CARE zone), where the pinned tree itself compares or str()s bytes
SHARDS = {'quick': 4, 'thorough': 16}
MIN_DISTINCT = {'quick': 5000, 'thorough': 200000}

# own copy of the 35 sanitize keys (property C08 / DESIGN.md at design time)
MY_KEYS = ['adminpass', 'admin_pass', 'password', 'admin_password', 'auth_token', 'new_pass',
           'auth_password', 'secret_uuid', 'secret', 'sys_pswd', 'token', 'configdrive',
           'chappassword', 'encrypted_key', 'private_key', 'fernetkey', 'sslkey', 'passphrase',
           'cephclusterfsid', 'octaviaheartbeatkey', 'rabbitcookie', 'cephmanilaclientkey',
           'pacemakerremoteauthkey', 'designaterndckey', 'cephadminkey', 'heatauthencryptionkey',
           'cephclientkey', 'keystonecredential', 'barbicansimplecryptokek', 'cephrgwkey',
           'swifthashsuffix', 'migrationsshkey', 'cephmdskey', 'cephmonkey', 'chapsecret']
assert len(MY_KEYS) == 35 and len(set(MY_KEYS)) == 35
_MY_UPPER = [k.upper() for k in MY_KEYS]
_EXTRA_SRC = None
_EXTRA = []          # keys present in the repository list but not in MY_KEYS (DONT-CARE zone)

MTYPES = ['dict', 'odict', 'ddict', 'proxy', 'proxyc', 'custom', 'chain', 'lazy', 'flaky', 'lru', 'readcount', 'genitems', 'reentrant']
SECRETS = [None, '***', '???', '', 'XXXX', '<redacted>', '*', 'hidden', 'secret=1', 'päss✓',
           'password']


class PairsMapping(collections.abc.Mapping):
    """A Mapping that is not a dict and is not backed by one."""
    __slots__ = ('_pairs',)

    def __init__(self, pairs):
        self._pairs = tuple(pairs)

    def __getitem__(self, key):
        for k, v in self._pairs:
            if k == key:
                return v
        raise KeyError(key)

    def __iter__(self):
        return iter([k for k, _v in self._pairs])

    def __len__(self):
        return len(self._pairs)

    def __repr__(self):
        return 'PairsMapping(%r)' % (self._pairs,)


class LazyMapping(PairsMapping):
    """A read-only view that builds its nested mappings on access: every lookup of a mapping-valued key
    returns a fresh, short-lived object (so object addresses get reused within one call)."""
    __slots__ = ()

    def __getitem__(self, key):
        v = PairsMapping.__getitem__(self, key)
        if isinstance(v, LazyMapping):
            return LazyMapping(v._pairs)
        if isinstance(v, PairsMapping):
            return PairsMapping(v._pairs)
        if type(v) is dict:
            return dict(v)
        return v

    def __repr__(self):
        return 'LazyMapping(%r)' % (self._pairs,)


class FlakyMapping(PairsMapping):
    """The caller's own object fails once (a lazily loaded backend that hiccups): when armed, the n-th value lookup
    raises OSError; after that it behaves.  What a later call on the same object returns must not depend on that."""
    __slots__ = ('_countdown',)

    def __init__(self, pairs):
        PairsMapping.__init__(self, pairs)
        self._countdown = None

    def arm(self, n):
        self._countdown = n

    def __getitem__(self, key):
        if self._countdown is not None:
            self._countdown -= 1
            if self._countdown <= 0:
                self._countdown = None
                raise OSError(5, 'backend hiccup (raised by the caller\'s own mapping)')
        return PairsMapping.__getitem__(self, key)


class LRU(collections.OrderedDict):
    """The access-ordered OrderedDict recipe of the collections documentation: reading an entry through [] moves it
    to the end.  items() does not read through []; a function that leaves its argument unmodified must not either."""

    def __getitem__(self, key):
        value = super().__getitem__(key)
        self.move_to_end(key)
        return value


class ReadCounting(dict):
    reads = 0

    def __getitem__(self, key):
        type(self).reads += 1
        self.reads_here = getattr(self, 'reads_here', 0) + 1
        return dict.__getitem__(self, key)


class GenItemsMapping(PairsMapping):
    """A Mapping whose items() / keys() / values() are one-shot iterators (generators, zip objects), as database row
    proxies and lazy config sections return: each call gives a fresh iterator, but one iterator can be walked once."""
    __slots__ = ()

    def items(self):
        return ((k, v) for k, v in self._pairs)

    def keys(self):
        return (k for k, _v in self._pairs)

    def values(self):
        return iter([v for _k, v in self._pairs])


class MyStr(str):
    pass


class ItemsOnly:
    """A record object that happens to have an items() method: no keys(), no lookup by key - not a mapping by any reading."""

    def __init__(self, pairs):
        self._pairs = pairs

    def items(self):
        return list(self._pairs)


class Duck:
    """Has items()/keys()/__getitem__ but is not a collections.abc.Mapping."""

    def __init__(self, d):
        self._d = d

    def items(self):
        return self._d.items()

    def keys(self):
        return self._d.keys()

    def __getitem__(self, k):
        return self._d[k]

    def __iter__(self):
        return iter(self._d)

    def __len__(self):
        return len(self._d)


class ReentrantMapping(PairsMapping):
    """A lazily loading section that, the first time it is walked, has a record about itself masked (a loader writing an
    audit entry): while the outer mask_dict_password call is iterating it, its __iter__ calls mask_dict_password on
    another dictionary that contains this very mapping.  Two calls in flight on one thread share nothing."""
    __slots__ = ('_busy', '_hook', 'inner')

    def __init__(self, pairs):
        PairsMapping.__init__(self, pairs)
        self._busy = False
        self._hook = None
        self.inner = []

    def __iter__(self):
        if self._hook is not None and not self._busy and len(self.inner) < 2:
            self._busy = True
            try:
                self.inner.append(self._hook(self))
            finally:
                self._busy = False
        return PairsMapping.__iter__(self)


class Builder:
    def __init__(self):
        self.reentrant = []
        self.env = {}
        self.inner = []     # containers hidden behind proxies; snapshot them too
        self.flaky = []     # mappings that can be armed to fail once

    def key(self, ks):
        t = ks[0]
        if t == 's':
            return ks[1]
        if t == 'S':
            return MyStr(ks[1])
        if t in ('i', 'f', 'B'):
            return ks[1]
        if t == 'n':
            return None
        if t == 'b':
            return bytes.fromhex(ks[1])
        if t == 't':
            return tuple(self.key(x) for x in ks[1])
        raise ValueError('bad key spec %r' % (ks,))

    def val(self, vs):
        t = vs[0]
        if t == 'str':
            return vs[1]
        if t == 'strsub':
            return MyStr(vs[1])
        if t == 'bytes':
            return bytes.fromhex(vs[1])
        if t == 'bytearray':
            return bytearray.fromhex(vs[1])
        if t in ('int', 'float', 'bool'):
            return vs[1]
        if t == 'none':
            return None
        if t == 'obj':
            return object()
        if t == 'list':
            return [self.val(x) for x in vs[1]]
        if t == 'tuple':
            return tuple(self.val(x) for x in vs[1])
        if t == 'let':
            self.env[vs[1]] = v = self.val(vs[2])
            return v
        if t == 'ref':
            return self.env[vs[1]]
        if t == 'duck':
            return Duck(dict((self.key(k), self.val(v)) for k, v in vs[1]))
        if t == 'itemsonly':
            return ItemsOnly([(self.key(k), self.val(v)) for k, v in vs[1]])
        if t == 'xmlelement':
            import xml.etree.ElementTree as ET
            return ET.Element('server', dict((str(self.key(k)), str(self.val(v))) for k, v in vs[1]))
        if t == 'dictitems':
            return dict((self.key(k), self.val(v)) for k, v in vs[1]).items()
        if t == 'dictclass':
            return dict
        if t == 'map':
            base = {}
            for k, v in vs[2]:
                base[self.key(k)] = self.val(v)      # de-duplicates equal keys (1 / True / 1.0)
            m = vs[1]
            if m == 'dict':
                return base
            if m == 'odict':
                return collections.OrderedDict(base)
            if m == 'ddict':
                return collections.defaultdict(list, base)
            if m == 'proxy':
                self.inner.append(base)
                return types.MappingProxyType(base)
            if m == 'custom':
                return PairsMapping(base.items())
            if m == 'lazy':
                return LazyMapping(base.items())
            if m == 'flaky':
                f = FlakyMapping(base.items())
                self.flaky.append(f)
                return f
            if m == 'genitems':
                return GenItemsMapping(base.items())
            if m == 'reentrant':
                r = ReentrantMapping(base.items())
                self.reentrant.append(r)
                return r
            if m == 'lru':
                return LRU(base)
            if m == 'readcount':
                return ReadCounting(base)
            if m == 'proxyc':
                inner = PairsMapping(base.items())
                self.inner.append(inner)
                return types.MappingProxyType(inner)
            if m == 'chain':
                self.inner.append(base)
                return collections.ChainMap(base)
            raise ValueError('bad mapping type %r' % (m,))
        raise ValueError('bad value spec %r' % (vs,))


def snap(o, ids, seen=None):
    """Frozen structural description; with ids=True it also pins the identity of
    every object reachable from o (containers and leaves)."""
    i = id(o) if ids else 0
    if isinstance(o, LazyMapping):
        # look at what the view stores, not at the fresh children it hands out
        return ('M', type(o).__name__, i, tuple((snap(k, ids), snap(v, ids)) for k, v in o._pairs))
    if isinstance(o, collections.abc.Mapping):
        return ('M', type(o).__name__, i,
                tuple((snap(k, ids), snap(v, ids)) for k, v in o.items()))
    if isinstance(o, (list, tuple)):
        return ('L', type(o).__name__, i, tuple(snap(x, ids) for x in o))
    if isinstance(o, Duck):
        return ('D', i, snap(o._d, ids))
    if type(o).__repr__ is object.__repr__:
        return ('O', type(o).__name__, i)
    return ('V', type(o).__name__, i, repr(o))


def container_ids(o, acc):
    if isinstance(o, collections.abc.Mapping):
        acc.add(id(o))
        for k, v in (o._pairs if isinstance(o, LazyMapping) else o.items()):
            container_ids(v, acc)
    elif isinstance(o, (list, tuple)):
        acc.add(id(o))
        for x in o:
            container_ids(x, acc)
    return acc


def key_class(k):
    """'yes' / 'no' / 'dc' and the sanitize keys of MY_KEYS contained in lower(k)."""
    if not isinstance(k, str):
        return 'no', ()
    lo = str.lower(k)
    hit = [s for s in MY_KEYS if s in lo]
    if str.isascii(k):
        verdict = 'yes' if hit else 'no'
    else:
        cf = str.casefold(k)
        up = str.upper(k)
        b = any(s in cf for s in MY_KEYS)
        c = any(s in up for s in _MY_UPPER)
        if hit and b:
            # lower() and casefold() - the two standard notions of caseless matching - both find a sanitize key (e.g. the
            # Kelvin sign for "k"); that upper() does not map such a character back is no reason to leave the value unmasked
            verdict = 'yes'
        elif not hit and not b and not c:
            verdict = 'no'
        else:
            verdict = 'dc'
    if verdict == 'no' and _EXTRA and any(s in lo or s in str.casefold(k) for s in _EXTRA):
        verdict = 'dc'
    return verdict, hit


class _Stop(Exception):
    pass


def _vclass(v):
    if isinstance(v, collections.abc.Mapping):
        return 'mapping:' + type(v).__name__
    if isinstance(v, list):
        return 'list+dict' if any(isinstance(x, collections.abc.Mapping) for x in v) else 'list'
    return type(v).__name__


def check_level(ctx, strutils, case, arg, got, secret, arg_ids, st, path, level, custom):
    """Parallel walk of one mapping level of the argument and of the result."""
    def bad(clause, detail):
        detail = dict(detail)
        detail['path'] = path
        ctx.fail(clause, case, detail)
        raise _Stop()

    st['levels'] += 1
    st['depth'] = max(st['depth'], level)
    ctx.clause('result-new-plain-dict')
    if type(got) is not dict:
        bad('result-level-is-not-a-plain-dict', {'type': type(got).__name__, 'got': got})
    if got is arg or id(got) in arg_ids:
        bad('result-level-is-an-object-of-the-argument', {'got': got})
    items = list(arg.items())
    ctx.clause('same-keys')
    if len(got) != len(items):
        bad('key-set-differs', {'arg_keys': [k for k, _ in items], 'got_keys': list(got)})
    gkeys = {k: k for k in got}
    for k, v in items:
        if k not in gkeys or type(gkeys[k]) is not type(k):
            bad('key-set-differs', {'missing_or_retyped_key': k, 'got_keys': list(got)})
    for k, v in items:
        g = got[k]
        kc, hit = key_class(k)
        st['kc-' + kc] += 1
        for s in hit:
            ctx.h('sanitize keys contained in str keys', s)
        if isinstance(v, collections.abc.Mapping):
            ctx.clause('nested-mapping-processed')
            st['nested'] += 1
            if not isinstance(v, dict):
                ctx.clause('non-dict-mapping-nested')
            if kc == 'yes':
                ctx.clause('mapping-under-sensitive-key-recursed')
            if custom:
                ctx.clause('custom-secret-nested')
            check_level(ctx, strutils, case, v, g, secret, arg_ids, st, path + [repr(k)],
                        level + 1, custom)
            continue
        if kc == 'yes':
            ctx.clause('sensitive-key-masked')
            st['sensitive'] += 1
            ctx.h('value class under sensitive key', _vclass(v))
            if type(g) is not str or g != secret:
                bad('value-under-sensitive-key-not-replaced-by-mask',
                    {'key': k, 'value': v, 'got': g, 'mask': secret})
            continue
        # fall-through value rule
        if isinstance(v, str):
            try:
                want = strutils.mask_password(v, secret)
            except BaseException as e:  # noqa  (sub-oracle unavailable => no demand)
                ctx.clause('mask_password-suboracle-raised')
                continue
            ok = isinstance(g, str) and g == want
            if want != v:
                ctx.clause('string-changed-by-mask_password')
        else:
            want = v
            ok = g is v
        if kc == 'dc':
            ctx.clause('dont-care-key')
            if not ok and not (type(g) is str and g == secret):
                bad('dont-care-key-value-neither-masked-nor-passed-through',
                    {'key': k, 'value': v, 'got': g})
            continue
        if isinstance(k, str):
            if st.get('near'):
                ctx.clause('near-miss-key-not-masked')
        elif _carries_key_text(k):
            ctx.clause('nonstr-key-with-key-text-not-masked')
        ctx.h('value class under other key', _vclass(v))
        if isinstance(v, str):
            ctx.clause('string-through-mask_password')
            st['str'] += 1
            if not ok:
                bad('string-value-differs-from-mask_password',
                    {'key': k, 'value': v, 'got': g, 'want': want, 'mask': secret})
        else:
            ctx.clause('other-value-by-identity')
            if isinstance(v, list) and any(isinstance(x, collections.abc.Mapping) for x in v):
                ctx.clause('list-holding-dict-by-identity')
            if not ok:
                bad('other-value-not-returned-as-it-is',
                    {'key': k, 'value': v, 'got': g, 'equal': g == v,
                     'got_type': type(g).__name__})


def _carries_key_text(k):
    if isinstance(k, bytes):
        lo = k.lower()
        return any(s.encode() in lo for s in MY_KEYS)
    if isinstance(k, tuple):
        return any(key_class(x)[0] == 'yes' or _carries_key_text(x) for x in k)
    return False


def _evaluate_nomodes(ctx, case):
    from oslo_utils import strutils
    from vlib import callstyle
    strutils = callstyle.proxy(strutils)
    kind = case['kind']
    if kind == 'keylist':
        ctx.case(('keylist',))
        ctx.clause('key-list-cross-check')
        try:
            theirs = list(strutils._SANITIZE_KEYS)
        except BaseException as e:  # noqa
            ctx.fail('sanitize-key-list-unreadable', case, {'exc': e})
            return
        missing = [k for k in MY_KEYS if k not in theirs]
        extra = [k for k in theirs if k not in MY_KEYS]
        if missing:
            ctx.fail('sanitize-key-missing-from-repository-list', case, {'missing': missing})
        if extra:
            ctx.note('repository list has keys unknown to the property: %r (treated as DONT-CARE)' % extra)
        return

    # DONT-CARE zone for keys the repository knows and the property does not
    global _EXTRA_SRC
    try:
        src = tuple(strutils._SANITIZE_KEYS)
        if src != _EXTRA_SRC:
            _EXTRA_SRC = src
            _EXTRA[:] = [k for k in src if isinstance(k, str) and k not in MY_KEYS]
    except BaseException:  # noqa
        pass

    secret = case.get('secret')
    call = case.get('call', 'kw')
    b = Builder()
    arg = b.val(json.loads(case['spec']))
    twin = Builder().val(json.loads(case['spec']))
    pre = (snap(arg, True), tuple(snap(x, True) for x in b.inner))
    twin_c = snap(twin, False)
    arg_ids = container_ids(arg, set())
    for x in b.inner:
        container_ids(x, arg_ids)
    # ---- a first call on the same object that fails for reasons of the caller's own (its mapping raises once; it
    # passed secret=None): whatever that call did, the call that follows is judged like any other
    import zlib
    digest = zlib.crc32(case['spec'].encode())
    if b.flaky:
        for f in b.flaky:
            f.arm(1 + digest % 3)
        try:
            strutils.mask_dict_password(arg) if secret is None else strutils.mask_dict_password(arg, secret)
        except BaseException:  # noqa
            ctx.clause('retry-after-a-failed-call-on-the-same-object')
        for f in b.flaky:
            f.arm(None)
    elif digest % 7 == 0 and isinstance(arg, collections.abc.Mapping):
        try:
            strutils.mask_dict_password(arg, secret=None)
        except BaseException:  # noqa
            ctx.clause('retry-after-a-failed-call-on-the-same-object')
    def _audit(me):
        try:
            return repr(strutils.mask_dict_password({'section': 'database', 'values': me, 'password': 'pw-of-the-record'}))
        except BaseException as e:  # noqa
            return 'raised %s' % type(e).__name__
    for r in b.reentrant:
        r._hook = _audit
    try:
        if secret is None:
            got = strutils.mask_dict_password(arg)
        elif call == 'pos':
            got = strutils.mask_dict_password(arg, secret)
        else:
            got = strutils.mask_dict_password(arg, secret=secret)
        exc = None
    except BaseException as e:  # noqa
        got, exc = None, e
    for r in b.reentrant:
        r._hook = None
    for r in b.reentrant:
        if r.inner:
            # what the call made from inside returned is what the same call returns when made on its own
            ctx.clause('reentrant-call-from-the-callers-mapping-answers-as-alone')
            alone = _audit(r)
            if any(x != alone for x in r.inner):
                ctx.fail('reentrant-call-from-the-callers-mapping-answers-as-alone', case,
                         {'made_from_inside_the_outer_call': r.inner[0][:300], 'made_alone': alone[:300]})
                return
    mask = '***' if secret is None else secret
    custom = secret is not None and secret != '***'

    ismap = isinstance(arg, collections.abc.Mapping)
    key = (kind, case['spec'], secret, call)
    # ---- non-mutation (whatever the outcome)
    ctx.clause('argument-unmodified')
    post = (snap(arg, True), tuple(snap(x, True) for x in b.inner))
    if post != pre:
        ctx.case(key)
        ctx.fail('argument-content-or-identity-changed', case,
                 {'before': repr(pre)[:400], 'after': repr(post)[:400]})
        return
    ctx.clause('argument-equals-twin')
    if snap(arg, False) != twin_c:
        ctx.case(key)
        ctx.fail('argument-not-deep-equal-to-pre-call-copy', case, {'arg': repr(arg)[:400]})
        return

    if kind == 'nonmap':
        ctx.case(key)
        ctx.h('non-mapping argument', case.get('cls', type(arg).__name__))
        if case.get('dontcare'):
            ctx.clause('duck-typed-argument-dont-care')
            if exc is not None and not isinstance(exc, TypeError):
                ctx.fail('duck-typed-argument-unexpected-exception', case, {'exc': exc})
            return
        assert not ismap
        ctx.clause('non-mapping-TypeError')
        if not isinstance(exc, TypeError):
            ctx.fail('non-mapping-argument-must-raise-TypeError', case, {'got': got, 'exc': exc})
        return

    assert ismap, 'map case whose root is not a Mapping'
    st = collections.Counter()
    if case.get('near'):
        st['near'] = 1
    if custom:
        ctx.clause('custom-secret')
    if exc is not None:
        ctx.case(key)
        ctx.fail('mapping-argument-must-not-raise', case, {'exc': exc})
        return
    try:
        check_level(ctx, strutils, case, arg, got, mask, arg_ids, st, [], 1, custom)
    except _Stop:
        pass
    ctx.case(key, nontrivial=bool(st['sensitive'] or st['nested'] or st['str']))
    ctx.h('root mapping type', type(arg).__name__)
    ctx.h('depth', st['depth'])
    ctx.h('mask', repr(secret))
    ctx.h('case class', case.get('cls', '?'))
    for c in ('yes', 'no', 'dc'):
        if st['kc-' + c]:
            ctx.h('key verdicts', c, st['kc-' + c])
    ctx.extra['max mapping levels in one argument'] = max(
        ctx.extra.get('max mapping levels in one argument', 0), st['levels'])


from vlib import envmodes  # noqa: E402
evaluate = envmodes.with_modes(_evaluate_nomodes, warn=lambda case: True, debug=lambda case: True, share_debug=5)


# ----------------------------------------------------------------------
# generators
# ----------------------------------------------------------------------
PRE = ['x', 'my_', 'OS_', 'db.', '-', ' ', '1', 'é', 'X-', 'the', '__', 'old', 'A', '/']
SUF = ['_1', '2', 'X', ':', ' ', 's', '_old', '.v2', 'é', '-', '_id', '0', 'Z', '[0]']
PLAIN_KEYS = ['user', 'name', 'home-dir', 'home', 'id', 'host', 'port', 'pass', 'pwd', 'key', 'tok',
              'auth', 'admin', 'uuid', 'config', '', 'Secre', 'pass_word', 'p@ssword', 'pass word',
              'drowssap', 'nekot', 'nested', 'passwor', 'assword', 'toke', 'oken', 'ssl_key',
              'privatekey', 'admin-pass', 'authtoken', 'chap_secre', 'ｐａｓｓｗｏｒｄ',
              'PASS', 'Key', 'credential', 'cookie', 'fsid']
UNICODE_KEYS = ['to\u212aen', 'pa\u017f\u017fword', '\u017fecret', 'TO\u212aEN', 'configdr\u0130ve',
                'conf\u0131gdrive', 'ss\u2113key', 'pa\u00dfword', 's\u00e9cret',
                '\u043f\u0430\u0440\u043e\u043b\u044c_password', 'PASSWORD\u00e9', '\u00fcber_Token',
                'fernet\u212aey', 'SSL\u212aEY', 'my_\u017fecret_uuid', '\uff50\uff41\uff53\uff53word',
                '\u00e9_Secret', 'to\u212aen_password']
PLAIN_STRS = ['admin', '/home/admin', '', 'hello world', 'x=1', 'naïve ✓', 'd81juxmEW_', 'a b c',
              'user=bob', '10.0.0.1', 'True', 'None', '{}', 'pass=1', 'key: value', "it's", '"q"']
WORD_STRS = ['my password is here', 'token', 'secret', 'the admin_pass', 'PASSWORD', 'sslkey sslkey',
             'no token given', 'secret_uuid', 'configdrive']
SECRET_STRS = ['password=abc', '--password d81juxmEW_', "'adminPass' : 'aaaaa'", '<token>abc</token>',
               'auth_token = "xyz"', 'mysql://u:p@h/db?password=zzz', 'PASSWORD = topsecret and more',
               "{'admin_pass': 'x1'}", 'secret=s3 token=t0', 'sys_pswd = "p w"', '--os-password abc --x y',
               'user=bob password=hunter2 host=h', "u'original_password' : u'aaaaa'",
               'new_pass="a" admin_password=\'b\'', 'chappassword=ch4p', 'sslkey = -----BEGIN',
               'fernetkey=abc= rest', 'Token=AbC', 'configdrive=True']
BYTES_VALS = ['', '70617373776f72643d616263', '00ff', '746f6b656e', '7365637265743d78']
BYTES_KEYS = ['70617373776f7264', '746f6b656e', '00ff', '', '5345435245545f55554944', '6b', '61646d696e5f70617373']
INT_KEYS = [0, 1, -7, 2 ** 70, 42, 255, -1, 10 ** 9]


def letters_of(key):
    return [i for i, c in enumerate(key) if c.isalpha()]


def apply_mask(key, mask):
    """Upper-case the j-th letter of key when bit j of mask is set."""
    out = list(key)
    for j, i in enumerate(letters_of(key)):
        if (mask >> j) & 1:
            out[i] = out[i].upper()
    return ''.join(out)


def standard_variants(key):
    n = len(letters_of(key))
    full = (1 << n) - 1
    alt = sum(1 << j for j in range(0, n, 2))
    masks = [0, full, 1, alt, full ^ alt]
    masks += [1 << j for j in range(n)]              # one letter upper
    masks += [full ^ (1 << j) for j in range(n)]     # one letter lower
    seen, out = set(), []
    for m in masks:
        if m not in seen:
            seen.add(m)
            out.append(apply_mask(key, m))
    return out


def positions(text, i=0):
    p = PRE[i % len(PRE)]
    s = SUF[(i // 3) % len(SUF)]
    return [('alone', text), ('prefixed', p + text), ('suffixed', text + s), ('infixed', p + text + s)]


def near_misses(key):
    out = []
    n = len(key)
    for i in range(n):
        c = key[i]
        rep = '-' if c == '_' else ('y' if c == 'x' else 'x')
        out.append(('replace', key[:i] + rep + key[i + 1:]))
        out.append(('delete', key[:i] + key[i + 1:]))
        if i:
            out.append(('insert', key[:i] + '.' + key[i:]))
        if i + 1 < n and key[i] != key[i + 1]:
            out.append(('transpose', key[:i] + key[i + 1] + key[i] + key[i + 2:]))
    return out


def S(text):
    return ['str', text]


def small_map(mtype='dict', pw='password', val='pw1'):
    return ['map', mtype, [[['s', pw], S(val)], [['s', 'user'], S('admin')],
                           [['s', 'note'], S('token=abc')]]]


DIRECTED_VALUES = [
    S('d81juxmEW_'), S('password=abc'), ['int', 12345678901234567890], ['none'],
    ['list', [S('password=abc'), small_map(), ['int', 1]]], ['bytes', '70617373776f72643d616263'],
    small_map('custom'), S(''), ['float', 2.5], ['bool', True], ['tuple', [S('token=x'), small_map()]],
    small_map('proxy', 'Admin_Pass'), ['list', []], ['obj'], ['strsub', 'secret=zzz'],
    small_map('odict', 'plain'), ['bytearray', '7365637265743d78'], ['list', [['list', [small_map('dict', 'token')]]]],
    ['map', 'dict', []], small_map('chain'), small_map('ddict', 'SSLKEY'), small_map('proxyc', 'x_token_y'),
]


def directed_key_cases(ctx):
    """Flat mappings (width <= 5) whose keys walk through key x position x case."""
    quick = ctx.quick
    full_limit = 8 if quick else 10
    keys = []
    for ki, key in enumerate(MY_KEYS):
        variants = standard_variants(key)
        n = len(letters_of(key))
        if n <= full_limit:
            variants = [apply_mask(key, m) for m in range(1 << n)]
            ctx.exhaustive['all 2^n letter-case patterns x 4 positions of sanitize key %r' % key] = True
        for vi, text in enumerate(variants):
            for pos, k in positions(text, ki + vi):
                keys.append(('embedded/' + pos, k))
    ctx.exhaustive['35 keys x {alone,prefixed,suffixed,infixed} x {lower,UPPER,first-upper,alternating x2,'
                   'each single-letter flip}'] = True
    i = 0
    vi = 0
    mt = 0
    while i < len(keys):
        chunk = keys[i:i + 5]
        i += 5
        items = []
        for cls, k in chunk:
            items.append([['s', k], DIRECTED_VALUES[vi % len(DIRECTED_VALUES)]])
            vi += 1
        mt += 1
        yield dict(kind='map', cls='directed-embedded', secret=SECRETS[mt % 4],
                   call=('pos', 'kw')[mt % 2], spec=json.dumps(['map', MTYPES[mt % len(MTYPES)], items]))
    # near-misses: every key, every position in the key, four edit kinds
    near = []
    for ki, key in enumerate(MY_KEYS):
        for ei, (edit, text) in enumerate(near_misses(key)):
            for v in (text, text.upper(), apply_mask(text, 0b1010101010101)):
                near.append(v)
            near.append(positions(text, ki + ei)[1 + ei % 3][1])
    ctx.exhaustive['one-character replace/delete/insert/transpose at every position of every sanitize key'] = True
    i = 0
    nearvals = [S('v'), S('password=abc'), ['int', 7], ['none'], ['list', [small_map()]], ['bytes', '6162']]
    while i < len(near):
        chunk = near[i:i + 5]
        i += 5
        items = [[['s', k], nearvals[(i + j) % len(nearvals)]] for j, k in enumerate(chunk)]
        mt += 1
        yield dict(kind='map', cls='directed-near-miss', near=1, secret=SECRETS[mt % 3],
                   call='kw', spec=json.dumps(['map', MTYPES[mt % len(MTYPES)], items]))


def directed_misc_cases():
    pw = [['s', 'password'], S('d81juxmEW_')]
    rest = [[['s', 'user'], S('admin')], [['s', 'home-dir'], S('/home/admin')]]
    # the three docstring examples
    yield dict(kind='map', cls='docstring', secret='???', call='pos',
               spec=json.dumps(['map', 'dict', [pw] + rest]))
    yield dict(kind='map', cls='docstring', secret='???', call='pos',
               spec=json.dumps(['map', 'dict', [[['s', 'password'], S('--password d81juxmEW_')]] + rest]))
    yield dict(kind='map', cls='docstring', secret='???', call='pos',
               spec=json.dumps(['map', 'dict', [[['s', 'nested'], ['map', 'dict', [pw] + rest]]]]))
    # every mapping type at every level, sensitive and plain parents, every mask
    for combo in itertools.product(MTYPES, repeat=2):
        for si, secret in enumerate(SECRETS):
            for parent in ('nested', 'password', 'My_Token'):
                lvl4 = ['map', combo[si % 2], [[['s', 'SECRET'], ['int', 4]], [['s', 'plain'], S('token=t4')],
                                               [['i', 4], ['list', [small_map()]]]]]
                lvl3 = ['map', combo[1], [[['s', parent], lvl4], [['s', 'sslkey'], ['none']],
                                          [['s', 'cmd'], S('--password p3')]]]
                lvl2 = ['map', combo[0], [[['s', parent], lvl3], [['s', 'admin_pass'], S('a2')],
                                          [['b', '70617373776f7264'], S('b2')], [['s', 'k'], ['bytes', '6232']]]]
                root = ['map', combo[(si + 1) % 2], [[['s', parent], lvl2], [['s', 'user'], S('u1')],
                                                     [['s', 'x-auth_token'], ['list', [['int', 1]]]]]]
                yield dict(kind='map', cls='directed-types', secret=secret, call=('kw', 'pos')[si % 2],
                           spec=json.dumps(root))
    # non-str keys that carry key text; odd keys
    odd_keys = [['b', h] for h in BYTES_KEYS] + [['i', n] for n in INT_KEYS] + [
        ['t', [['s', 'password']]], ['t', [['s', 'a'], ['i', 1]]], ['t', []],
        ['t', [['s', 'token'], ['t', [['s', 'secret'], ['i', 2]]]]], ['t', [['b', '746f6b656e'], ['s', 'x']]],
        ['n'], ['f', 2.5], ['B', True], ['B', False], ['S', 'password'], ['S', 'plain'], ['S', 'X_SECRET_Y'],
        ['s', ''], ['f', -0.0]]
    vals = [S('password=abc'), S('plain'), ['int', 5], ['none'], ['list', [small_map()]], small_map('custom'),
            ['bytes', '70617373776f72643d616263'], ['obj']]
    for i, k in enumerate(odd_keys):
        for j, v in enumerate(vals):
            items = [[k, v], [['s', 'password'], vals[(j + 1) % len(vals)]], [['s', 'n'], vals[(j + 2) % len(vals)]]]
            yield dict(kind='map', cls='directed-odd-keys', secret=SECRETS[(i + j) % len(SECRETS)], call='kw',
                       spec=json.dumps(['map', MTYPES[(i + j) % len(MTYPES)], items]))
    # unicode keys (definite and DONT-CARE)
    for i, k in enumerate(UNICODE_KEYS):
        for j, v in enumerate(vals):
            yield dict(kind='map', cls='directed-unicode-keys', secret=SECRETS[(i + j) % len(SECRETS)], call='kw',
                       spec=json.dumps(['map', MTYPES[(i + j) % len(MTYPES)], [[['s', k], v], [['s', 'u'], S('x')]]]))
    # aliasing: one sub-mapping / one list reachable along several paths
    for mtype in MTYPES:
        shared = ['map', mtype, [[['s', 'password'], S('pw')], [['s', 'l'], ['list', [S('token=1')]]],
                                 [['s', 'deep'], ['map', 'custom', [[['s', 'Secret'], ['int', 1]]]]]]]
        root = ['map', 'dict', [[['s', 'a'], ['let', 'sh', shared]], [['s', 'b'], ['ref', 'sh']],
                                [['s', 'token'], ['ref', 'sh']], [['s', 'lst'], ['list', [['ref', 'sh']]]],
                                [['s', 'l1'], ['let', 'L', ['list', [['int', 1], S('password=q')]]]],
                                [['s', 'l2'], ['ref', 'L']], [['s', 'private_key'], ['ref', 'L']]]]
        for secret in (None, '???'):
            yield dict(kind='map', cls='directed-aliasing', secret=secret, call='kw', spec=json.dumps(root))
    # empty mappings
    for mtype in MTYPES:
        yield dict(kind='map', cls='directed-empty', secret=None, call='kw', spec=json.dumps(['map', mtype, []]))
        yield dict(kind='map', cls='directed-empty', secret='-', call='kw',
                   spec=json.dumps(['map', mtype, [[['s', 'password'], ['map', mtype, []]],
                                                   [['s', 'e'], ['map', mtype, []]]]]))
    # non-mapping arguments
    pairs = [[['s', 'password'], S('x')], [['s', 'u'], S('y')]]
    nonmaps = [['list', []], ['list', [small_map()]], ['list', [['tuple', [S('password'), S('x')]]]],
               ['tuple', []], ['tuple', [small_map()]], S('password=abc'), S(''), ['strsub', 'x'],
               ['bytes', '70617373776f72643d616263'], ['bytearray', '00'], ['int', 0], ['int', 7],
               ['float', 1.5], ['bool', True], ['none'], ['obj'], ['dictclass'],
               ['list', [['list', [S('password'), S('x')]]]]]
    for v in nonmaps:
        for secret in (None, '???'):
            yield dict(kind='nonmap', cls=v[0], secret=secret, call='kw', spec=json.dumps(v))
    yield dict(kind='nonmap', cls='duck', dontcare=1, secret=None, call='kw', spec=json.dumps(['duck', pairs]))
    for t in ('itemsonly', 'dictitems'):
        for secret in (None, '???'):
            yield dict(kind='nonmap', cls=t, secret=secret, call='kw', spec=json.dumps([t, pairs]))


def rand_case_variant(rng, text):
    k = rng.randrange(6)
    if k == 0:
        return text
    if k == 1:
        return text.upper()
    if k == 2:
        return text.title()
    n = len(letters_of(text))
    return apply_mask(text, rng.getrandbits(n) if n else 0)


def gen_key(rng):
    r = rng.random()
    if r < 0.34:
        text = rand_case_variant(rng, rng.choice(MY_KEYS))
        p = rng.randrange(4)
        if p == 1 or p == 3:
            text = rng.choice(PRE) + text
        if p == 2 or p == 3:
            text = text + rng.choice(SUF)
        return ['s', text]
    if r < 0.46:
        edit, text = rng.choice(near_misses(rng.choice(MY_KEYS)))
        text = rand_case_variant(rng, text)
        if rng.random() < 0.4:
            text = rng.choice(PRE) + text + rng.choice(SUF)
        return ['s', text]
    if r < 0.70:
        if rng.random() < 0.3:
            return ['s', ''.join(rng.choice('abcdefghijklmnopqrstuvwxyz_ST-') for _ in range(rng.randrange(1, 9)))]
        return ['s', rng.choice(PLAIN_KEYS)]
    if r < 0.74:
        return ['s', rng.choice(UNICODE_KEYS)]
    if r < 0.76:
        return ['S', rng.choice(['password', 'plain', 'Auth_Token', 'k'])]
    if r < 0.84:
        return ['i', rng.choice(INT_KEYS + [rng.randrange(-50, 50)])]
    if r < 0.91:
        return ['b', rng.choice(BYTES_KEYS)]
    if r < 0.98:
        n = rng.randrange(0, 3)
        parts = []
        for _ in range(n):
            q = rng.randrange(4)
            parts.append([['s', rng.choice(['password', 'a', 'token', 'x'])], ['i', rng.randrange(9)],
                          ['b', rng.choice(BYTES_KEYS)], ['t', [['s', 'secret']]]][q])
        return ['t', parts]
    return [['n'], ['f', 2.5], ['B', True], ['B', False]][rng.randrange(4)]


def gen_str(rng):
    r = rng.random()
    if r < 0.45:
        if rng.random() < 0.5:
            return rng.choice(SECRET_STRS)
        key = rand_case_variant(rng, rng.choice(MY_KEYS))
        sec = ''.join(rng.choice('abcXYZ019_-') for _ in range(rng.randrange(1, 8)))
        form = rng.randrange(5)
        return [key + '=' + sec, '--' + key + ' ' + sec, "'" + key + "' : '" + sec + "'",
                '<' + key + '>' + sec + '</' + key + '>', 'pre ' + key + ' = "' + sec + '" post'][form]
    if r < 0.6:
        return rng.choice(WORD_STRS)
    return rng.choice(PLAIN_STRS)


def gen_scalar(rng):
    r = rng.random()
    if r < 0.40:
        return S(gen_str(rng))
    if r < 0.50:
        return ['bytes', rng.choice(BYTES_VALS)]
    if r < 0.64:
        return ['int', rng.choice([0, 1, -1, 12345, 2 ** 64 + 3, rng.getrandbits(80), 257, 10 ** 6])]
    if r < 0.72:
        return ['float', rng.choice([0.0, 1.5, -2.25, 1e300, 3.14159])]
    if r < 0.82:
        return ['none']
    if r < 0.88:
        return ['bool', rng.random() < 0.5]
    if r < 0.92:
        return ['obj']
    if r < 0.95:
        return ['bytearray', rng.choice(BYTES_VALS)]
    return ['strsub', gen_str(rng)]


def gen_flat_map(rng, mtype=None):
    items = [[gen_key(rng), gen_scalar(rng)] for _ in range(rng.randrange(0, 4))]
    return ['map', mtype or rng.choice(MTYPES), items]


def gen_list(rng, depth=0):
    kind = 'list' if rng.random() < 0.8 else 'tuple'
    out = []
    for _ in range(rng.randrange(0, 4)):
        r = rng.random()
        if r < 0.4:
            out.append(gen_flat_map(rng))
        elif r < 0.55 and depth < 2:
            out.append(gen_list(rng, depth + 1))
        else:
            out.append(gen_scalar(rng))
    return [kind, out]


WIDTHS = [0, 1, 1, 2, 2, 2, 3, 3, 3, 4, 4, 5, 5]


def gen_map(rng, levels_left, p_map):
    items = []
    for _ in range(rng.choice(WIDTHS)):
        r = rng.random()
        if levels_left > 1 and r < p_map:
            v = gen_map(rng, levels_left - 1, p_map)
        elif r < p_map + 0.14:
            v = gen_list(rng)
        else:
            v = gen_scalar(rng)
        items.append([gen_key(rng), v])
    mtype = 'dict' if rng.random() < 0.3 else rng.choice(MTYPES)
    return ['map', mtype, items]


def run(ctx):
    idx = 0

    def emit(case):
        nonlocal idx
        idx += 1
        if ctx.mine(idx):
            ctx.sample(case.get('cls', case['kind']), case)
            evaluate(ctx, case)

    # every worker cross-checks the key list first (it also fills the DONT-CARE zone)
    evaluate(ctx, dict(kind='keylist'))
    for case in directed_misc_cases():
        emit(case)
    for case in directed_key_cases(ctx):
        emit(case)
    # random part: blocks of BLOCK cases, one rng stream per block, so that the case set does not
    # depend on the number of workers and a worker only generates its own blocks
    n = ctx.pick(30000, 4000000)
    for block in range(n // BLOCK):
        if not ctx.mine(block):
            continue
        rng = ctx.rng('maps/%d' % block)
        for i in range(BLOCK):
            case = random_case(rng, i)
            ctx.sample('random', case)
            evaluate(ctx, case)


BLOCK = 500


def random_case(rng, i):
    p_map = (0.18, 0.3, 0.45)[i % 3]
    spec = gen_map(rng, 4, p_map)
    if i % 7 == 0:       # deep chains: force a path of 4 levels through assorted parents
        chain = gen_map(rng, 1, 0)
        for lv in range(3):
            parent = gen_map(rng, 1, 0)
            parent[2] = parent[2][:4] + [[gen_key(rng), chain]]
            chain = parent
        spec = chain
    secret = rng.choice(SECRETS) if i % 2 else None
    return dict(kind='map', cls='random', secret=secret, call=('kw', 'pos')[(i // 2) % 2],
                spec=json.dumps(spec))


LEVEL_TEXT = ('Exploration with a reference model: nested mappings are built from JSON specifications; an '
              'independent recursive walk decides for every value whether it must be the mask, '
              'mask_password(value), a recursively processed new dict, or the very same object; the '
              'argument is compared with an identity-carrying pre-call snapshot and with an independently '
              'built twin. Key x position x case and one-character near-miss grids are enumerated; nesting, '
              'widths, mapping types, key and value kinds are sampled.')
LEVEL_NOTE = ('Trusted: the 35-key list copied from the property (cross-checked against the repository list), '
              'str.lower/casefold/upper for case-insensitive containment, and strutils.mask_password (property '
              'C04) as sub-oracle for plain string values. Not asserted: key order, identity of str results, '
              'keys with ambiguous non-ASCII case mappings, cyclic arguments, duck-typed non-Mapping arguments.')
TECHNIQUE = 'reference-model monitor (independent recursive walk + identity snapshot) over constructive generators'
