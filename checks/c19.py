"""C19 split_path / split_by_commas honour their contracts for every input.

Reference-model monitor.  split_path: paths are composed from a known segment
list (lead + '/'.join(segs) + trail), so for the clear classes the verdict and
the returned list follow from the components alone; the rest is decided by an
independent reference splitter (vlib/models/splitters.py) that implements both
readings the statement allows for a trailing slash.  split_by_commas: item
lists are quoted and joined by our own quoting function and must come back
unchanged; malformed quoting patterns are built by damaging a well-formed text
and must raise ValueError.
"""
import itertools

from vlib.models.splitters import (DONT_CARE, REJECT, join_items, must_quote, quote_item,
                                   ref_split_commas, split_path_answers)

PROPERTY = 'C19'
LEVEL = 'exploration'
ANCHORS = [('oslo_utils.strutils', 'split_path'),
           ('oslo_utils.strutils', 'split_by_commas')]
RULE = ('split_path: directed corpus (docstring examples, boundaries), complete enumeration of segment-class '
        'sequences of 0..K segments over {plain, empty, ".", "..", spaced, unicode} x leading slash yes/no x '
        'trailing slash yes/no x minsegs 1..4 x maxsegs {None, 0, min-1..min+2} x rest_with_last, complete '
        'enumeration of empty/non-empty shapes up to 7 segments, then seeded sampling of 4..7 segments with quotas '
        'per oracle class; distinct by (path, minsegs, maxsegs, rest_with_last). split_by_commas: complete '
        'enumeration of pairs of items of length <= 2 over {comma, quote, backslash, space, a, n} and triples of '
        'length <= 1, seeded lists of 1..5 items over printable ASCII, damaged texts per malformation type; '
        'distinct by text')
REQUIRED_CLAUSES = ['equal-valued-arguments-in-any-order', 'str-subclass-answered-as-its-characters', 'valid-calls-after-rejected-calls-answer-as-before', 'under-pyparsing-inline-literals-suppressed', 'path-flag-by-truth-value', 'path-under-warnings-as-errors', 'malformed-quoting-rejected-in-bounded-work', 'path-history-independent', 'concurrent-calls-answer-as-alone', 'under-lazy-translation', 'path-keyword-call', 'path-must-accept', 'path-must-reject', 'path-min-gt-max', 'path-no-leading-slash',
                    'path-empty-leading-segment', 'path-trailing-slash', 'path-rest-with-last',
                    'path-none-padding', 'path-dont-care-shape', 'path-result-shape',
                    'commas-round-trip', 'commas-return-type', 'commas-must-reject', 'commas-dont-care']
ASSUMPTIONS = ['a trailing slash may either count as a present empty segment or be dropped before counting: '
               'both answers are accepted ("" or None in that slot; remainder with or without the final "/")',
               'maxsegs=0, and empty segments beyond the first minsegs, are not pinned by the statement: '
               'ValueError or a well-formed list are both accepted (a returned list must still be one of the '
               'reference answers for the empty-segment case)',
               'rest_with_last with maxsegs == minsegs and an empty minsegs-th piece followed by more text (remainder '
               'starts with a slash, e.g. "/a//b", 2, 2, True) is a DONT-CARE zone delimited by the input-only '
               'predicate k_rest_empty_applies: ValueError or exactly pieces[:minsegs-1] + [remainder], nothing else',
               'items containing a single quote are double-quoted too; white space, backslashes outside quotes and '
               'escapes other than \\\\ and \\" are DONT-CARE for split_by_commas']
INTERPRETER_FLAGS = [[], ['-O'], ['-X', 'dev'], ['-bb']]
CONCURRENT = lambda case: case.get('kind') not in ('twins', 'starved') and case.get('cls') != 'long'         # pure functions of their arguments; see vlib/concurrent.py
SHARDS = {'quick': 4, 'thorough': 16}

SEG_CLASSES = ['plain', 'empty', 'dot', 'dotdot', 'spaced', 'unicode']
PLAIN_POOL = ['a', 'c', 'o', 'r', 'v1', 'acct', 'cont', 'obj', 'X', '0', 'a-b', 'a_b', '%2F', '~u', 'a.b',
              'AUTH_test', 'x=y', 'q?r', '#', 'a,b', '"', "'", '\\', 'None']
SPACED_POOL = ['a b', ' ', ' a', 'a ', '\t', 'a\nb', 'x  y']
UNICODE_POOL = ['é', '日本', 'über', 'абв', '\U0001f600', 'á',
                '∕', '／']      # the last two look like slashes but are not


def seg_for(cls, pos, rng=None):
    """A segment of the given class; position-dependent so that order mistakes show."""
    if cls == 'empty':
        return ''
    if cls == 'dot':
        return '.'
    if cls == 'dotdot':
        return '..'
    if rng is None:
        if cls == 'plain':
            return 'abcdefgh'[pos]
        if cls == 'spaced':
            return 'x y%d' % pos
        return 'é%d' % pos
    if cls == 'plain':
        return rng.choice(PLAIN_POOL)
    if cls == 'spaced':
        return rng.choice(SPACED_POOL)
    return rng.choice(UNICODE_POOL)


def path_of(case):
    if 'path' in case:
        return case['path']
    return case['lead'] + '/'.join(case['segs']) + case['trail']


def k_rest_empty_applies(path, minsegs, maxsegs, rest):
    """Input-only predicate of a DONT-CARE zone: with rest_with_last and maxsegs == minsegs the last required
    entry is "the remainder"; when the minsegs-th piece is empty but more text follows, the remainder
    ('/b' for '/a//b', 2, 2, True) is non-empty and the statement does not clearly pin the verdict.
    Returns the only list acceptable there, or None when the predicate is false."""
    if not rest or maxsegs == 0 or (maxsegs or minsegs) != minsegs or path[:1] != '/':
        return None
    pieces = path[1:].split('/')
    if len(pieces) <= minsegs or pieces[minsegs - 1] != '' or '' in pieces[:minsegs - 1]:
        return None
    return pieces[:minsegs - 1] + ['/'.join(pieces[minsegs - 1:])]


def classify_path(case):
    """(class, answers).  answers: list of acceptable outcomes (lists / REJECT), or DONT_CARE."""
    minsegs, maxsegs, rest = case['minsegs'], case['maxsegs'], case['rest']
    path = path_of(case)
    if maxsegs == 0:
        return 'maxsegs-0', DONT_CARE
    eff = minsegs if maxsegs is None else maxsegs
    if minsegs > eff:
        return 'min>max', [REJECT]
    zone = k_rest_empty_applies(path, minsegs, maxsegs, rest)
    if zone is not None:
        return 'rest-remainder-starts-with-slash', [zone, REJECT]
    ref = split_path_answers(path, minsegs, maxsegs, rest)
    if 'segs' not in case:
        return 'directed', ref
    segs, lead, trail = case['segs'], case['lead'], case['trail']
    n = len(segs)
    # ---- answers known from the components alone
    if lead == '' and segs and segs[0] != '':
        return 'no-leading-slash', [REJECT]
    if lead == '/' and trail in ('', '/'):
        if '' in segs[:minsegs]:
            return 'empty-in-first-minsegs', [REJECT]
        if n < minsegs:
            return 'too-few', [REJECT]
        if '' not in segs and trail == '':
            if n <= eff:
                return ('exact' if n == eff else 'padded'), [segs + [None] * (eff - n)]
            if rest:
                return 'rest', [segs[:eff - 1] + ['/'.join(segs[eff - 1:])]]
            return 'too-many', [REJECT]
        if '' in segs:
            return 'empty-beyond-minsegs', ref + ([REJECT] if REJECT not in ref else [])
        return 'trailing-slash' + ('+rest' if rest else ''), ref
    return 'other', ref


def eval_path(ctx, case):
    from oslo_utils import strutils
    minsegs, maxsegs, rest = case['minsegs'], case['maxsegs'], case['rest']
    path = path_of(case)
    cls, answers = classify_path(case)
    # self-check of the oracle: component-derived answers must be among the reference's
    if answers is not DONT_CARE and cls not in ('directed', 'other', 'min>max', 'rest-remainder-starts-with-slash'):
        ref = split_path_answers(path, minsegs, maxsegs, rest)
        if not all(a in ref or (a == REJECT and cls == 'empty-beyond-minsegs') for a in answers):
            ctx.inconclusive_because('oracle self-check: components %r vs reference %r for %r' % (
                answers, ref, case))
            return
    if 'want' in case:              # documented example: the literal answer
        answers = [case['want']]
    rest_arg = rest
    if case.get('flag_style'):
        # rest_with_last as any true / false value (1, 2, 'yes', a non-empty list / 0, None, '', []): a flag is judged by
        # its truth value
        rest_arg = {'int': 1 if rest else 0, 'two': 2 if rest else 0, 'str': 'yes' if rest else '', 'list': ['x'] if rest else [],
                    'none': True if rest else None}[case['flag_style']]
        ctx.clause('path-flag-by-truth-value')
    try:
        if case.get('defaults'):    # call with the default arguments
            got = strutils.split_path(path)
        elif case.get('kw'):
            ctx.clause('path-keyword-call')
            if (minsegs + (maxsegs or 0) + len(path)) % 2:
                got = strutils.split_path(path=path, minsegs=minsegs, maxsegs=maxsegs, rest_with_last=rest_arg)
            else:
                got = strutils.split_path(path, minsegs=minsegs, maxsegs=maxsegs, rest_with_last=rest_arg)
        else:
            got = strutils.split_path(path, minsegs, maxsegs, rest_arg)
        exc = None
    except BaseException as e:  # noqa
        got, exc = None, e
    outcome = 'returned' if exc is None else type(exc).__name__
    ctx.case(('path', path, minsegs, maxsegs, rest), nontrivial=not (cls == 'exact' and len(case['segs']) == 1))
    ctx.h('split_path class x outcome', '%s/%s' % (cls, outcome))
    ctx.h('split_path segments', str(len(case['segs'])) if 'segs' in case else 'literal')
    detail = {'path': path, 'minsegs': minsegs, 'maxsegs': maxsegs, 'rest_with_last': rest,
              'got': got, 'exc': exc, 'acceptable': answers, 'class': cls}
    if exc is not None and not isinstance(exc, ValueError):
        ctx.fail('path-unexpected-exception-type', case, detail)
        return
    if exc is None and cls != 'min>max':
        # whatever the class: a return value is a list/tuple of maxsegs entries, each a str or None
        ctx.clause('path-result-shape')
        lens = (0, minsegs) if maxsegs == 0 else ((minsegs,) if maxsegs is None else (maxsegs,))
        if (not isinstance(got, (list, tuple)) or len(got) not in lens or
                not all(x is None or isinstance(x, str) for x in got)):
            ctx.fail('path-result-shape', case, detail)
            return
    if answers is DONT_CARE:
        ctx.clause('path-dont-care-shape')
        return
    if cls == 'min>max':
        ctx.clause('path-min-gt-max')
    elif cls == 'no-leading-slash':
        ctx.clause('path-no-leading-slash')
    elif cls == 'empty-in-first-minsegs':
        ctx.clause('path-empty-leading-segment')
    if answers == [REJECT]:
        ctx.clause('path-must-reject')
        if exc is None:
            ctx.fail('path-must-raise-ValueError', case, detail)
        return
    if REJECT not in answers:
        ctx.clause('path-must-accept')
        if exc is not None:
            ctx.fail('path-must-not-raise', case, detail)
            return
    else:
        ctx.clause('path-dont-care-shape')
        if cls == 'rest-remainder-starts-with-slash':
            ctx.h('dontcare: rest_with_last remainder starts with slash', outcome)
        if exc is not None:
            return
    if cls.startswith('trailing-slash'):
        ctx.clause('path-trailing-slash')
    if rest and cls in ('rest', 'trailing-slash+rest', 'directed', 'empty-beyond-minsegs'):
        ctx.clause('path-rest-with-last')
    lists = [a for a in answers if a != REJECT]
    if any(None in a for a in lists):
        ctx.clause('path-none-padding')
    if list(got) not in lists:
        ctx.fail('path-result', case, detail)
    elif isinstance(got, list):
        # the returned list belongs to the caller: consuming / editing it does not show in the answer to the same
        # question asked again
        ctx.clause('path-history-independent')
        first = list(got)
        if got:
            got.pop()
        got.insert(0, 'consumed-by-caller')
        try:
            if case.get('defaults'):
                again = strutils.split_path(path)
            else:
                again = strutils.split_path(path, minsegs, maxsegs, rest)
        except BaseException as e:  # noqa
            again = e
        if not isinstance(again, (list, tuple)) or list(again) != first:
            ctx.fail('path-history-independent', case, {'path': path, 'first_call': first, 'second_call': again})


# ---------------------------------------------------------------------------
HOT = [',', '"', '\\', ' ', 'a', 'n']
ASCII = ''.join(chr(c) for c in range(0x20, 0x7f))
SAFE = ''.join(ch for ch in ASCII if ch not in ',"\\ \'')
WORD = 'abcXYZ019_-.:/=+*~'


def features(items):
    f = ''
    text = ''.join(items)
    if ',' in text:
        f += 'c'
    if '"' in text:
        f += 'q'
    if '\\' in text:
        f += 'b'
    if ' ' in text:
        f += 's'
    if '' in items:
        f += 'e'
    return f or 'plain'   # c comma, q quote, b backslash, s space, e empty item


def eval_commas(ctx, case):
    from oslo_utils import strutils
    kind = case['kind']
    if kind == 'commas':
        # (an item may be given as {'unit': ',', 'n': 9999}: that many repetitions, kept short in the case)
        items = [x['unit'] * x['n'] if isinstance(x, dict) else x for x in case['items']]
        text = join_items(items)
        want = items
        cls = features(items)
        if ref_split_commas(text) != items:
            ctx.inconclusive_because('oracle self-check: reference reader does not invert join for %r' % (items,))
            return
    else:
        text = case['text']
        cls = case['cls']
        want = ref_split_commas(text)
        if kind == 'commas-bad' and want != REJECT:
            # the damage accidentally produced something else: decided by the reference reader
            cls += '(dont-care)' if want == DONT_CARE else '(well-formed)'
        if kind == 'commas-dc':
            want = DONT_CARE
    try:
        got = strutils.split_by_commas(text)
        exc = None
    except BaseException as e:  # noqa
        got, exc = None, e
    outcome = 'returned' if exc is None else type(exc).__name__
    ctx.case(('commas', text))
    if kind == 'commas':
        ctx.h('split_by_commas list length', str(len(items)))
    ctx.h('split_by_commas class x outcome', '%s/%s' % (cls if kind != 'commas' else 'round-trip ' + cls, outcome))
    detail = {'text': text, 'got': got, 'exc': exc, 'want': want}
    if exc is not None and not isinstance(exc, ValueError):
        ctx.fail('commas-unexpected-exception-type', case, detail)
        return
    if exc is None:
        ctx.clause('commas-return-type')
        if type(got) is not list or not all(type(x) is str for x in got):
            ctx.fail('commas-return-type', case, detail)
            return
    if want is DONT_CARE or want == DONT_CARE:
        ctx.clause('commas-dont-care')
        return
    if want == REJECT:
        ctx.clause('commas-must-reject')
        if exc is None:
            ctx.fail('commas-must-raise-ValueError', case, detail)
        return
    ctx.clause('commas-round-trip')
    if exc is not None:
        ctx.fail('commas-must-not-raise', case, detail)
    elif got != want:
        ctx.fail('commas-round-trip', case, detail)
    else:
        # call history: what the caller does with a returned list must not show in a later answer
        ctx.clause('commas-history-independent')
        got.append('edited-by-caller')
        got.sort()
        if got:
            got.pop(0)
        try:
            again = strutils.split_by_commas(text)
        except BaseException as e:  # noqa
            again = e
        if again != want:
            ctx.fail('commas-history-independent', case, {'text': text, 'second_call': again, 'want': want})


def eval_growth(ctx, case):
    """Bounded progress for rejecting malformed quoting, decided on growth rather than on a deadline: the CPU time of the
    call (time.process_time of this process, not wall time) is measured for bodies of 8, 10, 12 ... plain characters.
    Rejection that takes a constant factor longer for every two more characters, three steps in a row, up to more than a
    second, is exponential work on a 30-character input - the call would not return in any caller's lifetime for 60.
    The ladder stops at the first call above 1.5 s, so the check itself always terminates."""
    import time
    from oslo_utils import strutils
    family = case['family']
    times = []
    for L in range(8, 41, 2):
        body = ('x' * L)
        text = {'unclosed-quote': 'a,"' + body, 'text-after-closing-quote': '"' + body + '"b,c',
                'unclosed-quote-with-escapes': 'a,"' + ('x\\"' * (L // 3 + 1))[:L],
                'quote-in-the-middle': body + '"' + body}[family]
        best = None
        for _rep in range(2):
            t0 = time.process_time()
            try:
                strutils.split_by_commas(text)
                outcome = 'returned'
            except ValueError:
                outcome = 'ValueError'
            except BaseException as e:  # noqa
                outcome = type(e).__name__
            dt = time.process_time() - t0
            best = dt if best is None else min(best, dt)
            if dt > 1.5:
                break
        times.append((L, best, outcome))
        if best > 1.5:
            break
    ctx.case(('growth', family))
    ctx.clause('malformed-quoting-rejected-in-bounded-work')
    ctx.h('split_by_commas growth ladder', '%s: %d steps, slowest %.3fs' % (family, len(times), max(t for _l, t, _o in times)))
    floor = 5e-4
    steps = [(b[1] + floor) / (a[1] + floor) for a, b in zip(times, times[1:])]
    if times[-1][1] > 1.0 and len(steps) >= 3 and all(r >= 2.0 for r in steps[-3:]):
        ctx.fail('malformed-quoting-rejected-in-bounded-work', case,
                 {'family': family, 'cpu_seconds_by_body_length': [[l, round(t, 4)] for l, t, _o in times],
                  'growth_per_two_characters': [round(r, 1) for r in steps]})


from vlib import envmodes as _em  # noqa: E402


def evaluate(ctx, case):
    if case.get('kind') == 'growth':
        return eval_growth(ctx, case)
    if case.get('kind') == 'path' and case.get('warnings_as_errors') and not _em.MODES_OFF[0]:
        # (split_path only: pyparsing itself warns about deprecated names while split_by_commas builds its grammar)
        from vlib import envmodes
        ctx.clause('path-under-warnings-as-errors')
        with envmodes.warnings_as_errors():
            return _evaluate_modes(ctx, case)
    return _evaluate_modes(ctx, case)


def _evaluate_modes(ctx, case):
    if case.get('lazy_i18n') and not _em.MODES_OFF[0]:
        from vlib import envmodes
        ctx.clause('under-lazy-translation')
        with envmodes.lazy_i18n():
            return _evaluate(ctx, case)
    return _evaluate(ctx, case)


def eval_starved(ctx, case):
    """A well-formed value split from a call depth close to the interpreter's recursion limit (a deeply nested caller):
    the items come back, or RecursionError does - ValueError is reserved for malformed values."""
    from oslo_utils import strutils
    from vlib import envmodes
    items = case['items']
    text = join_items(items)
    strutils.split_by_commas('warm,up')            # (the deferred import of pyparsing has happened before the squeeze)
    got, exc = envmodes.call_at_depth(lambda: strutils.split_by_commas(text), case['headroom'])
    ctx.case(('starved', text, case['headroom']))
    ctx.clause('commas-under-recursion-pressure')
    ctx.h('split_by_commas near the recursion limit', 'RecursionError' if isinstance(exc, RecursionError) else
          ('answered' if exc is None else type(exc).__name__))
    if isinstance(exc, RecursionError):
        return
    if exc is not None or got != items:
        ctx.fail('commas-under-recursion-pressure', case, {'text': text, 'headroom': case['headroom'], 'got': got, 'exc': exc})


def _evaluate(ctx, case):
    if case['kind'] == 'path':
        eval_path(ctx, case)
    elif case['kind'] == 'starved':
        eval_starved(ctx, case)
    elif case['kind'] == 'twins':
        eval_twins(ctx, case)
    else:
        eval_commas(ctx, case)


def eval_twins(ctx, case):
    """The same characters handed over as other str objects, in several orders (vlib/twins.py): a case-insensitive str
    subclass after another spelling of its letters, a str subclass without __hash__."""
    from oslo_utils import strutils
    from vlib import twins
    text = case['text']
    ctx.case(('twins', case['f'], text, case.get('minsegs'), case.get('maxsegs'), case.get('rest')))
    if case['f'] == 'split_path':
        a = (case['minsegs'], case['maxsegs'], case['rest'])
        calls = [('split_path(%s)' % label, lambda v=v: strutils.split_path(v, *a)) for label, v in twins.text_twins(text)]
        plain = 'split_path(str)'
    else:
        calls = [('split_by_commas(%s)' % label, lambda v=v: strutils.split_by_commas(v)) for label, v in twins.text_twins(text)]
        plain = 'split_by_commas(str)'
    first = twins.order_independence(ctx, 'equal-valued-arguments-in-any-order', case, calls)
    twins.as_characters(ctx, 'str-subclass-answered-as-its-characters', case, first, plain=plain,
                        same=(plain.replace('(str)', '(ci-same)'), plain.replace('(str)', '(eq-without-hash)')))


# ---------------------------------------------------------------------------
def maxsegs_options(minsegs):
    out = [None, 0]
    for m in range(minsegs - 1, minsegs + 3):
        if m not in out:
            out.append(m)
    return out


def random_item(rng):
    k = rng.randrange(8)
    ln = rng.choice([0, 1, 1, 2, 3, 4, 6, 9])
    if k < 2:
        return ''.join(rng.choice(SAFE) for _ in range(max(1, ln)))
    if k < 4:
        return ''.join(rng.choice(ASCII) for _ in range(ln))
    if k < 6:
        return ''.join(rng.choice(HOT + ['t', "'"]) for _ in range(ln))
    if k == 6:
        return ''.join(rng.choice(WORD + ',"\\ ') for _ in range(ln))
    return rng.choice(['', ' ', ',', '"', '\\', '\\\\', '""', '\\"', '"\\', ',,', ' , ', '\\n', '\\t', 'a,b',
                       'a b', '"a"', 'a"b', 'a\\b', "it's", ' lead', 'trail ', '\\,', ',"', '",'])


def damaged(rng, how):
    """A text that violates the quoting rules in the named way (built from well-formed tokens)."""
    items = [random_item(rng) for _ in range(rng.randrange(1, 5))]
    toks = [quote_item(i) if must_quote(i) else i for i in items]
    word = ''.join(rng.choice(WORD) for _ in range(rng.randrange(1, 4)))
    p = rng.randrange(len(toks))
    if how == 'empty-unquoted-middle':
        toks.insert(rng.randrange(1, len(toks) + 1) if len(toks) > 1 else 1, '')
        toks.append(word)
    elif how == 'trailing-comma':
        toks.append('')
    elif how == 'blank-only-item':
        toks = [t for t in toks if '"' not in t and t.strip()] or [word]     # quote-free value
        toks.insert(rng.randrange(len(toks) + 1), rng.choice([' ', '  ', '\t', ' \t ']))
    elif how == 'leading-comma':
        toks.insert(0, '')
    elif how == 'unbalanced-open':
        toks[p] = '"' + word if rng.random() < 0.5 or not toks[p].startswith('"') else toks[p][:-1]
    elif how == 'unbalanced-close':
        toks[p] = word + '"'
    elif how == 'text-after-closing-quote':
        toks[p] = quote_item(items[p]) + word
    elif how == 'quote-inside-unquoted':
        toks[p] = word + quote_item(items[p])
    elif how == 'adjacent-quoted':
        toks[p] = quote_item(items[p]) + quote_item(word)
    elif how == 'lone-backslash-at-end-of-quoted':
        toks[p] = quote_item(items[p])[:-1] + '\\"'
    return ','.join(toks)


DAMAGE = ['blank-only-item', 'empty-unquoted-middle', 'trailing-comma', 'leading-comma', 'unbalanced-open', 'unbalanced-close',
          'text-after-closing-quote', 'quote-inside-unquoted', 'adjacent-quoted',
          'lone-backslash-at-end-of-quoted']

BAD_LITERALS = [' ', 'a, ,b', 'a, ', ' ,a', 'a,\t,b', '', ',', ',,', 'a,,b', 'a,', ',a', 'a,b,', ',a,b', '"a', 'a"', '"', '"a,b', 'a,"b', '"a",b"',
                'a"b"', '"a"b', '"a""b"', '"a"b,c', 'a,"b"c', 'a,b"c"', '"a\\"', '"\\"', 'a,"b\\"', '"a\\",b',
                '""""', '"""', '"",', ',""', '"a",,"b"', 'a"b', 'a"b,c"d']
GOOD_LITERALS = [['a'], ['a', 'b'], ['a', 'b', 'c'], [''], ['', ''], ['a', ''], ['', 'a'], ['a,b'], ['a,b', 'c'],
                 ['a b'], [' '], [' a '], ['"'], ['""'], ['a"b'], ['\\'], ['\\\\'], ['\\"'], ['"\\'], ['a\\b'],
                 ['\\n'], ['\\t', 'x'], ['a\\nb'], [','], [',,'], ['",'], [',"'], ['","'], ['a', 'b c', 'd,e', 'f"g'],
                 ["it's"], ['x=y', 'k:v', 'a/b'], ['1', '2', '3', '4', '5'], ['key=val ue', '"quoted"']]
DC_LITERALS = ['a b', ' a', 'a ', 'a , b', '"a" , "b"', ' "a"', '"a" ', 'a\\b', 'a\\', '\\', 'a\tb', '"a\tb"',
               '"a\nb"', 'a\nb', '"\\x"', '"\\n"', '"a\\,b"', ' ', 'a, ', ' ,a', 'é', '"é"', 'a\\,b']



HAMMER_BUDGET = 12.0        # pyparsing is slow: more library time so that the threads meet inside it often enough


def REJECTED_FUNCS(ctx):
    from oslo_utils import strutils
    return [strutils.split_path, strutils.split_by_commas]


def HAMMER(ctx):
    from oslo_utils import strutils
    out = []
    for v in ('one', 'x,y,z', 'a,"b,c",d', '"q\\"uote",plain', 'k1=v1,k2=v2,k3=v3', '', '"open', 'a b,c', '1,2,3,4,5,6,7,8,9'):
        out.append(('split_by_commas(%r)' % v, lambda t=v: strutils.split_by_commas(t)))
    for a in (('/a/c/o', 1, 3, True), ('/a', 1, 2, False), ('/v1/acct/cont', 2, 3, False), ('/a/c/o/x/y', 1, 3, True),
              ('a/c', 1, 2, False), ('/a//o', 1, 3, False), ('/v1/a/c/o', 1, 4, True)):
        out.append(('split_path%r' % (a,), lambda t=a: strutils.split_path(*t)))
    return out

def run(ctx):
    idx = 0

    def emit(case):
        nonlocal idx
        idx += 1
        if idx % 5 == 0:
            case = dict(case, lazy_i18n=True)
        if idx % 4 == 1 and case['kind'] == 'path':
            case = dict(case, warnings_as_errors=True)
        if idx % 6 == 2 and case['kind'] == 'path' and not case.get('defaults'):
            case = dict(case, flag_style=('int', 'two', 'str', 'list', 'none')[(idx // 6) % 5])
        if idx % 3 == 0 and case['kind'] == 'path' and not case.get('defaults'):
            case = dict(case, kw=True)          # documented parameter names given by keyword
        if ctx.mine(idx):
            ctx.sample(case['kind'] + '/' + (case.get('cls') or ''), case)
            evaluate(ctx, case)

    nown = [0]

    def own(case):          # a case this worker generated for itself
        nown[0] += 1
        if nown[0] % 5 == 0:
            case = dict(case, lazy_i18n=True)
        if nown[0] % 4 == 1 and case['kind'] == 'path':
            case = dict(case, warnings_as_errors=True)
        if nown[0] % 6 == 2 and case['kind'] == 'path' and not case.get('defaults'):
            case = dict(case, flag_style=('int', 'two', 'str', 'list', 'none')[(nown[0] // 6) % 5])
        if nown[0] % 3 == 0 and case['kind'] == 'path' and not case.get('defaults'):
            case = dict(case, kw=True)
        ctx.sample(case['kind'] + '/' + (case.get('cls') or ''), case)
        evaluate(ctx, case)

    if ctx.shard == 0:
        for family in ('unclosed-quote', 'text-after-closing-quote', 'unclosed-quote-with-escapes', 'quote-in-the-middle'):
            own({'kind': 'growth', 'family': family})

    def blocks(stream, total, size=512):
        """(index, rng) for the blocks of the seeded stream that belong to this worker; every block has its
        own generator so the union over the workers does not depend on their number."""
        for b in range((total + size - 1) // size):
            if not ctx.mine(b):
                continue
            rng = ctx.rng('%s/%d' % (stream, b))
            for i in range(b * size, min(total, (b + 1) * size)):
                yield i, rng

    def P(path, minsegs=1, maxsegs=None, rest=False, **kw):
        return dict(kind='path', path=path, minsegs=minsegs, maxsegs=maxsegs, rest=rest, **kw)

    # ---- split_path: the docstring's own examples, then boundary literals
    emit(P('/a', want=['a'], defaults=True))
    emit(P('/a', 1, 2, want=['a', None]))
    emit(P('/a/c', 1, 2, want=['a', 'c']))
    emit(P('/a/c/o/r', 1, 3, True, want=['a', 'c', 'o/r']))
    emit(P('/a/c/o/r', 1, 3, True, want=['a', 'c', 'o/r'], kw=True))
    for path in ['', '/', '//', '///', 'a', 'a/', 'a/b', '/a', '/a/', '/a//', '//a', '/a/b', '/a/b/', '/a//b',
                 '/a/b//', '/a/b/c', '/a/b/c/', '/a/b/c/d', '/a/b/c/d/', ' /a', '/ ', '/ /a', '/./..', '/../a',
                 '/é', '/é/', '\\a', '\\/a', '/a\\/b', '/a?x=/y', '/a/b/c/d/e/f/g', '/a/b/c/d/e/f/g/']:
        for minsegs in (1, 2, 3, 4):
            for maxsegs in maxsegs_options(minsegs):
                for rest in (False, True):
                    emit(P(path, minsegs, maxsegs, rest))

    # minsegs > maxsegs outside the grid (the check itself, not the path tests, has to reject these:
    # with minsegs 0 the empty path passes every other test)
    for path in ['', '/', '/a', '/a/', '/a/b', 'a', '//']:
        for minsegs, maxsegs in [(0, -1), (0, -2), (1, -1), (2, -1), (3, -2), (5, 2), (7, 6), (6, 1)]:
            for rest in (False, True):
                emit(P(path, minsegs, maxsegs, rest))

    # ---- the same characters as other str objects (case-insensitive subclasses, unhashable subclasses), in several orders
    rtw = ctx.rng('twins')
    for i in range(ctx.pick(240, 12000)):
        segs = [''.join(rtw.choice('AbCdEfgH1_') for _ in range(rtw.randrange(1, 5))) for _ in range(rtw.randrange(1, 5))]
        if i % 3:
            minsegs = rtw.randrange(1, 4)
            emit(dict(kind='twins', f='split_path', text='/' + '/'.join(segs) + rtw.choice(['', '', '/']), minsegs=minsegs,
                      maxsegs=rtw.choice([None, minsegs, minsegs + 1, 4]), rest=rtw.random() < 0.4))
        else:
            emit(dict(kind='twins', f='split_by_commas', text=join_items(segs) if rtw.random() < 0.8 else '"' + ','.join(segs)))

    # ---- well-formed values split with almost no stack left
    for headroom in range(2, 140, ctx.pick(3, 1)):
        for items in (['a', 'b'], ['x y', 'z'], ['one', 'two,2', 'three']):
            emit(dict(kind='starved', items=items, headroom=headroom))

    # ---- few items, very many commas inside the quotes (commas that are data are not separators; an internal limit
    # on the number of items counts items)
    for n in (999, 1000, 4095, 4096, 9998, 9999, 10000, 10001, 16384, 32768, 65535, 65536, 99999, 100000, 250000):
        for items in (['a', {'unit': ',', 'n': n}, 'b'], [{'unit': ',', 'n': n}], [{'unit': 'x,', 'n': n // 2}, 'tail'],
                      [{'unit': ',', 'n': n // 2}, {'unit': ', ', 'n': n // 2}, 'c', 'd', 'e']):
            emit(dict(kind='commas', items=items, cls='long'))

    # ---- complete enumeration of class sequences
    kmax = ctx.pick(3, 5)

    gcount = 0

    def grid(segs):
        # sharded per segment list (not per case) so that workers do not build each other's cases
        nonlocal gcount
        gcount += 1
        if not ctx.mine(gcount):
            return
        for lead in ('/', ''):
            if lead == '' and (not segs or segs[0] == ''):
                continue
            for trail in ('', '/'):
                for minsegs in (1, 2, 3, 4):
                    for maxsegs in maxsegs_options(minsegs):
                        for rest in (False, True):
                            own(dict(kind='path', segs=segs, lead=lead, trail=trail, minsegs=minsegs,
                                     maxsegs=maxsegs, rest=rest))

    for k in range(0, kmax + 1):
        for classes in itertools.product(SEG_CLASSES, repeat=k):
            grid([seg_for(c, i) for i, c in enumerate(classes)])
    ctx.exhaustive['split_path: class sequences of 0..%d segments x lead x trail x minsegs x maxsegs x '
                   'rest_with_last' % kmax] = True
    # empty / non-empty shapes for the longer paths (the non-empty class rotates)
    for k in range(kmax + 1, 8):
        for shape in itertools.product((0, 1), repeat=k):
            grid([seg_for(SEG_CLASSES[(i + k) % 6] if SEG_CLASSES[(i + k) % 6] != 'empty' else 'plain', i)
                  if bit else '' for i, bit in enumerate(shape)])
    ctx.exhaustive['split_path: empty/non-empty shapes of %d..7 segments x lead x trail x minsegs x maxsegs x '
                   'rest_with_last' % (kmax + 1)] = True

    # ---- seeded sampling with quotas per oracle class
    for i, rng in blocks('paths', ctx.pick(40000, 6000000)):
        quota = i % 8
        minsegs = rng.randrange(1, 5)
        maxsegs = rng.choice(maxsegs_options(minsegs))
        rest = rng.random() < 0.5
        eff = maxsegs or minsegs
        lead, trail = '/', ''
        if quota in (0, 1):       # admissible, all segments non-empty
            hi = 7 if rest else min(7, max(eff, minsegs))
            k = rng.randrange(minsegs, max(minsegs, hi) + 1)
            classes = [rng.choice(['plain', 'dot', 'dotdot', 'spaced', 'unicode', 'plain']) for _ in range(k)]
            trail = '/' if quota == 1 else ''
        elif quota == 2:          # too few / too many
            k = rng.choice([max(0, minsegs - 1), eff + 1, eff + 2, rng.randrange(0, 8)])
            k = min(k, 7)
            classes = [rng.choice(['plain', 'dot', 'spaced', 'unicode']) for _ in range(k)]
            trail = rng.choice(['', '/'])
        elif quota == 3:          # an empty segment among the first minsegs
            k = rng.randrange(1, 8)
            classes = [rng.choice(['plain', 'dotdot', 'spaced', 'unicode']) for _ in range(k)]
            classes[rng.randrange(0, min(k, minsegs))] = 'empty'
            trail = rng.choice(['', '/'])
        elif quota == 4:          # empty segments beyond minsegs
            k = rng.randrange(minsegs + 1, 8) if minsegs < 7 else 7
            classes = [rng.choice(['plain', 'dot', 'spaced', 'unicode']) for _ in range(k)]
            for _ in range(rng.randrange(1, 3)):
                classes[rng.randrange(minsegs, k)] = 'empty'
            trail = rng.choice(['', '/'])
        elif quota == 5:          # no leading slash
            k = rng.randrange(1, 8)
            classes = [rng.choice(SEG_CLASSES) for _ in range(k)]
            if classes[0] == 'empty':
                classes[0] = 'plain'
            lead = ''
            trail = rng.choice(['', '/'])
        else:                     # anything
            k = rng.randrange(0, 8)
            classes = [rng.choice(SEG_CLASSES) for _ in range(k)]
            trail = rng.choice(['', '/'])
        segs = [seg_for(c, j, rng) for j, c in enumerate(classes)]
        own(dict(kind='path', segs=segs, lead=lead, trail=trail, minsegs=minsegs, maxsegs=maxsegs, rest=rest))

    # ---- split_by_commas: literals
    for items in GOOD_LITERALS:
        emit(dict(kind='commas', items=items))
    for text in BAD_LITERALS:
        emit(dict(kind='commas-bad', text=text, cls='literal'))
    for text in DC_LITERALS:
        emit(dict(kind='commas-dc', text=text, cls='dont-care literal'))
    # complete enumeration of short items over the quoting characters
    short = [''.join(t) for ln in (0, 1, 2) for t in itertools.product(HOT, repeat=ln)]
    for it in short:
        emit(dict(kind='commas', items=[it]))
    for a, b in itertools.product(short, repeat=2):
        emit(dict(kind='commas', items=[a, b]))
    one = [''] + HOT
    for t in itertools.product(one, repeat=3):
        emit(dict(kind='commas', items=list(t)))
    ctx.exhaustive['split_by_commas: singles and pairs of items of length <= 2, triples of length <= 1, over '
                   '{comma, quote, backslash, space, a, n}'] = True
    # seeded lists
    for i, rng in blocks('lists', ctx.pick(11000, 600000)):
        own(dict(kind='commas', items=[random_item(rng) for _ in range(1 + i % 5)]))
    # damaged texts, equal quota per malformation type
    for i, rng in blocks('damage', ctx.pick(3600, 54000)):
        how = DAMAGE[i % len(DAMAGE)]
        own(dict(kind='commas-bad', text=damaged(rng, how), cls=how))


LEVEL_TEXT = ('Exploration with a reference model: every path is composed from a known segment list, so the clear '
              'classes are decided from the components and the rest by an independent splitter; class sequences up '
              'to 3 (quick) / 5 (thorough) segments and all empty/non-empty shapes up to 7 segments are enumerated '
              'completely over the whole argument grid. Item lists are quoted by an independent quoting function '
              'and must round-trip; damaged texts must raise ValueError.')
LEVEL_NOTE = ('Trusted: vlib/models/splitters.py (reference splitter with both trailing-slash readings, quoting '
              'function, strict reader used as a self-check). DONT-CARE: maxsegs=0, empty segments beyond the first '
              'minsegs (accept/reject), "" vs None behind a trailing slash, rest_with_last with maxsegs == minsegs '
              'whose remainder starts with a slash (ValueError or exactly that remainder), unquoted white space or backslashes, '
              'escapes other than \\\\ and \\". Non-string paths and minsegs outside 1..4 are not generated.')
TECHNIQUE = 'reference-model monitor over constructive generators; join/split round trip'


# a fifth of the cases runs after "another pyparsing user in the process" has switched pyparsing's process-wide class for
# bare strings inside expressions to Suppress (ParserElement.inline_literals_using): the grammar built per call may not
# pick that up
from vlib import envmodes as _envmodes_pp  # noqa: E402
evaluate = _envmodes_pp.with_modes(evaluate, pp=lambda case: case.get('kind') not in ('growth', 'path'))
