"""C16 text coding helpers: round trip, type contract, idempotent slug.

Reference-model monitor.  The oracle is the Python codec machinery itself
(bytes.decode / str.encode / codecs.lookup) plus a regular expression for the
slug alphabet; the functions under test are run on generated texts and byte
strings over encodings x spellings x error policies, on a pool of non-text
values, and with sys.stdin replaced to exercise the default-encoding
configuration.
"""
import codecs
import re
import sys

PROPERTY = 'C16'
LEVEL = 'exploration'
ANCHORS = [('oslo_utils.encodeutils', 'safe_decode'),
           ('oslo_utils.encodeutils', 'safe_encode'),
           ('oslo_utils.encodeutils', 'to_utf8'),
           ('oslo_utils.strutils', 'to_slug')]
RULE = ('directed corpus (boundary texts, undecodable bytes, empty input, every codec pair, the whole non-text '
        'pool x 4 functions x argument variants, stdin configurations) then seeded generation: texts from 13 strata '
        '(empty, ASCII, Latin-1, cp1252 specials, Cyrillic, Greek, CJK, astral, combining, drawn from the codec\'s own '
        'repertoire, random BMP, long, specials) x 10 codecs x spellings (lower/UPPER/Title/random case, aliases) x '
        '3 error policies; byte strings = valid encodings, UTF-8 of the same text, truncated, corrupted, random. '
        'non-trivial = non-ASCII content or a BOM codec or undecodable bytes or a non-text value or a slug input '
        'that is not already a slug; distinct by (kind, input, encoding spellings, policy, configuration)')
REQUIRED_CLAUSES = ['equal-valued-arguments-in-any-order', 'under-warnings-as-errors', 'documented-keyword-call', 'decode-str-unchanged', 'decode-bytes-primary', 'decode-bytes-fallback-utf8',
                    'round-trip', 'transcode-differ', 'transcode-agree-untouched', 'transcode-alias',
                    'to_utf8-str', 'to_utf8-bytes-identity', 'typeerror-safe_decode',
                    'typeerror-safe_encode', 'typeerror-to_utf8', 'typeerror-to_slug',
                    'stdin-default-decode', 'stdin-default-encode-transcode',
                    'stdin-default-encode-untouched', 'slug-alphabet', 'slug-single-hyphens',
                    'slug-idempotent']
ASSUMPTIONS = ['Python\'s own codecs are the ground truth for "decode with encoding e" and for which texts e can '
               'represent (text.encode(e).decode(e) == text)',
               'texts are surrogate-free; error policies limited to strict/ignore/replace',
               'DONT-CARE (only "raises nothing but UnicodeError" is asserted): text the codec cannot represent; '
               'bytes that neither the given encoding nor UTF-8 decodes; transcoding bytes the incoming codec '
               'rejects; the untouched-shortcut for alias spellings (utf8 vs utf-8: untouched or transcoded both '
               'accepted); empty bytes transcoded to a BOM-emitting codec (b\'\' or the bare BOM both accepted)']
INTERPRETER_FLAGS = [[], ['-O'], ['-X', 'dev'], ['-bb']]
SHARDS = {'quick': 4, 'thorough': 16}

CANON = ['utf-8', 'utf-16', 'utf-32', 'latin-1', 'ascii', 'cp1252', 'shift_jis', 'euc_jp',
         'koi8-r', 'cp437', 'iso2022_jp', 'utf-7',
         # codecs in which even the ASCII letters have other byte values (EBCDIC pages) and a UTF-8 variant with a BOM
         'cp500', 'cp037', 'cp1140', 'utf-8-sig']
ALIASES = {'utf-8': ['utf8', 'utf_8', 'U8', 'UTF8'], 'utf-16': ['utf16', 'UTF_16', 'u16'],
           'utf-32': ['utf32', 'U32', 'utf_32'],
           'latin-1': ['latin1', 'iso-8859-1', 'L1', 'ISO8859-1', 'latin_1'],
           'ascii': ['us-ascii', '646'], 'cp1252': ['windows-1252', '1252'],
           'shift_jis': ['sjis', 'shiftjis', 's_jis', 'Shift-JIS'],
           'euc_jp': ['eucjp', 'ujis', 'EUC-JP'], 'koi8-r': ['koi8_r', 'KOI8_R'],
           'cp437': ['ibm437', '437', 'IBM437'], 'iso2022_jp': ['iso-2022-jp', 'csiso2022jp', 'ISO2022JP'],
           'utf-7': ['utf7', 'U7', 'UTF_7'], 'cp500': ['CP500', 'ebcdic-cp-be', '500'], 'cp037': ['IBM037', 'ibm039', '037'],
           'cp1140': ['ibm1140', 'CP1140'], 'utf-8-sig': ['utf_8_sig', 'UTF-8-SIG']}
POLICIES = ['strict', 'ignore', 'replace']
BOM_CODECS = ('utf-16', 'utf-32')
SLUG_RE = re.compile(r'[a-z0-9_-]*')

# ---------------------------------------------------------------- non-text pool
NONTEXT = {
    'None': lambda: None, 'int': lambda: 7, 'zero': lambda: 0, 'True': lambda: True,
    'False': lambda: False, 'float': lambda: 1.5, 'nan': lambda: float('nan'),
    'complex': lambda: 1j, 'list': lambda: ['a'], 'list-empty': lambda: [],
    'list-of-bytes': lambda: [b'a'], 'dict': lambda: {'a': 1}, 'dict-empty': lambda: {},
    'tuple': lambda: ('a',), 'tuple-empty': lambda: (), 'set': lambda: {'a'},
    'frozenset': lambda: frozenset(), 'bytearray': lambda: bytearray(b'abc'),
    'bytearray-empty': lambda: bytearray(), 'memoryview': lambda: memoryview(b'abc'),
    'object': lambda: object(), 'type-str': lambda: str, 'exception': lambda: ValueError('x'),
    'range': lambda: range(3), 'function': lambda: len, 'ellipsis': lambda: Ellipsis,
    # values that cannot be printed: the TypeError must not depend on rendering the offending value
    'huge-int': lambda: 10 ** 5000, 'unprintable-object': lambda: _Unprintable(), 'deep-list': lambda: _deep_list(),
    'duck-text': lambda: _DuckText(),
}


class _Unprintable(object):
    def __repr__(self):
        raise AttributeError('repr of the caller\'s object failed')
    __str__ = __repr__


class _DuckText(object):
    def encode(self, *a, **k):
        return b'duck'

    def decode(self, *a, **k):
        return 'duck'


def _deep_list():
    x = []
    for _ in range(100000):
        x = [x]
    return x


def _safe_repr(v):
    try:
        return repr(v)[:200]
    except BaseException as e:  # noqa
        return '<%s whose repr raises %s>' % (type(v).__name__, type(e).__name__)

TYPEERR_VARIANTS = {
    'safe_decode': [{}, {'incoming': 'utf-8'}, {'incoming': 'ascii', 'errors': 'ignore'},
                    {'errors': 'replace'}],
    'safe_encode': [{}, {'incoming': 'utf-8'}, {'encoding': 'latin-1'},
                    {'incoming': 'latin-1', 'encoding': 'utf-8', 'errors': 'ignore'},
                    {'incoming': 'UTF-8', 'encoding': 'utf-8'}],
    'to_utf8': [{}],
    'to_slug': [{}, {'incoming': 'utf-8'}, {'errors': 'ignore'}],
}


def call(f, *a, **k):
    try:
        return f(*a, **k), None
    except BaseException as e:  # noqa
        return None, e


def canon_of(enc):
    return codecs.lookup(enc).name


def py_decode(data, enc, errors):
    try:
        return data.decode(enc, errors), None
    except UnicodeDecodeError as e:
        return None, e


def representable(text, enc):
    try:
        return text.encode(enc).decode(enc) == text
    except UnicodeError:
        return False


def decode_oracle(data, enc, errors):
    """('primary'|'fallback', want) or ('dontcare', None)."""
    want, err = py_decode(data, enc, errors)
    if err is None:
        return 'primary', want
    want, err = py_decode(data, 'utf-8', errors)
    if err is None:
        return 'fallback', want
    return 'dontcare', None


def relation(a, b):
    if a.casefold() == b.casefold():
        return 'agree'
    if canon_of(a) == canon_of(b):
        return 'alias'
    return 'differ'


def transcode_oracle(data, a, b, errors):
    """('must', bytes) | ('dontcare-decode', None) | ('dontcare-encode', None)."""
    text, err = py_decode(data, a, errors)
    if err is not None:
        return 'dontcare-decode', None
    try:
        return 'must', text.encode(b, errors)
    except UnicodeEncodeError:
        return 'dontcare-encode', None


def only_unicode_error(ctx, clause, case, exc, detail):
    if exc is not None and not isinstance(exc, UnicodeError):
        ctx.fail(clause + '-unexpected-exception', case, dict(detail, exc=exc))


# ---------------------------------------------------------------- evaluators
def eval_text(ctx, case):
    from oslo_utils import encodeutils as eu
    from vlib import callstyle
    eu = callstyle.proxy(eu)
    text, enc, errors = case['text'], case['enc'], case['errors']
    canon = canon_of(enc)
    ctx.case(('text', text, enc, errors),
             bool(text) and (not text.isascii() or canon in BOM_CODECS))
    short = text if len(text) <= 80 else text[:77] + '...'
    # str is returned unchanged, whatever incoming/errors say
    ctx.clause('decode-str-unchanged')
    got, exc = call(eu.safe_decode, text, incoming=enc, errors=errors)
    if exc is not None or type(got) is not str or got != text:
        ctx.fail('decode-str-unchanged', case, {'text': short, 'got': got, 'exc': exc})
    got, exc = call(eu.safe_decode, text)
    if exc is not None or type(got) is not str or got != text:
        ctx.fail('decode-str-unchanged', case, {'text': short, 'got': got, 'exc': exc,
                                                'call': 'safe_decode(text)'})
    # to_utf8
    ctx.clause('to_utf8-str')
    want8 = text.encode('utf-8')
    got, exc = call(eu.to_utf8, text)
    if exc is not None or type(got) is not bytes or got != want8:
        ctx.fail('to_utf8-str', case, {'text': short, 'got': got, 'want': want8, 'exc': exc})
    ctx.clause('to_utf8-bytes-identity')
    got, exc = call(eu.to_utf8, want8)
    if exc is not None or type(got) is not bytes or got != want8:
        ctx.fail('to_utf8-bytes-identity', case, {'input': want8, 'got': got, 'exc': exc})
    # round trip
    rep = representable(text, enc)
    encd, exc = call(eu.safe_encode, text, encoding=enc, errors=errors)
    ctx.h('text x codec', '%s/%s' % (canon, 'representable' if rep else 'not-representable'))
    if rep:
        ctx.clause('round-trip')
        if exc is not None or type(encd) is not bytes:
            ctx.fail('round-trip', case, {'text': short, 'step': 'safe_encode', 'got': encd, 'exc': exc})
            return
        ctx.h('safe_encode(str) equals str.encode', str(encd == text.encode(enc, errors)))
        back, exc = call(eu.safe_decode, encd, incoming=enc, errors=errors)
        if exc is not None or type(back) is not str or back != text:
            ctx.fail('round-trip', case, {'text': short, 'encoded': encd, 'got': back, 'exc': exc})
    else:
        ctx.clause('unrepresentable-dontcare')
        only_unicode_error(ctx, 'unrepresentable', case, exc, {'text': short})
        if exc is None and type(encd) is not bytes:
            ctx.fail('safe_encode-returns-bytes', case, {'text': short, 'got': encd})


def check_decode(ctx, case, clause_prefix, data, enc, errors, got, exc):
    klass, want = decode_oracle(data, enc, errors)
    ctx.h(clause_prefix + ' class', '%s/%s/%s' % (canon_of(enc), errors, klass))
    if klass == 'dontcare':
        ctx.clause(clause_prefix + '-undecodable-dontcare')
        only_unicode_error(ctx, clause_prefix, case, exc, {'data': data})
        return klass
    clause = {'primary': clause_prefix + '-primary', 'fallback': clause_prefix + '-fallback-utf8'}[klass]
    if clause_prefix == 'stdin-default-decode':
        clause = clause_prefix
    ctx.clause(clause)
    if exc is not None or type(got) is not str or got != want:
        ctx.fail(clause, case, {'data': data, 'encoding': enc, 'errors': errors, 'class': klass,
                                'got': got, 'want': want, 'exc': exc})
    return klass


def eval_decode(ctx, case):
    from oslo_utils import encodeutils as eu
    from vlib import callstyle
    eu = callstyle.proxy(eu)
    data, enc, errors = case['data'], case['enc'], case['errors']
    ctx.case(('decode', data, enc, errors), not data.isascii() or canon_of(enc) in BOM_CODECS)
    got, exc = call(eu.safe_decode, data, incoming=enc, errors=errors)
    check_decode(ctx, case, 'decode-bytes', data, enc, errors, got, exc)
    ctx.clause('to_utf8-bytes-identity')
    got, exc = call(eu.to_utf8, data)
    if exc is not None or type(got) is not bytes or got != data:
        ctx.fail('to_utf8-bytes-identity', case, {'input': data, 'got': got, 'exc': exc})


def check_transcode(ctx, case, data, a, b, errors, got, exc, prefix='transcode'):
    rel = relation(a, b)
    klass, want = transcode_oracle(data, a, b, errors)
    ctx.h(prefix + ' class', '%s/%s' % (rel, klass))
    detail = {'data': data, 'incoming': a, 'encoding': b, 'errors': errors, 'got': got, 'exc': exc}
    if rel == 'agree':
        clause = prefix + '-agree-untouched' if prefix == 'transcode' else prefix + '-untouched'
        ctx.clause(clause)
        if exc is not None or type(got) is not bytes or got != data:
            ctx.fail(clause, case, detail)
        else:
            ctx.h('untouched result is the same object', str(got is data))
        return
    if rel == 'alias':
        ctx.clause(prefix + '-alias')
        if exc is None and type(got) is bytes and got == data:
            ctx.h('alias spelling', 'returned untouched')
            return
        ctx.h('alias spelling', 'transcoded')
        if klass == 'must':
            if exc is not None or type(got) is not bytes or got != want:
                ctx.fail(prefix + '-alias', case, dict(detail, want_either=[data, want]))
        else:
            only_unicode_error(ctx, prefix + '-alias', case, exc, detail)
        return
    clause = prefix + '-differ' if prefix == 'transcode' else prefix + '-transcode'
    if klass != 'must':
        ctx.clause(prefix + '-' + klass)
        only_unicode_error(ctx, prefix, case, exc, detail)
        return
    if not data and want:
        # b'' -> BOM-emitting codec: b'' and the bare BOM both encode the empty text
        ctx.clause(prefix + '-empty-to-bom-codec-dontcare')
        ok = exc is None and type(got) is bytes and py_decode(got, b, 'strict')[0] == ''
        ctx.h('empty bytes to BOM codec', 'returned %r' % (got,))
        if not ok:
            ctx.fail(prefix + '-empty-to-bom-codec', case, dict(detail, want_either=[b'', want]))
        return
    ctx.clause(clause)
    if exc is not None or type(got) is not bytes or got != want:
        ctx.fail(clause, case, dict(detail, want=want))


def eval_transcode(ctx, case):
    from oslo_utils import encodeutils as eu
    from vlib import callstyle
    eu = callstyle.proxy(eu)
    data, a, b, errors = case['data'], case['incoming'], case['encoding'], case['errors']
    ctx.case(('transcode', data, a, b, errors), bool(data) and (
        not data.isascii() or canon_of(a) in BOM_CODECS or canon_of(b) in BOM_CODECS))
    got, exc = call(eu.safe_encode, data, incoming=a, encoding=b, errors=errors)
    check_transcode(ctx, case, data, a, b, errors, got, exc)


def eval_typeerr(ctx, case):
    from oslo_utils import encodeutils as eu, strutils
    from vlib import callstyle
    eu, strutils = callstyle.proxy(eu), callstyle.proxy(strutils)
    fn, spec, kwargs = case['fn'], case['spec'], case['kwargs']
    f = {'safe_decode': eu.safe_decode, 'safe_encode': eu.safe_encode, 'to_utf8': eu.to_utf8,
         'to_slug': strutils.to_slug}[fn]
    value = NONTEXT[spec]()
    ctx.case(('typeerr', fn, spec, sorted(kwargs.items())))
    ctx.clause('typeerror-' + fn)
    ctx.h('non-text pool', spec)
    got, exc = call(f, value, **kwargs)
    if not isinstance(exc, TypeError):
        ctx.fail('typeerror-' + fn, case, {'value': _safe_repr(value), 'type': type(value).__name__,
                                          'kwargs': kwargs, 'got': got, 'exc': exc})


class _FakeStdin(object):
    pass


def make_stdin(spec):
    if spec['mode'] == 'stdin-is-None':
        return None
    o = _FakeStdin()
    if spec['mode'] == 'attr':
        o.encoding = spec['encoding']
    return o


def eval_stdin(ctx, case):
    from oslo_utils import encodeutils as eu
    from vlib import callstyle
    eu = callstyle.proxy(eu)
    spec, op, data, errors = case['stdin'], case['op'], case['data'], case['errors']
    effective = (spec.get('encoding') if spec['mode'] == 'attr' else None) or sys.getdefaultencoding()
    ctx.case(('stdin', sorted(spec.items(), key=repr), op, data, case.get('encoding'), errors,
              case.get('explicit_none')))
    ctx.h('stdin configuration', '%s/%s' % (spec['mode'], spec.get('encoding')))
    kwargs = {'errors': errors}
    if case.get('explicit_none'):
        kwargs['incoming'] = None
    saved = sys.stdin
    try:
        sys.stdin = make_stdin(spec)
        if op == 'decode':
            got, exc = call(eu.safe_decode, data, **kwargs)
        else:
            got, exc = call(eu.safe_encode, data, encoding=case['encoding'], **kwargs)
        # to_utf8 is the identity on bytes whatever the default (stdin) encoding is
        got8, exc8 = call(eu.to_utf8, data)
    finally:
        sys.stdin = saved
    ctx.clause('to_utf8-bytes-identity')
    if exc8 is not None or type(got8) is not bytes or got8 != data:
        ctx.fail('to_utf8-bytes-identity', case, {'input': data, 'got': got8, 'exc': exc8,
                                                   'stdin_encoding': spec.get('encoding')})
    if op == 'decode':
        check_decode(ctx, case, 'stdin-default-decode', data, effective, errors, got, exc)
    else:
        check_transcode(ctx, case, data, effective, case['encoding'], errors, got, exc,
                        prefix='stdin-default-encode')


def eval_slug(ctx, case):
    from oslo_utils import strutils
    from vlib import callstyle
    strutils = callstyle.proxy(strutils)
    value, incoming, errors = case['value'], case.get('incoming'), case.get('errors', 'strict')
    kwargs = {}
    if incoming is not None:
        kwargs['incoming'] = incoming
    if 'errors' in case:
        kwargs['errors'] = errors
    got, exc = call(strutils.to_slug, value, **kwargs)
    trivial = isinstance(value, str) and SLUG_RE.fullmatch(value) is not None and '--' not in value
    ctx.case(('slug', value, incoming, errors), not trivial)
    ctx.h('slug input', '%s/%s' % (type(value).__name__, case.get('cls', '-')))
    if exc is not None:
        if isinstance(value, bytes) and isinstance(exc, UnicodeDecodeError) and case.get('maybe_undecodable'):
            ctx.clause('slug-undecodable-dontcare')
            return
        ctx.fail('slug-must-not-raise', case, {'value': value, 'exc': exc})
        return
    ctx.clause('slug-alphabet')
    if type(got) is not str or SLUG_RE.fullmatch(got) is None:
        bad = sorted(set(ch for ch in got if not re.fullmatch('[a-z0-9_-]', ch))) if isinstance(got, str) else None
        ctx.fail('slug-alphabet', case, {'value': value, 'got': got, 'offending': bad})
        return
    ctx.clause('slug-single-hyphens')
    if '--' in got:
        ctx.fail('slug-single-hyphens', case, {'value': value, 'got': got})
    ctx.clause('slug-idempotent')
    again, exc = call(strutils.to_slug, got)
    if exc is not None or again != got:
        ctx.fail('slug-idempotent', case, {'value': value, 'once': got, 'twice': again, 'exc': exc})
    if kwargs:
        # "applying it twice": the same call, same keyword arguments, on its own result
        again, exc = call(strutils.to_slug, got, **kwargs)
        if exc is not None or again != got:
            ctx.fail('slug-idempotent', case, {'value': value, 'once': got, 'twice': again, 'exc': exc, 'kwargs': kwargs})
    ctx.h('slug shape', ('empty' if not got else
                         ('lead-' if got[0] == '-' else '') + 'word' + ('-trail' if got[-1] == '-' else '')))


EVAL = {'text': eval_text, 'decode': eval_decode, 'transcode': eval_transcode,
        'typeerr': eval_typeerr, 'stdin': eval_stdin, 'slug': eval_slug}


def TWIN_FUNCS():
    from oslo_utils import encodeutils as eu
    from oslo_utils import strutils
    return {'to_slug': lambda v: strutils.to_slug(v), 'safe_decode': lambda v: eu.safe_decode(v),
            'safe_encode': lambda v: eu.safe_encode(v), 'safe_encode_latin1': lambda v: eu.safe_encode(v, encoding='latin-1')}


TWIN_TEXT_FUNCS = ['to_slug', 'safe_encode', 'safe_encode_latin1']      # (safe_decode hands a str argument back as it is)
TWIN_TEXTS = ['Hello World', '\xc4\xd6 \xfc', 'Already-Slug', 'MiXed Case_Text 42', 'caf\xe9 Au Lait', 'ABC']
TWIN_NUM_FUNCS = ()
TWIN_NUMBERS = ()


def _evaluate_nomodes(ctx, case):
    if case.get('kind') == 'twins':
        from vlib import twins as _tw
        return _tw.evaluate_case(ctx, case, TWIN_FUNCS())
    EVAL[case['kind']](ctx, case)


from vlib import envmodes  # noqa: E402
evaluate = envmodes.with_modes(_evaluate_nomodes, warn=lambda case: case.get('kind') != 'stdin')


# ---------------------------------------------------------------- generators
ASCII = ''.join(chr(c) for c in range(0x20, 0x7f))
LATIN1 = ''.join(chr(c) for c in range(0xa0, 0x100))
CP1252_SPECIAL = '€‚ƒ„…†‡ˆ‰Š‹ŒŽ‘’“”•–—˜™š›œžŸ'
CYRILLIC = ''.join(chr(c) for c in range(0x410, 0x450)) + 'Ёё'
GREEK = ''.join(chr(c) for c in range(0x391, 0x3ca) if c != 0x3a2)
KANA = ''.join(chr(c) for c in range(0x3041, 0x3094)) + ''.join(chr(c) for c in range(0x30a1, 0x30f7))
KANJI = '日本語漢字中文東京大阪学校先生山川田人一二三四五六七八九十百千万円時間'
HALFWIDTH = ''.join(chr(c) for c in range(0xff61, 0xffa0))
FULLWIDTH = ''.join(chr(c) for c in range(0xff01, 0xff5f))
BOX = ''.join(chr(c) for c in range(0x2500, 0x2580)) + '░▒▓█▄▌▐▀■'
CJK = KANA + KANJI + HALFWIDTH + FULLWIDTH + '、。「」〒'
ASTRAL = ['😀', '😂', '🚀', '🐍', '👍', '🏽', '🇯', '🇵', '𝄞', '𐍈', '🀄', '🧪', '𝟗', '𠮷', '\U0010ffff',
          '\U00010000']
COMBINING = ['\u0301', '\u0300', '\u0308', '\u0327', '\u0323', '\u20d7', '\u0483', '\u3099', '\u0307']
SPECIALS = ['\ufeff', '�', '\uffff', '\ufffe', '\x00', '¥', '‾', '\\', '~', '\x7f', '\x80', '\x9f',
            '\u2028', '\ud7ff', '\ue000', '\x1a', '\r\n', '\u00a0', '\u00ad']
CANDIDATES = (ASCII + LATIN1 + CP1252_SPECIAL + CYRILLIC + GREEK + CJK + BOX + '√∞≈≤≥⌠⌡÷°∙·²ⁿ£₧ƒ©' +
              ''.join(chr(c) for c in range(0, 0x20)))
_REPERTOIRE = {}


def repertoire(canon):
    if canon not in _REPERTOIRE:
        _REPERTOIRE[canon] = [ch for ch in dict.fromkeys(CANDIDATES) if representable(ch, canon)]
    return _REPERTOIRE[canon]


def spelling(rng, name, allow_alias=False):
    k = rng.randrange(5 if allow_alias else 4)
    if k == 0:
        return name
    if k == 1:
        return name.upper()
    if k == 2:
        return name.title()
    if k == 3:
        return ''.join(c.upper() if rng.random() < 0.5 else c.lower() for c in name)
    return rng.choice(ALIASES[name])


STRATA = ['empty', 'ascii', 'latin-1', 'cp1252', 'cyrillic', 'greek', 'cjk', 'astral', 'combining',
          'repertoire', 'bmp-random', 'long', 'specials']


def _chars(rng, pool, lo, hi):
    return ''.join(rng.choice(pool) for _ in range(rng.randrange(lo, hi)))


def gen_text(rng, stratum, target=None, maxlen=None):
    if stratum == 'empty':
        return ''
    if stratum == 'ascii':
        return _chars(rng, ASCII, 1, 24)
    if stratum == 'latin-1':
        return _chars(rng, ASCII + LATIN1 * 3, 1, 24)
    if stratum == 'cp1252':
        return _chars(rng, ASCII + CP1252_SPECIAL * 4, 1, 20)
    if stratum == 'cyrillic':
        return _chars(rng, CYRILLIC + ' -', 1, 20)
    if stratum == 'greek':
        return _chars(rng, GREEK + ' .', 1, 20)
    if stratum == 'cjk':
        return _chars(rng, CJK, 1, 16)
    if stratum == 'astral':
        return ''.join(rng.choice(ASTRAL) if rng.random() < 0.6 else rng.choice(ASCII + KANJI)
                       for _ in range(rng.randrange(1, 12)))
    if stratum == 'combining':
        return ''.join(rng.choice('aeounAEOUcsz' + CYRILLIC[:8] + 'かは') +
                       ''.join(rng.choice(COMBINING) for _ in range(rng.randrange(0, 3)))
                       for _ in range(rng.randrange(1, 10)))
    if stratum == 'repertoire':
        return _chars(rng, repertoire(target or rng.choice(CANON)), 1, 24)
    if stratum == 'bmp-random':
        out = []
        for _ in range(rng.randrange(1, 16)):
            if rng.random() < 0.15:
                cp = rng.randrange(0x10000, 0x110000)
            else:
                cp = rng.randrange(0x0, 0x10000)
                while 0xd800 <= cp <= 0xdfff:
                    cp = rng.randrange(0x0, 0x10000)
            out.append(chr(cp))
        return ''.join(out)
    if stratum == 'long':
        unit = gen_text(rng, rng.choice(['ascii', 'latin-1', 'cjk', 'astral', 'repertoire', 'combining']),
                        target)
        n = rng.choice([257, 1000, 4097, 20000]) if maxlen is None else maxlen
        return (unit * (n // max(1, len(unit)) + 1))[:n]
    if stratum == 'specials':
        return ''.join(rng.choice(SPECIALS) if rng.random() < 0.5 else rng.choice(ASCII + LATIN1)
                       for _ in range(rng.randrange(1, 10)))
    raise AssertionError(stratum)


def gen_bytes_variants(rng, text, canon):
    """Byte strings related to `text` for decoding with `canon`: valid, utf-8, damaged, random."""
    out = []
    try:
        valid = text.encode(canon)
        out.append(('valid', valid))
        if valid:
            out.append(('truncated', valid[:-1]))
            i = rng.randrange(len(valid))
            out.append(('corrupted', valid[:i] + bytes([valid[i] ^ rng.choice([0x80, 0xff, 0x01, 0x40])]) +
                        valid[i + 1:]))
    except UnicodeEncodeError:
        pass
    out.append(('utf-8-of-text', text.encode('utf-8')))
    out.append(('random', bytes(rng.getrandbits(8) for _ in range(rng.randrange(0, 12)))))
    return [(k, d) for k, d in out if len(d) <= 4096]


SLUG_WORDS = ['Hello', 'WORLD', 'foo_bar', '_x_', 'a', 'Z', 'CamelCase', 'snake_case_9', 'x86_64', 'v2',
              '0', '007', '1234567890', '__', 'Nova', 'API']
SLUG_SEPS = [' ', '  ', '   ', '\t', '\t\t', '-', '--', '---', ' - ', '- -', ' -- ', '\n', '\r\n', '\x0b', '\x0c',
             '\x1c', '\x1d', '\x1e', '\x1f', '\xa0', '\u2003', '\u3000', '\u2028', '\u2029', '\x85', '\u1680',
             '－', '﹣', '‐', '‑', '–', '—', '−', '\u00ad', '-\t-', ' \t-\n']
SLUG_PUNCT = list('!"#$%&\'()*+,./:;<=>?@[\\]^`{|}~') + ['…', '．', '！', '。', '«', '»', '¿', '¡', '§', '...',
                                                         '.-.', '-.-', ' . ', '-!-', '\x00', '\x7f']
SLUG_LETTERS = ['é', 'É', 'Å', 'ñ', 'İ', 'ı', 'ß', 'ẞ', 'ø', 'Ø', 'Ł', 'Æ', 'Ж', 'ж', 'λ', 'Σ', 'ς', '中', '文',
                'ｱ', 'Ａ', 'ｚ', 'ﬁ', 'ﬆ', 'ǅ', 'Ⅷ', 'ⅷ', '㎏', '℃', 'ª', 'º', '™', 'K', 'Å', 'µ', 'ſ', 'ǆ',
                'e\u0301', 'A\u030a', 'n\u0303', '\u0301', 'Ǻ', 'ự', '한', 'ﾊﾟ', '🐍', '𝐀', '𝓏', '𝕏', 'Ⓐ', '⒜']
SLUG_DIGITS = ['٣', '３', '①', '⑳', '²', '³', '¹', '𝟗', '𝟘', '४', '५', '½', '¼', '௧', '〇', '一', 'Ⅳ', '₂', '⁹',
               '⒈', '🄁', '㊿']


def gen_slug_text(rng):
    parts = []
    if rng.random() < 0.3:
        parts.append(rng.choice(SLUG_SEPS + SLUG_PUNCT))
    for _ in range(rng.randrange(0, 9)):
        k = rng.random()
        if k < 0.30:
            parts.append(rng.choice(SLUG_WORDS))
        elif k < 0.55:
            parts.append(rng.choice(SLUG_SEPS))
        elif k < 0.70:
            parts.append(rng.choice(SLUG_PUNCT))
        elif k < 0.85:
            parts.append(rng.choice(SLUG_LETTERS))
        elif k < 0.95:
            parts.append(rng.choice(SLUG_DIGITS))
        else:
            parts.append('_' * rng.randrange(1, 4))
    if rng.random() < 0.3:
        parts.append(rng.choice(SLUG_SEPS + SLUG_PUNCT))
    return ''.join(parts)


STDIN_SPECS = [{'mode': 'attr', 'encoding': None}, {'mode': 'attr', 'encoding': 'ascii'},
               {'mode': 'attr', 'encoding': 'latin-1'}, {'mode': 'attr', 'encoding': 'utf-8'},
               {'mode': 'attr', 'encoding': 'UTF-8'}, {'mode': 'attr', 'encoding': 'cp1252'},
               {'mode': 'attr', 'encoding': 'KOI8-R'}, {'mode': 'attr', 'encoding': 'utf-16'},
               {'mode': 'missing'}, {'mode': 'stdin-is-None'}]

DIRECTED_TEXTS = ['', 'a', 'abc', 'ni\xf1o', 'caf\xe9', 'stra\xdfe', '\xa5', '¥100', '‾', '\\', '~', '€', '€uro',
                  'Привет', 'Ελληνικά', '日本語', 'ｱｲｳ', 'テスト', '漢字かな', '😀', 'a😀b', '👍🏽', '🇯🇵',
                  'e\u0301', 'a\u0308\u0323', '\ufeff', '\ufeffabc', 'abc\ufeff', '\ufffe', '\uffff', '\x00',
                  'a\x00b', '\x7f', '\x80', '\x81', '\x8d', '\x9d', '\xff', 'Ā', '\ud7ff', '\ue000',
                  '\U00010000', '\U0010ffff', '─│┌┐', '½¼', 'ÿ', 'Ÿ', 'Ž', '™', 'x' * 4097, 'é' * 3000,
                  '語' * 2000, '😀' * 1500, 'ab' * 10000]
DIRECTED_BYTES = [b'', b'a', b'abc', b'\xff', b'\xfe', b'\xff\xfe', b'\xfe\xff', b'\xff\xfe\x00\x00',
                  b'\xef\xbb\xbf', b'\xef\xbb\xbfabc', b'\xc3\xa9', b'\xc3', b'\xa9', b'\xe9', b'caf\xe9',
                  b'caf\xc3\xa9', b'\x80', b'\x81', b'\x8d\x8f\x90\x9d', b'\xc3\x81', b'\xe2\x82\xac',
                  b'\xf0\x9f\x98\x80', b'\xf0\x9f\x98', b'\xed\xa0\x80', b'\xc0\xaf', b'\x00', b'a\x00',
                  b'a\x00b', b'\x00a', b'a\x00b\x00', b'\x00\x00\x00a', b'a\x00\x00\x00', b'\x00\xd8',
                  b'\x00\xd8\x00\xdc', b'\x5c', b'\x7e', b'\x82\xa0', b'\x82', b'\xa4\xa2', b'\x8e\xb1', b'\xb1',
                  b'\xfd\xfe\xff', b'\x1a', b'\xe3\x81\x82', b'\xd0\x9f', b'\xce\xbb', b'x' * 4096,
                  b'\xc3\xa9' * 2000]

SLUG_DIRECTED = ['', ' ', '-', '--', '---', ' - ', '- -', '_', '__', 'a', 'A', 'a b', 'a  b', 'a-b', 'a--b',
                 'a - b', 'a -- b', ' a ', '-a-', '--a--', ' -a- ', '- a -', 'a.b', 'a . b', 'a-.-b', 'a -.- b',
                 'Hello, World!', 'What\'s  up?', 'foo_bar', 'FOO_BAR', 'a\tb', 'a\t\tb', 'a\nb', 'a\r\nb',
                 'a\x0bb', 'a\x0cb', 'a\x1cb', 'a\x1fb', 'a\xa0b', 'a\u3000b', 'a\u2003-\u2003b', 'a\x85b',
                 'a－b', 'a－－b', 'a-－b', 'a﹣-b', 'a‐b', 'a-‐-b', 'a -中- b', 'a-é-b', 'a-ß-b', 'a-٣-b', 'a ٣ b',
                 'é', 'É', 'İstanbul', 'ISTANBUL', 'ı', 'straße', 'STRASSE', 'ŁÓDŹ', 'Привет мир', '日本語',
                 '日本 語', '-日本-', '３', '①②', 'x²', '½', 'Ⅷ', '㎏', '℃', 'ﬁn', '™', 'ª', 'K', 'Å', '…', '．',
                 'a…b', 'a．b', '！', '🐍', 'a🐍b', 'a 🐍 b', '𝟗', '𝐀𝐁', 'e\u0301', '\u0301', 'A' * 300,
                 'a ' * 500, '-' * 1000, ' ' * 1000, ('x-' * 50).upper(), '\x00', 'a\x00b', '\x7f', 'a.', '.a',
                 'a-.', '.-a', 'a -', '- a', 'a -.', '. - a', 'a- .', '\t-\t', '-\t-', 'a_-_b', '_-_', '-_-']


def run(ctx):
    # ---- the same characters / the same number handed over as other objects, in several orders (vlib/twins.py)
    from vlib import twins as _tw
    for _i, _case in enumerate(_tw.make_cases(ctx.rng('twins'), ctx.pick(160, 8000), TWIN_TEXT_FUNCS, TWIN_TEXTS,
                                              TWIN_NUM_FUNCS, TWIN_NUMBERS)):
        if ctx.mine(_i):
            evaluate(ctx, _case)
    idx = 0

    def emit(case, klass=None):
        nonlocal idx
        idx += 1
        if ctx.mine(idx):
            ctx.sample(klass or case['kind'], case)
            evaluate(ctx, case)

    drng = ctx.rng('directed')
    # ---- directed: texts x every codec x every policy x three spellings
    for text in DIRECTED_TEXTS:
        for name in CANON:
            for errors in POLICIES:
                for sp in (name, name.upper(), name.title()):
                    emit(dict(kind='text', text=text, enc=sp, errors=errors))
    # ---- directed: byte strings x every codec x policies (decode)
    for data in DIRECTED_BYTES:
        for name in CANON:
            for errors in POLICIES:
                emit(dict(kind='decode', data=data, enc=spelling(drng, name), errors=errors))
    # ---- directed: byte strings x every ordered codec pair (transcode); agree / alias diagonals
    for data in DIRECTED_BYTES:
        for a in CANON:
            for b in CANON:
                for errors in POLICIES:
                    if a == b:
                        sa, sb = rng_pair_agree(drng, a)
                        emit(dict(kind='transcode', data=data, incoming=sa, encoding=sb, errors=errors))
                        emit(dict(kind='transcode', data=data, incoming=a, encoding=b, errors=errors))
                        al = drng.choice(ALIASES[a])
                        pair = (a, al) if drng.random() < 0.5 else (al, a)
                        emit(dict(kind='transcode', data=data, incoming=pair[0], encoding=pair[1],
                                  errors=errors))
                    else:
                        emit(dict(kind='transcode', data=data, incoming=spelling(drng, a),
                                  encoding=spelling(drng, b), errors=errors))
    ctx.exhaustive['directed byte strings x 10x10 codec pairs x 3 policies'] = True
    # ---- non-text pool x functions x argument variants (finite, complete)
    for fn, variants in TYPEERR_VARIANTS.items():
        for spec in NONTEXT:
            for kwargs in variants:
                emit(dict(kind='typeerr', fn=fn, spec=spec, kwargs=kwargs))
    ctx.exhaustive['non-text pool (26 values) x 4 functions x argument variants'] = True
    # ---- stdin configurations (directed)
    for spec in STDIN_SPECS:
        for data in DIRECTED_BYTES[:46]:
            for errors in POLICIES:
                for explicit in (False, True):
                    emit(dict(kind='stdin', stdin=spec, op='decode', data=data, errors=errors,
                              explicit_none=explicit))
                for b in ('utf-8', 'UTF-8', 'latin-1', 'Latin-1', 'ascii', 'cp1252', 'utf-16', 'koi8-r',
                          'KOI8-r', 'utf8'):
                    emit(dict(kind='stdin', stdin=spec, op='encode', data=data, encoding=b, errors=errors,
                              explicit_none=(len(data) + len(b)) % 2 == 1))
    ctx.exhaustive['stdin configurations x directed byte strings x policies'] = True
    # ---- slug directed
    # byte strings that already are slugs, with explicit keyword arguments (a str and the equal-content bytes hash alike)
    for word in ('abc', 'a-b', 'x', 'hello-world', 'a_b', '0', 'slug-1'):
        for kw in ({'incoming': 'utf-8'}, {'incoming': 'ascii', 'errors': 'strict'}, {'errors': 'ignore'}):
            for rep in range(4):     # once per shard residue: every interpreter-flag set sees every combination
                emit(dict(kind='slug', value=word.encode('ascii'), cls='bytes-already-slug', **kw))
            emit(dict(kind='slug', value=word, cls='str-already-slug', **kw))
    for value in SLUG_DIRECTED:
        emit(dict(kind='slug', value=value, cls='directed'))
        for inc in ('utf-8', 'UTF-16', 'utf-32'):
            emit(dict(kind='slug', value=value.encode(inc), incoming=inc, cls='directed-bytes'))

    # ---- seeded generation, in blocks (a block is generated only by the shard that owns it)
    nblocks = ctx.pick(1500, 90000)
    for blk in range(nblocks):
        if not ctx.mine(blk):
            continue
        rng = ctx.rng('block/%d' % blk)
        for t in range(10):
            stratum = STRATA[(blk * 10 + t) % len(STRATA)]
            target = CANON[(blk + t) % len(CANON)]
            text = gen_text(rng, stratum, target)
            ctx.h('text stratum', stratum)
            # text x all codecs; policy and spelling rotate
            for j, name in enumerate(CANON):
                errors = POLICIES[(blk + t + j) % 3]
                case = dict(kind='text', text=text, enc=spelling(rng, name, allow_alias=True), errors=errors)
                ctx.sample('text', case)
                evaluate(ctx, case)
            if len(text) > 900:
                text = text[:900]
            # byte strings for three codecs (the target one always)
            for name in (target, rng.choice(CANON), rng.choice(CANON)):
                for vk, data in gen_bytes_variants(rng, text, name):
                    errors = rng.choice(POLICIES)
                    case = dict(kind='decode', data=data, enc=spelling(rng, name, allow_alias=True),
                                errors=errors, variant=vk)
                    ctx.sample('decode', case)
                    evaluate(ctx, case)
                    other = rng.choice(CANON)
                    r = rng.random()
                    if r < 0.25:
                        sa, sb = rng_pair_agree(rng, name)
                    elif r < 0.35:
                        al = rng.choice(ALIASES[name])
                        sa, sb = (name, al) if rng.random() < 0.5 else (al, spelling(rng, name))
                    else:
                        sa, sb = spelling(rng, name), spelling(rng, other)
                    case = dict(kind='transcode', data=data, incoming=sa, encoding=sb,
                                errors=rng.choice(POLICIES), variant=vk)
                    ctx.sample('transcode', case)
                    evaluate(ctx, case)
                    if rng.random() < 0.2:
                        spec = rng.choice(STDIN_SPECS)
                        if rng.random() < 0.5:
                            case = dict(kind='stdin', stdin=spec, op='decode', data=data,
                                        errors=rng.choice(POLICIES), explicit_none=rng.random() < 0.5)
                        else:
                            case = dict(kind='stdin', stdin=spec, op='encode', data=data,
                                        encoding=spelling(rng, other), errors=rng.choice(POLICIES),
                                        explicit_none=rng.random() < 0.5)
                        ctx.sample('stdin', case)
                        evaluate(ctx, case)
        # slugs
        for t in range(40):
            value = gen_slug_text(rng) if t % 4 else gen_text(rng, rng.choice(STRATA[1:11]), None)
            cls = 'composed' if t % 4 else 'text-stratum'
            case = dict(kind='slug', value=value, cls=cls)
            ctx.sample('slug', case)
            evaluate(ctx, case)
            if t % 3 == 0:
                inc = rng.choice(['utf-8', 'utf-16', 'utf-32', 'UTF-8', 'Utf-16'])
                evaluate(ctx, dict(kind='slug', value=value.encode(inc), incoming=inc,
                                   errors=rng.choice(POLICIES), cls=cls + '-bytes'))
            elif t % 3 == 1:
                name = rng.choice(CANON)
                pol = rng.choice(['ignore', 'replace'])
                data = value.encode(name, 'ignore')
                evaluate(ctx, dict(kind='slug', value=data, incoming=spelling(rng, name), errors=pol,
                                   cls=cls + '-bytes-lossy'))
            else:
                data = bytes(rng.getrandbits(8) for _ in range(rng.randrange(0, 16)))
                pol = rng.choice(POLICIES)
                evaluate(ctx, dict(kind='slug', value=data, incoming=rng.choice(['utf-8', 'latin-1', 'cp437',
                                                                                 'shift_jis', 'ascii']),
                                   errors=pol, cls='random-bytes', maybe_undecodable=True))


def rng_pair_agree(rng, name):
    """Two spellings of one codec name that differ at most in letter case."""
    forms = [name, name.upper(), name.title(),
             ''.join(c.upper() if rng.random() < 0.5 else c for c in name)]
    return rng.choice(forms), rng.choice(forms)


LEVEL_TEXT = ('Exploration with the Python codecs as reference model: every decode/transcode result is compared with '
              'bytes.decode/str.encode on the same arguments, the round trip is demanded for every text the codec '
              'itself round-trips, the slug is checked against the alphabet regex, for double hyphens and for '
              'idempotence; the non-text pool x functions grid and the codec-pair grid are enumerated, texts and '
              'byte strings are sampled per stratum.')
LEVEL_NOTE = ('Trusted: CPython codecs and codecs.lookup for alias resolution. Encodings limited to ten codecs (plus '
              'aliases), policies to strict/ignore/replace, texts surrogate-free. DONT-CARE zones are listed in the '
              'assumptions. Identity (same object) of untouched results is recorded, not demanded; equality and the '
              'exact type are.')
TECHNIQUE = 'reference-model monitor (CPython codecs, slug alphabet regex, idempotence) over stratified generators'
