"""C02 Safety check is fail-closed: unsafe or unverifiable images are never accepted.

Reference-model monitor: every image is generated from a trait vector, so the
three-valued reference verdict (MUST-REJECT / MUST-ACCEPT / DONT-CARE) is known
by construction.  The real inspector is fed the stream (directly, through
InspectWrapper, and through the command-line checker) and its outcome compared.
Fault clause: every registered check's target function is replaced in turn by one
that raises; the outcome must be SafetyCheckFailed naming exactly that check.
"""
import itertools
import os
import struct
import subprocess
import sys

from vlib import imagecases as ic
from vlib import imagegen as ig
from vlib import known
from vlib import streamlab as sl

PROPERTY = 'C02'
LEVEL = 'exploration'
FI = 'oslo_utils.imageutils.format_inspector'
ANCHORS = [(FI, 'FileInspector.safety_check'), (FI, 'SafetyCheck.__call__'), (FI, 'FileInspector.__init__'),
           (FI, 'QcowInspector.check_backing_file'), (FI, 'QcowInspector.check_unknown_features'),
           (FI, 'QcowInspector.check_data_file'), (FI, 'VMDKInspector.post_process'),
           (FI, 'VMDKInspector.check_descriptor'), (FI, 'VMDKInspector.check_footer'),
           (FI, 'SafetyCheck.banned'), (FI, 'GPTInspector.check_mbr_partitions'), (FI, 'LUKSInspector.check_version'),
           ('oslo_utils.imageutils.cli', 'main')]
RULE = ('images generated per format from trait vectors (each of the 64 qcow2 incompatible-feature bits and random sets, '
        'versions 0..5 and extremes, backing-file offset classes, VMDK descriptor line classes x createType spellings, '
        'all 12 footer perturbations, header version / descriptor location classes, the complete bounded MBR family, '
        'LUKS versions, truncation at every structure boundary) x 2-3 chunk schedules, fed directly, through '
        'InspectWrapper and through cli.main (in-process + real subprocess sample); injected exceptions in every '
        'registered check. non-trivial = MUST-REJECT or MUST-ACCEPT case; distinct by (spec, path, schedule)')
REQUIRED_CLAUSES = ['under-debug-logging', 'carrier-independent', 'still-rejected-after-a-caught-eat_chunk-error', 'interleaved-instances', 'must-reject', 'must-accept', 'responsible-check-named', 'fault-in-check-is-failure',
                    'fault-inside-check-code-is-failure',
                    'cli-exit-status', 'cli-subprocess', 'mbr-family', 'only-documented-exceptions',
                    'no-safety-check-declared']
ASSUMPTIONS = ['reference verdict derived from the trait vector the generator used, per the statement\'s own list',
               'DONT-CARE: qcow2 v2 with bytes where v3 keeps feature bits, v3 with only bits 0/1/3, descriptors that do '
               'not fit their sector count, lines after a NUL in a VMDK descriptor']
INTERPRETER_FLAGS = [[], ['-O'], ['-X', 'dev'], ['-bb']]
SHARDS = {'quick': 8, 'thorough': 16}
MIN_DISTINCT = {'quick': 5000, 'thorough': 50000}
LEVEL_TEXT = ('Exploration with a trait-derived three-valued oracle, exhaustive over the bounded MBR family, the 64 single '
              'feature bits, the footer perturbations and the registered checks x exception pool; sampled elsewhere.')
LEVEL_NOTE = ('Trusted: the generators and the trait->verdict table (vlib/imagegen.py, this file). Known findings F1 '
              '(text descriptors beyond the first chunk) is excused only on inputs matching its predicate.')
TECHNIQUE = 'reference-model monitor (trait-derived 3-valued verdict) + failpoints in every registered safety check'

GOOD_TYPES = ['monolithicSparse', 'streamOptimized', 'MONOLITHICSPARSE', 'StreamOptimized', 'monolithicsparse']
BAD_TYPES = ['monolithicFlat', 'twoGbMaxExtentSparse', 'vmfs', 'custom', '', 'x' * 70, 'monolithicSparse' + 'x' * 60,
             'monolithicSparse2', 'vmfsSparse']
LINES = [('', 1), ('# comment', 1), ('ddb.adapterType = "ide"', 1), ('version=1', 1), ('CID=ffffffff', 1),
         ('parentFileNameHint="x"', 1), ('garbage', 0), ('foo bar', 0), ('foo bar=baz', 0), ('RW 10 SPARSE "b.vmdk"', 1),
         ('RDONLY 10 SPARSE "c.vmdk"', 1), ('NOACCESS 10 ZERO', 1), ('RW 10 FLAT "/etc/passwd" 0', 0),
         ('RW 10 SPARSE "a/b.vmdk"', 0), ('rw 10 sparse "ok.vmdk"', 1), ('  # indented comment', 1), ('\tversion=1', 1),
         ('RWX 10 SPARSE "x.vmdk"', 0), ('rdonly 10 vmfs "../up.vmdk"', 0), ('ReadWrite 5 SPARSE "x"', 0)]
FOOTER_PERTS = ['msize', 'mtype', 'mpad', 'fsig', 'fver', 'fdsec', 'fdnum', 'fgd', 'eval', 'esize', 'etype', 'epad']
EXC_POOL = ['RuntimeError', 'KeyError', 'IndexError', 'struct.error', 'MemoryError', 'ZeroDivisionError',
            'UnicodeDecodeError', 'Custom', 'AssertionError', 'OSError', 'RecursionError', 'StopIteration']


def make_exc(name):
    if name == 'struct.error':
        return struct.error('injected')
    if name == 'UnicodeDecodeError':
        return UnicodeDecodeError('ascii', b'\xff', 0, 1, 'injected')
    if name == 'Custom':
        class Custom(Exception):
            pass
        return Custom('injected')
    return getattr(__import__('builtins'), name)('injected')


# ----------------------------------------------------------------------
def reference(spec):
    """-> (data, inspector name, verdict 'accept'|'reject'|'dontcare', responsible checks, truth)."""
    base = {'gen': spec['gen'], 'params': spec.get('params', {})}
    data, truth = ig.build(base)
    verdict, resp = truth['safety'], list(truth['responsible'])
    name = ig.INSPECTOR_OF[spec['gen']]
    for m in spec.get('mut') or []:
        if m[0] != 'trunc':
            raise ValueError('C02 only uses truncation mutations')
        cut = m[1]
        if cut >= len(data):
            continue
        data = data[:cut]
        if name == 'raw':
            continue
        if cut < truth['complete_at']:
            verdict, resp = 'reject', []
        elif spec['gen'] == 'vmdk' and truth.get('footer'):
            verdict, resp = 'reject', []
        elif spec['gen'] == 'luks':
            pass
    return data, name, verdict, resp, truth


def observe_direct(cls, data, cuts, carrier='bytes'):
    res = sl.feed(cls, data, cuts, monitor=False, carrier=carrier)
    if res['raised']:
        return 'raised:' + res['raised'], res['inspector']
    return sl.safety_outcome(res['inspector']), res['inspector']


def classify(outcome):
    """-> 'accepted' | 'rejected' | 'unexpected'"""
    if outcome == 'pass':
        return 'accepted'
    if outcome in ('refused', 'raised:ImageFormatError') or outcome.startswith('failed:'):
        return 'rejected'
    return 'unexpected'


def judge(ctx, case, path, verdict, resp, outcome, known_id=None):
    """Compare one observed outcome with the reference verdict."""
    cls = classify(outcome)
    ctx.clause('only-documented-exceptions')
    ctx.h('verdict x outcome (%s)' % path, '%s/%s' % (verdict, cls))
    if cls == 'unexpected':
        ctx.fail('only-documented-exceptions', dict(case, path=path), {'outcome': outcome})
        return
    if verdict == 'reject':
        ctx.clause('must-reject')
        if cls == 'accepted':
            ctx.fail('must-reject', dict(case, path=path), {'outcome': outcome, 'want': 'rejected'}, known=known_id)
        elif outcome.startswith('failed:') and resp:
            ctx.clause('responsible-check-named')
            names = set(outcome[7:].split(','))
            if not set(resp) <= names:
                ctx.fail('responsible-check-named', dict(case, path=path), {'failed': sorted(names), 'responsible': resp})
    elif verdict == 'accept':
        ctx.clause('must-accept')
        if cls != 'accepted':
            ctx.fail('must-accept', dict(case, path=path), {'outcome': outcome, 'want': 'accepted'})


def eval_image(ctx, case):
    F = sl.fi()
    spec = case['spec']
    data, name, verdict, resp, truth = reference(spec)
    cls = F.ALL_FORMATS[name]
    text_f1 = name == 'vmdk' and known.f1_text_vmdk(data)
    ctx.h('format x verdict', '%s/%s' % (spec['gen'], verdict))
    for klass, cuts in case['schedules']:
        ctx.case((spec['gen'], data, 'direct', tuple(cuts)), nontrivial=verdict != 'dontcare')
        outcome, insp = observe_direct(cls, data, cuts)
        kn = 'F1' if (text_f1 and cuts and cuts[0] < len(data)) else None
        judge(ctx, dict(case, failing=[klass, cuts]), 'direct', verdict, resp, outcome, kn)
        if outcome.startswith('raised:') and verdict == 'reject':
            # a caller that catches the error from eat_chunk and keeps feeding (the harness does exactly that) and then
            # asks anyway: an unsafe image is not accepted on that path either
            ctx.clause('still-rejected-after-a-caught-eat_chunk-error')
            later = sl.safety_outcome(insp)
            if classify(later) == 'accepted':
                ctx.fail('still-rejected-after-a-caught-eat_chunk-error', dict(case, failing=[klass, cuts]),
                         {'eat_chunk': outcome, 'safety_check_afterwards': later}, known=kn)
        if len(cuts) <= 2000 and (len(data) + len(cuts)) % 3 == 0:
            # the same stream handed over in ONE reused bytearray / as memoryview slices of one buffer (the readinto()
            # idiom); the buffer is overwritten after every eat_chunk, so the decision must rest on what was copied
            for carrier in ('bytearray', 'memoryview'):
                ctx.clause('carrier-independent')
                o2, _i = observe_direct(cls, data, cuts, carrier)
                if o2 != outcome:
                    ctx.fail('carrier-independent', dict(case, failing=[klass, cuts], carrier=carrier),
                             {'bytes_chunks': outcome, carrier + '_chunks': o2}, known=kn)
                judge(ctx, dict(case, failing=[klass, cuts], carrier=carrier), 'direct', verdict, resp, o2, kn)
    for klass, cuts in case.get('wrapper_schedules', []):
        ctx.case((spec['gen'], data, 'wrapper', tuple(cuts)), nontrivial=verdict != 'dontcare')
        res = sl.feed_wrapper(data, cuts, monitor=False)
        if res['exc'] is not None:
            ctx.fail('wrapper-raised', dict(case, failing=[klass, cuts]), {'exc': res['exc']})
            continue
        detected = res['final']
        ctx.h('wrapper detection', '%s->%s' % (spec['gen'], detected))
        if detected == name:
            outcome = sl.safety_outcome(res['wrapper'].format)
            kn = None
            if text_f1 and cuts and cuts[0] < len(data):
                kn = 'F1'
            judge(ctx, dict(case, failing=[klass, cuts]), 'wrapper', verdict, resp, outcome, kn)
        elif verdict == 'accept' and not text_f1 and ig.sigs(data) <= {name}:
            ctx.clause('must-accept')
            ctx.fail('must-accept', dict(case, failing=[klass, cuts], path='wrapper'),
                     {'detected': detected, 'want_format': name})
        elif verdict == 'reject' and name in ig.sigs(data) and detected not in ('IFE', None):
            # the unsafe image carries its format's signature but detection hands out another inspector
            # (e.g. raw): accepting it that way is accepting the unsafe image
            ctx.clause('must-reject')
            outcome = sl.safety_outcome(res['wrapper'].format)
            if classify(outcome) == 'accepted':
                ctx.fail('must-reject', dict(case, failing=[klass, cuts], path='wrapper'),
                         {'detected_as': detected, 'signature_present': name, 'outcome': outcome})
    if case.get('cli'):
        eval_cli(ctx, case, data, name, verdict, text_f1, subprocess_too=case.get('cli') == 'subprocess')


def cli_inprocess(path):
    from oslo_utils.imageutils import cli
    old_argv, old_out, old_err = sys.argv, sys.stdout, sys.stderr
    sys.argv = ['oslo.utils.imageutils', '-i', path]
    sys.stdout = sys.stderr = open(os.devnull, 'w')
    try:
        try:
            cli.main()
            return 0, None           # falling off main() = interpreter exit status 0
        except SystemExit as e:
            code = e.code
            return (0 if code in (None, 0) else code if isinstance(code, int) else 1), None
        except BaseException as e:  # noqa  (uncaught exception => interpreter exit status 1)
            return 1, type(e).__name__
    finally:
        sys.stdout.close()
        sys.argv, sys.stdout, sys.stderr = old_argv, old_out, old_err


def eval_cli(ctx, case, data, name, verdict, text_f1, subprocess_too):
    F = sl.fi()
    d = os.path.join(os.environ.get('VERIF_SCRATCH', '/dev/shm'), 'c02-%d' % ctx.shard)
    os.makedirs(d, exist_ok=True)
    path = os.path.join(d, 'img')
    with open(path, 'wb') as f:
        f.write(data)
    status, exc = cli_inprocess(path)
    ctx.case((case['spec']['gen'], data, 'cli'), nontrivial=verdict != 'dontcare')
    ctx.clause('cli-exit-status')
    # what the library says on the same file
    try:
        insp = F.detect_file_format(path)
        detected = str(insp)
        lib = sl.safety_outcome(insp)
    except F.ImageFormatError:
        detected, lib = 'IFE', 'refused'
    except BaseException as e:  # noqa
        detected, lib = 'EXC:' + type(e).__name__, 'EXC'
    ctx.h('cli status x library outcome', '%s/%s' % (status, classify(lib) if lib != 'EXC' else 'EXC'))
    if exc is not None and exc not in ('ImageFormatError',):
        ctx.fail('cli-only-documented-exceptions', dict(case, path='cli'), {'exception': exc})
    if status not in (0, 1):
        ctx.fail('cli-exit-status', dict(case, path='cli'), {'status': status})
    if status == 0 and classify(lib) != 'accepted':
        ctx.fail('cli-exit-0-only-when-check-passed', dict(case, path='cli'), {'status': status, 'library': lib, 'detected': detected})
    if status != 0 and classify(lib) == 'accepted':
        ctx.fail('cli-exit-status', dict(case, path='cli'), {'status': status, 'library': lib, 'detected': detected})
    kn = 'F1' if (text_f1 and len(data) > 4096) else None
    if detected == name:
        if verdict == 'reject' and status == 0:
            ctx.fail('must-reject', dict(case, path='cli'), {'status': 0, 'detected': detected}, known=kn)
        if verdict == 'accept' and status != 0:
            ctx.fail('must-accept', dict(case, path='cli'), {'status': status, 'library': lib})
    elif verdict == 'accept' and not text_f1 and ig.sigs(data) <= {name}:
        ctx.fail('must-accept', dict(case, path='cli'), {'detected': detected, 'want_format': name})
    elif verdict == 'reject' and status == 0 and name in ig.sigs(data):
        ctx.fail('must-reject', dict(case, path='cli'), {'status': 0, 'detected_as': detected, 'signature_present': name})
    if subprocess_too:
        env = dict(os.environ)
        env['PYTHONPATH'] = os.environ.get('VERIF_REPO', '/repo')
        try:
            p = subprocess.run([sys.executable, '-m', 'oslo_utils.imageutils', '-i', path], env=env,
                               stdout=subprocess.DEVNULL, stderr=subprocess.DEVNULL, timeout=120)
            rc = p.returncode
        except subprocess.TimeoutExpired:
            ctx.inconclusive_because('CLI subprocess timed out')
            return
        ctx.clause('cli-subprocess')
        if rc != status:
            ctx.fail('cli-subprocess', dict(case, path='cli-subprocess'), {'subprocess_status': rc, 'in_process_status': status})


def eval_fault(ctx, case):
    """Replace one registered check's target function by a raising one on a clean, fully fed inspector."""
    F = sl.fi()
    data, name, verdict, resp, truth = reference(case['spec'])
    cls = F.ALL_FORMATS[name]
    res = sl.feed(cls, data, [], monitor=False)
    insp = res['inspector']
    base = sl.safety_outcome(insp)
    checks = sorted(insp._safety_checks)
    ctx.case(('fault', case['spec']['gen'], case['check_index'], case['exc']))
    if base != 'pass':
        ctx.fail('fault-baseline-clean-image-rejected', case, {'outcome': base})
        return
    if case['check_index'] >= len(checks):
        return
    target = checks[case['check_index']]
    chk = insp._safety_checks[target]
    orig = chk.target_fn
    if case['exc'] == 'SafetyViolation':
        injected = F.SafetyViolation('injected')
    else:
        injected = make_exc(case['exc'])

    def boom():
        raise injected
    chk.target_fn = boom
    try:
        try:
            insp.safety_check()
            out = ('pass', None)
        except F.SafetyCheckFailed as e:
            out = ('failed', e)
        except BaseException as e:  # noqa
            out = ('raised', e)
    finally:
        chk.target_fn = orig
    # a check of the caller's own - a SafetyCheck subclass whose __call__ reports through its return value instead of
    # raising: a false verdict is not a pass (how the refusal is reported - SafetyCheckFailed or an error about the
    # unexpected result - is not pinned; returning normally is what may not happen)
    if hasattr(F, 'SafetyCheck') and case['check_index'] == 0:
        for verdict_value in (False, 0, '', 'failed'):
            class Reporting(F.SafetyCheck):
                def __call__(self):
                    return verdict_value
            extra = Reporting('zz_reporting_check_%r' % (verdict_value,), lambda: None)
            try:
                insp.add_safety_check(extra)
            except BaseException:  # noqa
                break
            try:
                try:
                    insp.safety_check()
                    refused = False
                except BaseException:  # noqa
                    refused = True
            finally:
                insp._safety_checks.pop(extra.name, None)
            ctx.clause('check-reporting-a-false-verdict-is-not-a-pass')
            if not refused:
                ctx.fail('check-reporting-a-false-verdict-is-not-a-pass', case, {'returned_by_the_check': repr(verdict_value)})
                return
    ctx.clause('fault-in-check-is-failure')
    ctx.h('fault: inspector/check x exception', '%s/%s x %s' % (name, target, case['exc']))
    if out[0] != 'failed':
        ctx.fail('fault-in-check-is-failure', case, {'check': target, 'outcome': out[0], 'exc': out[1]})
        return
    if sorted(out[1].failures) != [target]:
        ctx.fail('fault-names-the-check', case, {'check': target, 'failures': sorted(out[1].failures)})
    if case['exc'] == 'SafetyViolation' and out[1].failures[target] is not injected:
        ctx.fail('SafetyViolation-passes-through-unchanged', case, {'got': out[1].failures[target]})
    # afterwards the inspector accepts again (the failure was not sticky)
    if sl.safety_outcome(insp) != 'pass':
        ctx.fail('fault-not-sticky', case, {'check': target})


# ----------------------------------------------------------------------
# line-level failpoints inside the real check functions (an error *inside* a check)
# ----------------------------------------------------------------------
_LP = {'installed': False, 'armed': False, 'n': 0, 'k': None, 'fired': None}
LINE_TOOL = 3


class InjectedInCheck(Exception):
    pass


def _line_cb(code, line):
    if not _LP['armed']:
        return None
    _LP['n'] += 1
    if _LP['n'] == _LP['k']:
        _LP['fired'] = '%s:%d' % (code.co_qualname, line)
        raise InjectedInCheck('line-failpoint %s' % _LP['fired'])
    return None


CHECK_FUNCS = ['QcowInspector.check_backing_file', 'QcowInspector.check_unknown_features', 'QcowInspector.check_data_file',
               'VMDKInspector.check_descriptor', 'VMDKInspector.check_footer', 'VMDKInspector._parse_sparse_header',
               'GPTInspector.check_mbr_partitions', 'LUKSInspector.check_version', 'LUKSInspector.header_items']


def install_line_failpoints():
    if _LP['installed']:
        return
    F = sl.fi()
    mon = sys.monitoring
    try:
        mon.use_tool_id(LINE_TOOL, 'verif-check-failpoints')
    except ValueError:
        pass
    mon.register_callback(LINE_TOOL, mon.events.LINE, _line_cb)
    for q in CHECK_FUNCS:
        cls, fn = q.split('.')
        obj = getattr(F, cls).__dict__[fn]
        obj = obj.fget if isinstance(obj, property) else obj
        mon.set_local_events(LINE_TOOL, obj.__code__, mon.events.LINE)
    _LP['installed'] = True


def eval_linefault(ctx, case):
    """Raise at the k-th line executed inside the real check functions of a clean, fully fed inspector."""
    F = sl.fi()
    install_line_failpoints()
    data, name, verdict, resp, truth = reference(case['spec'])
    cls = F.ALL_FORMATS[name]
    res = sl.feed(cls, data, [], monitor=False)
    insp = res['inspector']
    ctx.case(('linefault', case['spec']['gen'], repr(case['spec'].get('params')), case['k']))
    if sl.safety_outcome(insp) != 'pass':
        ctx.fail('fault-baseline-clean-image-rejected', case, {})
        return
    _LP.update(n=0, k=case['k'], fired=None, armed=True)
    try:
        try:
            insp.safety_check()
            out = ('pass', None)
        except F.SafetyCheckFailed as e:
            out = ('failed', e)
        except BaseException as e:  # noqa
            out = ('raised', e)
    finally:
        _LP['armed'] = False
    if _LP['fired'] is None:
        ctx.h('line failpoint in checks', 'k beyond the lines executed (no injection)')
        if out[0] != 'pass':
            ctx.fail('fault-linepoint-no-injection-but-rejected', case, {'outcome': out[0]})
        return
    ctx.clause('fault-inside-check-code-is-failure')
    ctx.h('line failpoint in checks', _LP['fired'])
    if out[0] != 'failed' or len(out[1].failures) != 1:
        ctx.fail('fault-inside-check-code-is-failure', case,
                 {'fired': _LP['fired'], 'outcome': out[0], 'exc': out[1],
                  'failures': sorted(getattr(out[1], 'failures', {}))})
    if sl.safety_outcome(insp) != 'pass':
        ctx.fail('fault-not-sticky', case, {'fired': _LP['fired']})


def eval_interleaved(ctx, case):
    """Two inspectors of the same class alive at once, fed alternately: each verdict must be the one its own bytes
    deserve (nothing may leak from one instance into the other)."""
    F = sl.fi()
    da, name, va, ra, _ta = reference(case['spec_a'])
    db, nameb, vb, rb, _tb = reference(case['spec_b'])
    cls = F.ALL_FORMATS[name]
    a, b = cls(), F.ALL_FORMATS[nameb]()
    size = case['chunk']
    raised = {}
    for off in range(0, max(len(da), len(db)), size):
        order = ((a, da, 'a'), (b, db, 'b')) if (off // size) % 2 == 0 or not case.get('swap') else ((b, db, 'b'), (a, da, 'a'))
        for insp, data, tag in order:
            if off < len(data):
                try:
                    insp.eat_chunk(data[off:off + size])
                except BaseException as e:  # noqa
                    raised.setdefault(tag, type(e).__name__)
    for insp in (a, b):
        try:
            insp.finish()
        except BaseException:  # noqa
            pass
    ctx.case(('interleaved', repr(case['spec_a']), repr(case['spec_b']), size, bool(case.get('swap'))),
             nontrivial=va != 'dontcare' or vb != 'dontcare')
    ctx.clause('interleaved-instances')
    # safety_check of the first one is asked last, after the second one has finished its header
    ob = 'raised:' + raised['b'] if 'b' in raised else sl.safety_outcome(b)
    oa = 'raised:' + raised['a'] if 'a' in raised else sl.safety_outcome(a)
    judge(ctx, dict(case, which='a'), 'interleaved', va, ra, oa)
    judge(ctx, dict(case, which='b'), 'interleaved', vb, rb, ob)


def eval_nocheck(ctx, case):
    """An inspector that declares no safety check must be impossible to construct."""
    F = sl.fi()

    class NoCheck(F.FileInspector):
        NAME = 'nocheck'

        def _initialize(self):
            self.new_region('h', F.CaptureRegion(0, 4))

        @property
        def format_match(self):
            return True
    ctx.case(('nocheck',))
    ctx.clause('no-safety-check-declared')
    try:
        NoCheck()
        ctx.fail('no-safety-check-declared', case, {'constructed': True})
    except RuntimeError:
        pass
    # adding something that is not a SafetyCheck must be refused too
    insp = F.RawFileInspector()
    for bad in (lambda: None, 'x', None):
        try:
            insp.add_safety_check(bad)
            ctx.fail('add_safety_check-type', case, {'accepted': repr(bad)})
        except RuntimeError:
            pass
    try:
        insp.add_safety_check(F.SafetyCheck.null())
        ctx.fail('add_safety_check-duplicate', case, {'accepted': 'duplicate null'})
    except RuntimeError:
        pass


def evaluate(ctx, case):
    k = case.get('kind', 'image')
    if k == 'image':
        eval_image(ctx, case)
    elif k == 'fault':
        eval_fault(ctx, case)
    elif k == 'nocheck':
        eval_nocheck(ctx, case)
    elif k == 'linefault':
        eval_linefault(ctx, case)
    elif k == 'interleaved':
        eval_interleaved(ctx, case)
    elif k == 'mbr':
        eval_mbr(ctx, case)


def eval_mbr(ctx, case):
    F = sl.fi()
    occ, boots, gptbad = case['occ'], case['boots'], case['gptbad']
    ptes = []
    for i in range(4):
        if occ[i] == 0xEE:
            chs = (0, 2, 0) if gptbad != 'chs' else (0, 1, 0)
            lba = 1 if gptbad != 'lba' else 2
            ptes.append([boots[i], chs[0], chs[1], chs[2], 0xEE, 0xff, 0xff, 0xff, lba, 0xffffffff])
        elif occ[i]:
            ptes.append([boots[i], 0, 2, 0, occ[i], 0, 0, 0, 1, 100])
        else:
            ptes.append([boots[i], 0, 0, 0, 0, 0, 0, 0, 0, 0])
    spec = {'gen': 'mbr', 'params': {'ptes': ptes, 'total': 1024}}
    data, name, verdict, resp, truth = reference(spec)
    outcome, _i = observe_direct(F.GPTInspector, data, [])
    ctx.case(('mbr', tuple(occ), tuple(boots), gptbad))
    ctx.clause('mbr-family')
    judge(ctx, dict(case, spec=spec), 'direct', verdict, resp, outcome)


# ----------------------------------------------------------------------
def vmdk_specs(rng, n):
    out = []
    for i in range(n):
        p = {}
        k = rng.random()
        good = rng.random() < 0.55
        p['ctype'] = rng.choice(GOOD_TYPES) if (good or rng.random() < 0.6) else rng.choice(BAD_TYPES + [None])
        if not good and rng.random() < 0.1:
            p['ctype_unquoted'] = True
            p['ctype'] = 'monolithicSparse'
        n_ext = 1 if good else rng.choice([0, 1, 1, 2])
        p['extents'] = ['RW 2048 SPARSE "disk%d.vmdk"' % j for j in range(n_ext)]
        extra = []
        for _ in range(rng.choice([0, 0, 1, 2, 3])):
            line, ok = rng.choice(LINES)
            if good and not ok:
                continue
            extra.append([line, bool(ok)])
        p['extra'] = extra
        p['ver'] = 1 if good else rng.choice([1, 1, 1, 2, 3, 0, 4, 5, 2 ** 32 - 1, 0x01010101])
        p['desc_sec'] = 1 if good else rng.choice([1, 1, 1, 1, 0, 2, 2 ** 40, 2 ** 55])
        p['desc_num'] = rng.choice([2, 3, 20, 20]) if good else rng.choice([2, 3, 20, 20, 0])
        p['footer'] = rng.random() < 0.4
        if p['footer'] and not good and rng.random() < 0.5:
            p['footer_pert'] = rng.choice(FOOTER_PERTS)
        p['min_total'] = rng.choice([0, 2048, 16384, 65536])
        if rng.random() < 0.3:
            p['shuffle_seed'] = rng.getrandbits(20)
        if rng.random() < 0.3:
            p['hdr_filler_seed'] = rng.getrandbits(20)
        if rng.random() < 0.2:
            p['body_fill'] = rng.choice([0x41, 0xff])
        out.append({'gen': 'vmdk', 'params': p})
    return out


def qcow_specs(rng, n):
    out = []
    for bit in range(64):
        out.append({'gen': 'qcow2', 'params': {'version': 3, 'feat': 1 << bit, 'total': 1024}})
    for ver in [0, 1, 2, 3, 4, 5, 0x7fffffff, 0xffffffff, 0x03000000, 0x00000300]:
        for bf in [0, 1, 512, 1 << 63, (1 << 64) - 1]:
            out.append({'gen': 'qcow2', 'params': {'version': ver, 'bf_offset': bf, 'total': 1024}})
    # a backing file whose name lies inside the first sector: ASCII, UTF-8 and bytes that are no UTF-8 at all
    for name in (b'base.img', 'b\u00e4se.img'.encode('utf-8'), b'b\xe4se.img', b'\xff\xfe\x00\x01', b'/dev/sda', b'\x80'):
        for off in (104, 112, 200, 400, 504, 511, 512, 600):
            for ver in (2, 3):
                for filler in (None, 7):
                    p = {'version': ver, 'bf_offset': off, 'bf_size': len(name), 'bf_name_hex': name.hex(), 'total': 1024}
                    if filler is not None:
                        p['filler_seed'] = filler
                    out.append({'gen': 'qcow2', 'params': p})
    for i in range(n):
        k = rng.random()
        feat = 0 if k < 0.35 else (1 << rng.randrange(64)) if k < 0.6 else rng.getrandbits(64) & rng.getrandbits(64)
        p = {'version': rng.choice([0, 1, 2, 3, 3, 3, 3, 4, 5, 2 ** 32 - 1]),
             'bf_offset': rng.choice([0, 0, 0, 0, 1, 512, 2 ** 63, 2 ** 64 - 1, rng.getrandbits(64)]),
             'feat': feat, 'size': rng.getrandbits(64), 'total': rng.choice([1024, 1024, 512, 4096]),
             'bf_size': rng.getrandbits(32), 'cluster_bits': rng.getrandbits(8)}
        if rng.random() < 0.5:
            p['filler_seed'] = rng.getrandbits(24)
        if rng.random() < 0.05:
            p['magic'] = rng.choice(['QFI\xfa', 'qfi\xfb', 'QFI\x00'])
        out.append({'gen': 'qcow2', 'params': p})
    return out


def other_specs(rng, n):
    out = []
    for i in range(n):
        fmt = rng.choice(['vhd', 'vdi', 'qed', 'vhdx', 'iso', 'luks', 'gpt', 'mbr', 'raw', 'luks', 'mbr'])
        spec = ic.wellformed(rng, fmt)
        if fmt == 'luks':
            spec['params']['version'] = rng.choice([1, 1, 0, 2, 3, 0xffff, 0x0100])
        if fmt == 'mbr':
            # perturb boot flags / types
            for pte in spec['params']['ptes']:
                if rng.random() < 0.25:
                    pte[0] = rng.choice([0x01, 0x7f, 0x81, 0xff, 0x80, 0])
                if rng.random() < 0.15:
                    pte[4] = 0xEE
                    if rng.random() < 0.6:
                        pte[1], pte[2], pte[3], pte[8] = 0, 2, 0, 1
            if rng.random() < 0.1:
                spec['params']['ptes'] = [[0] * 10] * 4
            if rng.random() < 0.05:
                spec['params']['fat'] = True
        if fmt in ('vhd', 'vdi', 'qed') and rng.random() < 0.1:
            spec['params']['magic' if fmt != 'vdi' else 'magic_int'] = {'vhd': 'conectiy', 'qed': 'QED\x01', 'vdi': 0xbeda107e}[fmt]
        out.append(spec)
    return out


def text_specs(rng, n):
    out = []
    for i in range(n):
        extra = []
        for _ in range(rng.choice([0, 2, 8, 40])):
            extra.append(['# ' + 'x' * rng.randrange(10, 90), True])
        bad = rng.random() < 0.6
        if bad:
            extra.append(list(rng.choice([l for l in LINES if not l[1]])))
        out.append({'gen': 'vmdk_text', 'params': {'ctype': rng.choice(GOOD_TYPES + ['monolithicFlat']), 'extra': extra}})
    return out


def text_verdict_fix(spec):
    """vmdk_text truth: MUST-REJECT when an unsafe line / unsupported type is present, else DONT-CARE."""
    return spec


def add_truncation(rng, spec):
    data, truth = ig.build({'gen': spec['gen'], 'params': spec['params']})
    bs = [b for b in truth['bounds'] + [truth['complete_at']] if 0 <= b <= len(data)]
    b = rng.choice(bs or [len(data)])
    cut = max(0, min(len(data), b + rng.choice([-1, 0, 0, 1])))
    s = dict(spec)
    s['mut'] = [['trunc', cut]]
    return s


def schedules_for(rng, n, truth, count=3):
    out = [['giant', []]]
    pool = sl.schedules(rng, n, truth['bounds'], 6, max_chunks=2500)
    rng.shuffle(pool)
    for klass, cuts in pool:
        if klass != 'giant' and len(out) < count:
            out.append([klass, cuts])
    return out


def run(ctx):
    idx = 0
    F = sl.fi()

    def mine():
        nonlocal idx
        idx += 1
        return ctx.mine(idx)

    # ---- canaries for the listed findings
    if ctx.shard == 0:
        # F1: unsafe extent beyond the first 512 bytes of a text descriptor, 512-byte chunks
        spec = {'gen': 'vmdk_text', 'params': {'extra': [['# ' + 'x' * 70, True]] * 8 + [['RW 2048 FLAT "/etc/passwd" 0', False]]}}
        data, _t = ig.build(spec)
        eval_image(ctx, {'kind': 'image', 'spec': spec, 'schedules': [['fixed-512', sl.fixed(len(data), 512)]]})
        # K11: bad version, acceptable provisional descriptor, first read of 50 bytes through the wrapper
        body = b'=\ncreateType="streamOptimized"\nRW 1 SPARSE "x"\n'
        raw = (b'KDMV' + b'\x01\x01\x01\x01' + body).ljust(2048, b'\n')
        eval_raw_kdmv(ctx, raw, [50])
        # the same family: header failing validation (version / descriptor location), acceptable descriptor text right
        # behind the version field, every first-read length around the 64-byte header, one or two short reads
        for ver in (b'\x01\x01\x01\x01', b'\x00\x00\x00\x00', b'\x04\x00\x00\x00', b'\x01\x00\x00\x00'):
            for text in (b'=\ncreateType="streamOptimized"\nRW 1 SPARSE "x"\n', b'\ncreateType="monolithicSparse"\nRW 9 SPARSE "y"\n#',
                         b'=1\nRW 1 SPARSE "x"\ncreateType="monolithicsparse"\n'):
                rawk = (b'KDMV' + ver + text).ljust(2048, b'\n')
                for cuts in ([4], [8], [40], [50], [63], [64], [65], [512], [5, 50], [30, 60], [4, 63, 64], []):
                    eval_raw_kdmv(ctx, rawk, cuts)
        eval_nocheck(ctx, {'kind': 'nocheck'})
    # ---- exhaustive MBR family
    for occ in itertools.product([0, 0x83, 0xEE], repeat=4):
        for boots in itertools.product([0, 0x80, 0x01], repeat=4):
            for gptbad in (None, 'chs', 'lba'):
                if mine():
                    eval_mbr(ctx, {'kind': 'mbr', 'occ': list(occ), 'boots': list(boots), 'gptbad': gptbad})
    for occ in itertools.product([0, 0x83, 0xEE], repeat=4):
        for i in range(4):
            for bf in (0xff, 0x7f, 0x81):
                boots = [0, 0x80, 0, 0]
                boots[i] = bf
                if mine():
                    eval_mbr(ctx, {'kind': 'mbr', 'occ': list(occ), 'boots': boots, 'gptbad': None})
    ctx.exhaustive['MBR family: 3^4 occupancy/type x 3^4 boot flags x 3 protective-entry variants'] = True
    # ---- faults in every registered check
    clean = [{'gen': 'qcow2', 'params': {'version': 3, 'total': 1024}}, {'gen': 'qcow2', 'params': {'version': 2, 'total': 1024}},
             {'gen': 'vmdk', 'params': {}}, {'gen': 'vmdk', 'params': {'footer': True}}, {'gen': 'vhd', 'params': {}},
             {'gen': 'vdi', 'params': {}}, {'gen': 'vhdx', 'params': {'meta_off': 256 * 1024}}, {'gen': 'iso', 'params': {}},
             {'gen': 'gpt', 'params': {}}, {'gen': 'mbr', 'params': {}}, {'gen': 'luks', 'params': {'payload': 8, 'total': 8192}},
             {'gen': 'raw', 'params': {'total': 100}}]
    for spec in clean:
        for ci in range(3):
            for exc in EXC_POOL + ['SafetyViolation']:
                if mine():
                    eval_fault(ctx, {'kind': 'fault', 'spec': spec, 'check_index': ci, 'exc': exc})
    ctx.exhaustive['every registered check of every inspector x exception pool'] = True
    for spec in clean[:4] + clean[8:11]:
        for k in range(1, 60):
            if mine():
                eval_linefault(ctx, {'kind': 'linefault', 'spec': spec, 'k': k})
    ctx.exhaustive['every line executed inside the real check functions of the clean qcow2/vmdk/gpt/mbr/luks images'] = True
    # ---- two live inspectors of one class, fed alternately (unsafe + clean, clean + unsafe, unsafe + unsafe)
    rng_i = ctx.rng('interleaved')
    pools = {'qcow2': qcow_specs(rng_i, 150), 'vmdk': vmdk_specs(rng_i, 150), 'other': other_specs(rng_i, 300)}
    for rep in range(ctx.pick(600, 12000)):
        fam = rng_i.choice(['qcow2', 'qcow2', 'vmdk', 'other'])
        sa = rng_i.choice(pools[fam])
        sb = rng_i.choice([s_ for s_ in pools[fam] if s_['gen'] == sa['gen']] or [sa])
        if mine():
            eval_interleaved(ctx, {'kind': 'interleaved', 'spec_a': sa, 'spec_b': sb,
                                   'chunk': rng_i.choice([64, 512, 4096, 1 << 20]), 'swap': rng_i.random() < 0.5})
    # ---- trait vectors
    rng = ctx.rng('traits')
    specs = []
    specs += qcow_specs(rng, ctx.pick(2500, 250000))
    specs += vmdk_specs(rng, ctx.pick(2500, 250000))
    for pert in FOOTER_PERTS:
        specs.append({'gen': 'vmdk', 'params': {'footer': True, 'footer_pert': pert}})
        specs.append({'gen': 'vmdk', 'params': {'footer': True, 'footer_pert': pert, 'ctype': 'streamOptimized', 'desc_num': 2}})
    # footer fields that contradict the header without an 0x5a flip: other sector counts / locations, small and large
    # (large ones need a real 1 MiB descriptor area)
    for hd, fd in ((20, 21), (20, 2048), (2, 3), (2048, 4096), (2048, 2049), (3000, 2999), (2048, 1 << 32), (4096, 2048)):
        for ctype in ('monolithicSparse', 'streamOptimized'):
            specs.append({'gen': 'vmdk', 'params': {'desc_num': hd, 'footer': True, 'footer_over': {'desc_num': fd},
                                                    'ctype': ctype, 'min_total': 0}})
    for fs in (0, 2, 1 << 40):
        specs.append({'gen': 'vmdk', 'params': {'footer': True, 'footer_over': {'desc_sec': fs}, 'min_total': 0}})
    for fv in (2, 3, 0):
        specs.append({'gen': 'vmdk', 'params': {'footer': True, 'footer_over': {'ver': fv}, 'min_total': 0}})
    specs.append({'gen': 'vmdk', 'params': {'desc_num': 2048, 'footer': True, 'min_total': 0}})      # clean, large descriptor
    # two createType headers, the first one naming an unsupported type (short, 63, 64, 65, 300 characters long)
    for first in ('vmfs', 'twoGbMaxExtentFlat', 'x' * 63, 'y' * 64, 'z' * 65, 'monolithicFlat' + 'q' * 300, ''):
        for second in ('monolithicSparse', 'streamOptimized'):
            specs.append({'gen': 'vmdk', 'params': {'ctype_first': first, 'ctype': second, 'min_total': 0}})
            specs.append({'gen': 'vmdk', 'params': {'ctype_first': first, 'ctype': second, 'min_total': 0, 'footer': True}})
            for style in ('comment', 'comment-tail', 'indented-comment'):
                specs.append({'gen': 'vmdk', 'params': {'ctype_first': first, 'ctype': second, 'min_total': 0,
                                                        'ctype_first_style': style}})
    # descriptor lines are what stands between two '\\n': a vertical tab, form feed, file/group/record separator or lone
    # carriage return inside a line does not end it - an extent naming a path, or an unrecognised line, stays one when
    # such a character cuts it into pieces that would each be fine
    for ctrl in ('\x0b', '\x0c', '\x1c', '\x1d', '\x1e', '\r'):
        for line in ('RW 8 SPARSE "x.vmdk"' + ctrl + '# /etc/passwd', 'rw' + ctrl + 'ddb junk',
                     'RW 8 FLAT "disk-flat.vmdk" 0' + ctrl + 'ddb.path = "/dev/sda"',
                     'rdonly 1 sparse "a"' + ctrl + 'x=/etc/shadow', '# comment' + ctrl + 'surprise' if False else 'noaccess' + ctrl + '#'):
            for footer in (False, True):
                specs.append({'gen': 'vmdk', 'params': {'extra': [[line, False]], 'min_total': 0, 'footer': footer,
                                                        'ctype': rng.choice(['monolithicSparse', 'streamOptimized'])}})
    # bytes that are not NUL after the NUL that ends the descriptor text (left-overs of an earlier, longer descriptor; binary):
    # not part of the descriptor - a clean image stays clean, an unclean one stays unclean
    for stale in ('ascii', 'utf8', 'late-utf8', 'bin1', 'bin2'):
        for dn in (1, 2, 20, 100):
            specs.append({'gen': 'vmdk', 'params': {'desc_num': dn, 'min_total': 0, 'desc_stale': stale,
                                                    'footer': rng.random() < 0.3}})
            specs.append({'gen': 'vmdk', 'params': {'desc_num': dn, 'min_total': 0, 'desc_stale': stale,
                                                    'extents': ['RW 2048 FLAT "/etc/passwd" 0']}})
    # descriptors that fill the whole window the inspector reads, the offending (or a harmless) line at its very end:
    # every byte of the window counts, also the last sector of a 1 MiB descriptor
    bad_lines = [['RW 2048 FLAT "/etc/passwd" 0', False], ['RDONLY 1 SPARSE "../x.vmdk"', False], ['surprise', False],
                 ['# harmless comment', True], ['ddb.adapterType = "ide"', True]]
    for dn in ((2048, 4096, 2047, 3000, 40) if not ctx.quick else (2048, 2047, 40, rng.choice([4096, 3000, 2049]))):
        for back in ((0, 1, 30, 255, 480, 510, 511, 512, 600) if not ctx.quick else (0, rng.choice([1, 30, 255]), rng.choice([480, 510, 511]), 600)):
            for line in (bad_lines if not ctx.quick else [bad_lines[rng.randrange(3)], bad_lines[3 + rng.randrange(2)]]):
                specs.append({'gen': 'vmdk', 'params': {'desc_num': dn, 'min_total': 0, 'window_tail_line': line,
                                                        'window_tail_back': back,
                                                        'ctype': rng.choice(['monolithicSparse', 'streamOptimized'])}})
    specs += other_specs(rng, ctx.pick(2000, 150000))
    specs += text_specs(rng, ctx.pick(150, 10000))
    cli_budget = ctx.pick(32, 800)
    step = max(1, (len(specs) // ctx.nshards) // max(1, cli_budget // ctx.nshards))
    mycount = 0
    for j, spec in enumerate(specs):
        seed_for_case = rng.getrandbits(48)
        if not mine():
            continue
        crng = ctx.rng('case-%d' % seed_for_case)
        if spec['gen'] != 'vmdk_text' and crng.random() < 0.15:
            spec = add_truncation(crng, spec)
        data, name, verdict, resp, truth = reference(spec)
        if spec['gen'] == 'vmdk_text':
            pass
        case = {'kind': 'image', 'spec': spec, 'schedules': schedules_for(crng, len(data), truth)}
        if crng.random() < 0.5:
            case['wrapper_schedules'] = [crng.choice(schedules_for(crng, len(data), truth, 4))]
        mycount += 1
        if crng.random() < 0.25:
            case['cli'] = 'inprocess'
        if mycount % step == 0:
            case['cli'] = 'subprocess'
        ctx.sample('%s/%s' % (spec['gen'], verdict), {'spec': spec, 'reference_verdict': verdict, 'responsible': resp})
        eval_image(ctx, case)


def eval_raw_kdmv(ctx, raw, cuts):
    """K11 canary on literal bytes (not a generator spec)."""
    res = sl.feed_wrapper(raw, cuts, monitor=False)
    ctx.case(('k11-canary', raw, tuple(cuts)))
    if res['final'] == 'vmdk':
        outcome = sl.safety_outcome(res['wrapper'].format)
        judge(ctx, {'kind': 'k11-canary', 'cuts': cuts}, 'wrapper', 'reject', [], outcome, None)


# a third of the cases runs with the library's loggers at DEBUG and a handler that renders every record (debug=True in a
# service's configuration); what the inspectors conclude may not depend on it
from vlib import envmodes as _envmodes_dbg  # noqa: E402
eval_image = _envmodes_dbg.with_modes(eval_image, debug=lambda case: True)
