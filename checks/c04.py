"""C04 mask_password hides every supported secret and changes nothing else.

Constructive oracle: a message is composed as

    pre + left_1 + secret_1 + right_1 + after_1 + left_2 + secret_2 + ...

where left/right are one of 14 supported renderings of a sanitize key (35 keys
x letter case / digit suffix) and pre/after are neutral text that cannot spell
a key.  The expected result is the same composition with every secret replaced
by the mask, so nothing is parsed and the function under test is never asked
what the answer should be.  Four clauses are monitored separately:

  (a) exact output        result == expected
  (b) no leak             a secret that does not occur in `expected` does not
                          occur in the result
  (c) idempotence         mask(mask(m)) == mask(m)
  (d) identity            a message without any sanitize key is returned as is

Known finding K12 (listed) excuses (a) and (c) - never (b) - on inputs that
satisfy the input-only predicate k12_applies().
"""
import collections
import re
import string

PROPERTY = 'C04'
LEVEL = 'exploration'
ANCHORS = [('oslo_utils.strutils', 'mask_password')]
RULE = ('directed corpus (docstring examples, one message per rendering, D4/K12 witnesses) + exhaustive sweep '
        'secret-alphabet character x 14 renderings x {alone, leading, inner, trailing} + grid rounds over '
        '35 keys x {lower, UPPER, Capitalised, digit-suffixed, mIxEd} x 14 renderings with a fresh secret '
        '(per-rendering alphabet, length 1..40), surrounding class (rotating over 13) and mask per cell and round '
        '+ messages with 2..4 secrets + key-free messages (four alphabets that cannot spell a key, near-miss key '
        'spellings in every rendering). every message is non-trivial; distinct by (message, mask)')
REQUIRED_CLAUSES = ['equal-valued-arguments-in-any-order', 'valid-calls-after-rejected-calls-answer-as-before', 'under-warnings-as-errors', 'concurrent-calls-answer-as-alone', 'first-use-under-recursion-pressure', 'documented-keyword-call', 'b-no-leak (dash-leading secret)', 'a-exact-output', 'b-no-leak', 'c-idempotent', 'd-identity-without-key']
ASSUMPTIONS = [
    'expected output is composed from the generator components; the 35 keys are the list in the property '
    '(copied here, not imported from the code under test)',
    'secret alphabets are "what the rendering can carry": no quote characters anywhere; no whitespace in bare '
    'renderings (k=v, k = v, --k v, k --flag v) and the text after a bare secret starts with whitespace or is '
    'empty; no "=" and no leading "-" in --k v; no "<" in XML; spaces allowed in quoted and XML renderings',
    'neutral text never contains a sanitize key (checked after lower() and casefold()) and text placed directly '
    'before a rendering ends with whitespace or an opening bracket/comma, so it cannot extend a match',
    'masks come from a pool without backslashes (regex template syntax), whitespace, quotes, "<", "=", "^" or a '
    'leading "-", i.e. every mask is itself a value every rendering can carry; the empty mask is excluded',
    'known finding K12 excuses clauses (a) and (c) only, and only where k12_applies(case) holds; clause (b) is '
    'enforced on every message',
    'a quoted k="v" value that contains the other quote kind is observed (must not raise) but not asserted',
]
INTERPRETER_FLAGS = [[], ['-O'], ['-X', 'dev'], ['-bb']]
CONCURRENT = lambda case: case.get('kind') != 'twins' and (case.get('kind') != 'starved')          # pure function of its arguments; see vlib/concurrent.py
SHARDS = {'quick': 4, 'thorough': 16}
MIN_DISTINCT = {'quick': 20000, 'thorough': 1000000}

# ----------------------------------------------------------------------
# ground truth tables (from the property statement, not from the code)
# ----------------------------------------------------------------------
KEYS = ['adminpass', 'admin_pass', 'password', 'admin_password', 'auth_token', 'new_pass',
        'auth_password', 'secret_uuid', 'secret', 'sys_pswd', 'token', 'configdrive',
        'chappassword', 'encrypted_key', 'private_key', 'fernetkey', 'sslkey', 'passphrase',
        'cephclusterfsid', 'octaviaheartbeatkey', 'rabbitcookie', 'cephmanilaclientkey',
        'pacemakerremoteauthkey', 'designaterndckey', 'cephadminkey', 'heatauthencryptionkey',
        'cephclientkey', 'keystonecredential', 'barbicansimplecryptokek', 'cephrgwkey',
        'swifthashsuffix', 'migrationsshkey', 'cephmdskey', 'cephmonkey', 'chapsecret']
assert len(KEYS) == 35 and len(set(KEYS)) == 35

GRID_VARIANTS = ['lower', 'UPPER', 'Capitalised', 'digits']      # the required 35 x 4 x 14 grid
EXTRA_VARIANTS = ['mIxEd']                                       # "in any letter case": bonus column
QUOTES = '\'"'

NONASCII = 'éßüñøЖд漢字😀€¿½λ' + '\u0130\u0130\u0149\u01f0\u0390\ufb01\u1e9e'   # incl. characters whose case mappings change length (U+0130 ...)
PUNCT = ''.join(c for c in string.punctuation if c not in QUOTES)     # includes ^ = < \ - and every regex meta
REGEX_META = '.*+?()[]{}|\\$^'
BASE = string.ascii_letters + string.digits + PUNCT + NONASCII

# rendering name -> (class, secret alphabet)
#   class: 'bare' (value ends at whitespace), 'quoted', 'dict' (quoted key, colon, quoted value), 'xml'
RENDERINGS = collections.OrderedDict([
    ('eq_bare', ('bare', BASE)),                              # k=v
    ('eq_sp', ('bare', BASE)),                                # k = v
    ('eq_dq', ('quoted', BASE + ' ')),                        # k="v"
    ('eq_sq', ('quoted', BASE + ' ')),                        # k='v'
    ('json_dq', ('dict', BASE + ' ')),                        # "k": "v"
    ('dict_sq', ('dict', BASE + ' ')),                        # 'k': 'v'
    ('dict_u', ('dict', BASE + ' ')),                         # u'k': u'v'
    ('json_mixed', ('dict', BASE + ' ')),                     # 'k': "v"  /  "k": 'v'
    ('xml', ('xml', BASE.replace('<', '') + ' ')),            # <k>v</k>
    ('ddash', ('bare', BASE.replace('=', ''))),               # --k v   (and v does not start with '-')
    ('sp_sq', ('quoted', BASE + ' ')),                        # k 'v'
    ('sp_dq', ('quoted', BASE + ' ')),                        # k "v"
    ('kfv', ('bare', BASE)),                                  # k --flag v
    ('list_kfv', ('quoted', BASE + ' ')),                     # 'k', '--flag', 'v'
])
assert len(RENDERINGS) == 14
RNAMES = list(RENDERINGS)
FLAGS = ['--flag', '-p', '--value', '-X', '--pw', '--from', '--new_value', '-o_v', '--dry_run', '--x_y_z']

MASKS = [None, '***', '***', '*', 'XXXXXXXX', '[redacted]', '####', '(hidden)', '…', '%s', '{}', '$1',
         '.*', '?', '+++', 'é*', 'MASK', '0', '***REMOVED***', '/dev/null', '~']

# four alphabets none of which can spell a key: every key has a letter outside each of them
_LETTERS = string.ascii_lowercase
_ID_PUNCT = ' ' * 8 + '.,;:()[]{}-_/+*#@!?%&|~$<>=\\^\'"' + string.digits + 'éß漢😀\n\t\u0130\ufb01'
ID_ALPHABETS = {}
for _drop in ('es', 'ade', 'cks', 'ept'):
    _a = ''.join(c for c in _LETTERS if c not in _drop)
    ID_ALPHABETS['without-' + _drop] = _a + _a.upper() + _ID_PUNCT
    for _k in KEYS:
        assert set(_k) & set(_drop), (_k, _drop)        # the alphabet cannot spell this key
NEUTRAL_LETTERS = ''.join(c for c in _LETTERS if c not in 'es')
NEUTRAL_WORD = NEUTRAL_LETTERS + NEUTRAL_LETTERS.upper() + string.digits

_CHARS = collections.Counter()          # characters used in secrets (flushed into ctx at the end of run)
_CELLS = set()                          # (key, variant, rendering) cells evaluated by this worker
_OBSERVED_NOTED = []                    # one note per worker about the observed-only zone


_KEY_RE = re.compile('|'.join(re.escape(k) for k in KEYS))


def contains_key(text):
    """Harness-side filter for neutral text and secrets (stricter than the code's own lower() test)."""
    return bool(_KEY_RE.search(text.lower()) or _KEY_RE.search(text.casefold()))


# ----------------------------------------------------------------------
# known finding K12: input-only predicate
# ----------------------------------------------------------------------
def k12_applies(message_components):
    """True when the message contains a secret in dict/JSON style (quoted key,
    colon, quoted value) and at least one quote character anywhere after that
    value's closing quote.  Looks at the generator components only."""
    parts = message_components.get('parts', [])
    for i, p in enumerate(parts):
        if RENDERINGS.get(p['rendering'], ('?',))[0] != 'dict' and p.get('cls') != 'dict':
            continue
        # right starts with the closing quote of the value
        tail = p['right'][1:] + p['after']
        for q in parts[i + 1:]:
            tail += q['left'] + q['secret'] + q['right'] + q['after']
        if '"' in tail or "'" in tail:
            return True
    return False


# ----------------------------------------------------------------------
# evaluation
# ----------------------------------------------------------------------
def compose(case, mask=None):
    out = [case['pre']]
    for p in case['parts']:
        out += [p['left'], p['secret'] if mask is None else mask, p['right'], p['after']]
    return ''.join(out)


def _call(strutils, message, mask):
    try:
        if mask is None:
            return strutils.mask_password(message), None
        return strutils.mask_password(message, mask), None
    except BaseException as e:  # noqa
        return None, e


def _char_class(c):
    if c == '^':
        return 'caret (D4)'
    if c == ' ':
        return 'space'
    if c in REGEX_META:
        return 'regex metacharacter'
    if c in string.ascii_letters:
        return 'ascii letter'
    if c in string.digits:
        return 'digit'
    if ord(c) > 127:
        return 'non-ascii'
    return 'other punctuation'


def eval_starved(ctx, case):
    from oslo_utils import strutils
    from vlib import envmodes
    key, secret = case['key'], 'S3cr3tValueQ'
    msg = 'request failed: %s=%s (retrying)' % (key, secret)
    want = msg.replace(secret, '***')
    res, exc = envmodes.call_at_depth(lambda: strutils.mask_password(msg), case['headroom'])
    ctx.clause('first-use-under-recursion-pressure')
    if exc is not None and not isinstance(exc, RecursionError):
        ctx.fail('first-use-under-recursion-pressure', case, {'exc': exc})
    elif exc is None and res != want:
        ctx.fail('first-use-under-recursion-pressure', case, {'got': res, 'want': want})
    try:
        res2 = strutils.mask_password(msg)
    except BaseException as e:  # noqa
        res2 = e
    if res2 != want:
        ctx.fail('first-use-under-recursion-pressure', case,
                 {'ordinary_call_after_starved_first_use': res2, 'want': want, 'starved_outcome': exc or res})


def TWIN_FUNCS():
    from oslo_utils import strutils
    return {'mask_password': lambda v: strutils.mask_password(v),
            'mask_password_secret': lambda v: strutils.mask_password(v, secret='###')}


TWIN_TEXT_FUNCS = ['mask_password', 'mask_password_secret']
TWIN_TEXTS = ['password=abc', "{'adminPass': 'Xy'}", 'Token: Yz9', 'nothing here', '<AdminPass>Sec</AdminPass>', 'X-Auth-Token: AbC',
              'auth_token = "Q1w2"', "'secret_uuid' : 'AbCd-12'"]
TWIN_NUM_FUNCS = ()
TWIN_NUMBERS = ()


def _evaluate_nomodes(ctx, case):
    if case.get('kind') == 'twins':
        from vlib import twins as _tw
        return _tw.evaluate_case(ctx, case, TWIN_FUNCS())
    if case.get('kind') == 'starved':
        return eval_starved(ctx, case)
    from oslo_utils import strutils
    from vlib import callstyle
    strutils = callstyle.proxy(strutils)
    kind = case['kind']
    mask = case.get('mask')
    mask_text = '***' if mask is None else mask

    if kind == 'identity':
        text = case['text']
        ctx.case(('identity', text, mask))
        ctx.h('identity class', case.get('cls', '?'))
        got, exc = _call(strutils, text, mask)
        if exc is not None:
            ctx.fail('must-not-raise', case, {'message': text, 'exc': exc})
            return
        ctx.clause('d-identity-without-key')
        if got != text:
            ctx.fail('d-identity-without-key', case, {'message': text, 'got': got})
        return

    if kind == 'leak-only':
        message = compose(case)
        ctx.case(('leak-only', message, mask))
        got, exc = _call(strutils, message, mask)
        if exc is not None or not isinstance(got, str):
            ctx.fail('must-not-raise', case, {'message': message, 'exc': exc})
            return
        for p in case['parts']:
            if p['secret'] in compose(case, mask_text):
                continue
            ctx.clause('b-no-leak (dash-leading secret)')
            if p['secret'] in got:
                ctx.fail('b-no-leak', case, {'message': message, 'got': got, 'leaked': p['secret']})
        return

    if kind == 'observe':
        # DONT-CARE zone: only "does not raise"; agreement with the naive expectation is recorded
        message, expected = compose(case), compose(case, mask_text)
        ctx.case(('observe', message, mask), nontrivial=False)
        got, exc = _call(strutils, message, mask)
        ctx.clause('observed-must-not-raise')
        if exc is not None:
            ctx.fail('must-not-raise', case, {'message': message, 'exc': exc})
            return
        ctx.h('observed, not asserted: ' + case.get('cls', '?'),
              'as naively expected' if got == expected else 'differs')
        if got != expected and not _OBSERVED_NOTED:
            _OBSERVED_NOTED.append(True)
            ctx.note('observed zone (not asserted): %s is not masked as naively expected, e.g. %r -> %r' % (
                case.get('cls', '?'), message[:120], got[:120]))
        return

    # kind == 'mask'
    message, expected = compose(case), compose(case, mask_text)
    k12 = k12_applies(case)
    ctx.case(('mask', message, mask))
    sur = case.get('sur', '?')
    for p in case['parts']:
        cell = (p['key'], p['variant'], p['rendering'])
        _CELLS.add(cell)
        ctx.h('key x case x rendering', '%s/%s/%s' % cell)
        ctx.h('rendering x surrounding', '%s | %s' % (p['rendering'], sur))
        ctx.h('rendering x oracle zone', '%s | %s' % (p['rendering'], 'K12 zone' if k12 else 'exact'))
        ctx.h('secret length', '%02d' % len(p['secret']))
        _CHARS.update(p['secret'])
    ctx.h('secrets per message', str(len(case['parts'])))
    ctx.h('mask', repr(mask))

    got, exc = _call(strutils, message, mask)
    if exc is not None:
        ctx.fail('must-not-raise', case, {'message': message, 'exc': exc})
        return
    if not isinstance(got, str):
        ctx.fail('result-type', case, {'message': message, 'got': got})
        return

    # (a) exact output
    if k12:
        ctx.clause('a-exact-output (K12 zone, excused)')
        if got != expected:
            ctx.fail('a-exact-output', case, {'message': message, 'got': got, 'want': expected}, known='K12')
    else:
        ctx.clause('a-exact-output')
        if got != expected:
            ctx.fail('a-exact-output', case, {'message': message, 'got': got, 'want': expected})

    # (b) no leak - enforced everywhere
    for p in case['parts']:
        s = p['secret']
        if s in expected:
            ctx.clause('b-no-leak (vacuous: secret occurs in neutral text/mask/key)')
            continue
        ctx.clause('b-no-leak')
        if s in got:
            ctx.fail('b-no-leak', case, {'message': message, 'got': got, 'leaked': s, 'k12_zone': k12})

    # (c) idempotence
    again, exc2 = _call(strutils, got, mask)
    if exc2 is not None:
        ctx.fail('must-not-raise', case, {'message': got, 'exc': exc2, 'note': 'second masking'})
        return
    if k12:
        ctx.clause('c-idempotent (K12 zone, excused)')
        if again != got:
            ctx.fail('c-idempotent', case, {'message': message, 'once': got, 'twice': again}, known='K12')
    else:
        ctx.clause('c-idempotent')
        if again != got:
            ctx.fail('c-idempotent', case, {'message': message, 'once': got, 'twice': again})


from vlib import envmodes  # noqa: E402
evaluate = envmodes.with_modes(_evaluate_nomodes, warn=lambda case: case.get('kind') != 'starved')


# ----------------------------------------------------------------------
# generators
# ----------------------------------------------------------------------
def spell(rng, key, variant):
    if variant == 'lower':
        return key
    if variant == 'UPPER':
        return key.upper()
    if variant == 'Capitalised':
        return key.capitalize()
    if variant == 'digits':
        base = rng.choice([key, key, key.upper(), key.capitalize()])
        n = rng.choice([1, 1, 2, 2, 3, 6])
        return base + ''.join(rng.choice(string.digits) for _ in range(n))
    if variant == 'mIxEd':
        while True:
            s = ''.join(c.upper() if rng.random() < 0.5 else c for c in key)
            if s not in (key, key.upper(), key.capitalize()):
                return s
    raise ValueError(variant)


def render(rng, rname, k):
    """(left, right) around the value for key spelling k."""
    if rname == 'eq_bare':
        return k + '=', ''
    if rname == 'eq_sp':
        return k + rng.choice([' = ', ' = ', ' =', '= ', '  =  ', '\t=\t', ' =\n']), ''
    if rname in ('eq_dq', 'eq_sq'):
        q = '"' if rname == 'eq_dq' else "'"
        return k + rng.choice(['=', '=', ' = ', '= ', ' =']) + q, q
    if rname in ('json_dq', 'dict_sq'):
        q = '"' if rname == 'json_dq' else "'"
        return q + k + q + rng.choice([': ', ': ', ':', ' : ', ' :', ':  ']) + q, q
    if rname == 'dict_u':
        q = rng.choice(["'", "'", '"'])
        return rng.choice(['u', 'u', '']) + q + k + q + rng.choice([': ', ': ', ':', ' : ']) + 'u' + q, q
    if rname == 'json_mixed':
        qk, qv = rng.choice([("'", '"'), ('"', "'")])
        return qk + k + qk + rng.choice([': ', ':', ' : ']) + qv, qv
    if rname == 'xml':
        return '<' + k + '>', '</' + k + '>'
    if rname == 'ddash':
        return '--' + k + rng.choice([' ', ' ', '  ', '\t']), ''
    if rname in ('sp_sq', 'sp_dq'):
        q = "'" if rname == 'sp_sq' else '"'
        return k + rng.choice([' ', ' ', '  ', '\t']) + q, q
    if rname == 'kfv':
        return k + rng.choice([' ', ' ', '  ']) + rng.choice(FLAGS) + rng.choice([' ', ' ', '  ']), ''
    if rname == 'list_kfv':
        qk = rng.choice(["'", "'", '"'])
        qv = rng.choice(["'", "'", '"'])
        sep = rng.choice([', ', ', ', ',', ' , '])
        return (qk + k + qk + sep + "'" + rng.choice(FLAGS) + "'" + sep +
                rng.choice(['', '', 'u']) + qv), qv
    raise ValueError(rname)


LENGTHS = [1, 1, 2, 2, 3, 3, 4, 5, 6, 8, 8, 10, 12, 16, 16, 20, 24, 32, 39, 40]


def gen_secret(rng, rname):
    cls, alpha = RENDERINGS[rname]
    spaces = ' ' in alpha
    for _ in range(100):
        n = rng.choice(LENGTHS) if rng.random() < 0.8 else rng.randint(1, 40)
        f = rng.randrange(9)
        if f == 0:
            pool = string.ascii_letters + string.digits
        elif f == 1:
            pool = ''.join(c for c in PUNCT if c in alpha)
        elif f == 2:
            pool = ''.join(c for c in REGEX_META if c in alpha) + 'ab1'
        elif f == 3:
            pool = NONASCII + 'abcXYZ019'
        elif f == 4:
            pool = rng.choice(alpha.replace(' ', '')) * 1
        elif f == 5 and spaces:
            pool = string.ascii_lowercase + '     ' + PUNCT.replace('<', '') + ' '
            pool = ''.join(c for c in pool if c in alpha)
        else:
            pool = alpha
        s = ''.join(rng.choice(pool) for _ in range(n))
        if '^' in alpha and rng.random() < 0.12:
            i = rng.randrange(len(s) + 1)
            s = (s[:i] + '^' + s[i:])[:40]
        if rname == 'ddash' and s.startswith('-'):
            continue
        if contains_key(s):
            continue
        return s
    return 'v'


def neutral_words(rng, n):
    return ' '.join(''.join(rng.choice(NEUTRAL_WORD) for _ in range(rng.randint(1, 7))) for _ in range(n))


def neutral_random(rng, n, quotes):
    pool = NEUTRAL_WORD * 2 + ' ' * 12 + '.,;:()[]{}-_/+*#@!?%&|~$<>=\\^' + 'éß漢😀\u0130\u0130\u0149\ufb01' + (QUOTES * 3 if quotes else '')
    return ''.join(rng.choice(pool) for _ in range(n))


PRE_END = [' ', ' ', ' ', '\n', '\t', '(', '[', '{', ',', ', ']

SUR_CLASSES = ['none', 'words', 'pairs', 'quoted-pairs', 'json', 'json-last', 'pydict', 'pydict-last',
               'xml', 'cmd', 'random', 'random-quotes', 'lines']
QUOTE_FREE_AFTER = {'none', 'words', 'pairs', 'json-last', 'pydict-last', 'xml', 'cmd', 'random', 'lines'}


def surround(rng, klass):
    """(pre, post) neutral text of the given class; never contains a key."""
    w = lambda: neutral_words(rng, 1)       # noqa
    if klass == 'none':
        return '', ''
    if klass == 'words':
        return (rng.choice(['INFO ', 'WARNING ', '2026-10-01 12:00:01.123 DEBUG ', '']) +
                neutral_words(rng, rng.randint(1, 4)) + ' ',
                rng.choice([' ', '. ', ', ', '; ', ') ']) + neutral_words(rng, rng.randint(1, 4)))
    if klass == 'pairs':
        return ('user=%s id=%d ' % (w(), rng.randrange(1000)),
                ' x=%d mode=%s' % (rng.randrange(100), w()))
    if klass == 'quoted-pairs':
        q = rng.choice(QUOTES)
        return ('name=%s%s%s ' % (q, w(), q), ' mode=%s%s%s' % (q, w(), q))
    if klass == 'json':
        return ('{"username": "%s", "id": %d, ' % (w(), rng.randrange(100)),
                ', "tenant": "%s", "flag": true}' % w())
    if klass == 'json-last':
        return ('{"username": "%s", "id": %d, ' % (w(), rng.randrange(100)), rng.choice(['}', ' }', '}}', '}\n']))
    if klass == 'pydict':
        return ("{'id': %d, 'name': '%s', " % (rng.randrange(100), w()),
                ", 'region': u'%s', 'n': None}" % w())
    if klass == 'pydict-last':
        return ("{'id': %d, 'name': u'%s', " % (rng.randrange(100), w()), rng.choice(['}', ' }', '})', '}]']))
    if klass == 'xml':
        return ('<user>%s</user> ' % w(), ' <name>%s</name>' % w())
    if klass == 'cmd':
        return ('%s --verbose -q ' % w(), ' --other %s -n %d' % (w(), rng.randrange(10)))
    if klass == 'lines':
        return (neutral_words(rng, 2) + '\n', '\n' + neutral_words(rng, 2) + '\n')
    if klass in ('random', 'random-quotes'):
        q = klass == 'random-quotes'
        pre = neutral_random(rng, rng.randint(0, 30), q) + rng.choice(PRE_END)
        post = neutral_random(rng, rng.randint(0, 30), q)
        return pre, post
    raise ValueError(klass)


UNICODE_BLANKS = '\u00a0\u2003\u2028\u3000\u0085\u2009\u1680'


def fit_after(cls, text):
    """The text after a bare secret starts with whitespace or is empty.  Whitespace is what str.isspace() and the regex
    class \\s call whitespace, so one time in five the separating blank is a no-break space, an em space, a line
    separator, an ideographic space or NEL instead of an ASCII one."""
    if cls == 'bare' and text and not text[0].isspace():
        n = (len(text) * 7 + ord(text[0])) % (5 * len(UNICODE_BLANKS))
        return (UNICODE_BLANKS[n] if n < len(UNICODE_BLANKS) else ' ') + text
    return text


GLUE = ['new_', 'admin_', 'os_', 'x-', 'my', 'original_', 'db.', 'NEW_', 'user', 'old']


def make_part(rng, key, variant, rname, secret=None):
    k = spell(rng, key, variant)
    left, right = render(rng, rname, k)
    if rname not in ('xml', 'ddash') and rng.random() < 0.15:
        # the key as the tail of a longer field name (new_password=..., "admin_passphrase": ...): the glued
        # text is neutral surrounding text; together with the key it may spell a second, overlapping key
        left = left.replace(k, rng.choice(GLUE) + k, 1)
    if secret is None:
        secret = gen_secret(rng, rname)
    return {'key': key, 'variant': variant, 'rendering': rname, 'spelling': k,
            'left': left, 'secret': secret, 'right': right, 'after': ''}


def neutral_ok(case):
    """No sanitize key anywhere outside the key spellings themselves."""
    out = [case['pre']]
    for p in case['parts']:
        out += [p['left'].replace(p['spelling'], '\x00'), p['secret'],
                p['right'].replace(p['spelling'], '\x00'), p['after']]
    return not contains_key(''.join(out))


def single_case(rng, key, variant, rname, sur, mask, secret=None):
    cls = RENDERINGS[rname][0]
    for _ in range(20):
        part = make_part(rng, key, variant, rname, secret)
        pre, post = surround(rng, sur)
        part['after'] = fit_after(cls, post)
        case = {'kind': 'mask', 'pre': pre, 'parts': [part], 'mask': mask, 'sur': sur}
        if neutral_ok(case):
            return case
    raise RuntimeError('could not build a key-free surrounding')


SEPS = [' ', ' ', ', ', '; ', '\n', ' and ', ' | ', ' (', ', [', ' {', '\t']
SEPS_Q = [' "x" ', " 'y', ", ' it\'s ', ', "n": "v", ']


def many_same_case(rng, mask):
    """19..40 secrets under ONE key in ONE rendering in one message (every one of them must be masked)."""
    key = rng.choice(KEYS)
    rname = rng.choice([r for r in RNAMES if r not in ('json_dq', 'dict_sq', 'dict_u', 'json_mixed', 'list_kfv')])
    cls = RENDERINGS[rname][0]
    n = rng.choice([19, 20, 25, 40])
    parts = []
    for i in range(n):
        p = make_part(rng, key, rng.choice(['lower', 'digits', 'lower', 'UPPER']), rname)
        p['after'] = fit_after(cls, rng.choice([' ', '\n', ' ; ', ' and ']) if i < n - 1 else '')
        parts.append(p)
    case = {'kind': 'mask', 'pre': rng.choice(['', 'batch: ', 'rows:\n']), 'parts': parts, 'mask': mask,
            'sur': 'many-secrets-one-key-one-rendering'}
    return case if neutral_ok(case) else None


def dash_secret_case(rng, mask):
    """--key value whose value starts with a dash: which neighbouring token gets masked as well is not pinned
    (it looks like the key-flag-value form), but the secret itself must never survive."""
    key = rng.choice(KEYS)
    secret = '-' + gen_secret(rng, 'ddash').lstrip('-')
    p = make_part(rng, key, rng.choice(GRID_VARIANTS), 'ddash', secret=secret)
    p['after'] = rng.choice(['', ' ', ' tail', '\n'])
    case = {'kind': 'leak-only', 'pre': rng.choice(['', 'cmd ', 'run: ']), 'parts': [p], 'mask': mask,
            'sur': 'dash-leading secret'}
    return case if (neutral_ok(case) and len(secret) > 1) else None


def multi_case(rng, mask):
    n = rng.choice([2, 2, 2, 3, 3, 4])
    for _ in range(20):
        sur = rng.choice(SUR_CLASSES)
        pre, post = surround(rng, sur)
        parts = []
        quote_free = rng.random() < 0.6
        for i in range(n):
            rname = rng.choice(RNAMES)
            cls = RENDERINGS[rname][0]
            p = make_part(rng, rng.choice(KEYS), rng.choice(GRID_VARIANTS + EXTRA_VARIANTS), rname)
            if i < n - 1:
                sep = rng.choice(SEPS if (quote_free or rng.random() < 0.7) else SEPS_Q)
                if not sep[-1] in ' \n\t([{,':
                    sep += ' '
                p['after'] = fit_after(cls, sep)
            else:
                p['after'] = fit_after(cls, post)
            parts.append(p)
        if quote_free:
            # keep the text after the last secret free of quotes, so that a dict-style secret placed last
            # (or followed by bare/XML renderings only) stays outside the K12 zone
            last = parts[-1]
            if sur not in QUOTE_FREE_AFTER:
                last['after'] = fit_after(RENDERINGS[last['rendering']][0], rng.choice(['', '}', ' .', ' ok']))
        case = {'kind': 'mask', 'pre': pre, 'parts': parts, 'mask': mask, 'sur': 'multi/' + sur}
        if neutral_ok(case):
            return case
    raise RuntimeError('could not build a key-free multi-secret message')


def near_miss(rng, key):
    """A spelling close to a key that is not a key."""
    k = rng.randrange(6)
    i = rng.randrange(len(key))
    if k == 0:
        s = key[:i] + key[i + 1:]                                  # one character dropped
    elif k == 1:
        s = key[:i] + rng.choice(' -._/0') + key[i:] if i else key[:1] + '-' + key[1:]   # separator inside
    elif k == 2:
        s = key[:i] + rng.choice('xzqj7') + key[i + 1:]            # one character replaced
    elif k == 3:
        s = key[:-1]                                               # truncated
    elif k == 4:
        s = key[1:]
    else:
        j = rng.randrange(len(key) - 1)
        s = key[:j] + key[j + 1] + key[j] + key[j + 2:]            # transposition
    return rng.choice([s, s.upper(), s.capitalize()])


def identity_case(rng, mask):
    k = rng.randrange(8)
    if k < 4:
        name = sorted(ID_ALPHABETS)[k]
        alpha = ID_ALPHABETS[name]
        text = ''.join(rng.choice(alpha) for _ in range(rng.choice([0, 1, 5, 20, 60, 120, 300])))
        cls = 'alphabet ' + name
    elif k < 7:
        for _ in range(50):
            rname = rng.choice(RNAMES)
            word = near_miss(rng, rng.choice(KEYS))
            left, right = render(rng, rname, word)
            value = gen_secret(rng, rname)
            pre, post = surround(rng, rng.choice(SUR_CLASSES))
            text = pre + left + value + right + fit_after(RENDERINGS[rname][0], post)
            if not contains_key(text):
                break
        else:
            text = 'user=bob'
        cls = 'near-miss key in rendering ' + rname
    else:
        names = ['username', 'user', 'pass', 'passwd', 'pwd', 'key', 'auth', 'admin', 'tok', 'credential',
                 'ssl_key', 'config_drive', 'cookie', 'hash', 'uuid', 'id']
        bits = []
        for _ in range(rng.randint(1, 4)):
            rname = rng.choice(RNAMES)
            left, right = render(rng, rname, rng.choice(names))
            bits.append(left + gen_secret(rng, rname) + right)
        text = rng.choice(SEPS).join(bits)
        cls = 'renderings of non-key names'
        if contains_key(text):
            text, cls = 'user=bob id=7', 'renderings of non-key names'
    return {'kind': 'identity', 'text': text, 'mask': mask, 'cls': cls}


def observe_case(rng, mask):
    """k="it's" / k='say "x"': the other quote kind inside a quoted k=v value."""
    rname = rng.choice(['eq_dq', 'eq_sq'])
    other = "'" if rname == 'eq_dq' else '"'
    for _ in range(20):
        p = make_part(rng, rng.choice(KEYS), rng.choice(GRID_VARIANTS), rname)
        i = rng.randrange(len(p['secret']) + 1)
        p['secret'] = p['secret'][:i] + other + p['secret'][i:]
        pre, post = surround(rng, rng.choice(sorted(QUOTE_FREE_AFTER)))
        p['after'] = post
        case = {'kind': 'observe', 'pre': pre, 'parts': [p], 'mask': mask,
                'cls': 'other quote kind inside quoted k=v'}
        if neutral_ok(case):
            return case
    return None


def directed_cases():
    def part(key, rname, left, secret, right, after='', variant='lower', cls=None):
        d = {'key': key, 'variant': variant, 'rendering': rname, 'spelling': key,
             'left': left, 'secret': secret, 'right': right, 'after': after}
        if cls:
            d['cls'] = cls
        return d
    out = []
    # the docstring's own examples
    out.append(dict(kind='mask', pre='', mask=None, sur='docstring', parts=[
        part('adminpass', 'dict_sq', "'adminPass' : '", 'aaaaa', "'", variant='mIxEd')]))
    out.append(dict(kind='mask', pre='', mask=None, sur='docstring', parts=[
        part('admin_pass', 'dict_sq', "'admin_pass' : '", 'aaaaa', "'")]))
    out.append(dict(kind='mask', pre='', mask=None, sur='docstring', parts=[
        part('password', 'json_dq', '"password" : "', 'aaaaa', '"')]))
    out.append(dict(kind='mask', pre='', mask=None, sur='docstring', parts=[
        part('password', 'dict_sq', "'original_password' : '", 'aaaaa', "'")]))
    # D4 witnesses
    out.append(dict(kind='mask', pre='', mask=None, sur='none', parts=[
        part('password', 'eq_bare', 'password=', 'ab^cd', '')]))
    out.append(dict(kind='mask', pre='', mask=None, sur='none', parts=[
        part('password', 'ddash', '--password ', 'ab^cd', '')]))
    return out


K12_WITNESS = dict(kind='mask', pre='{"username": "admin", ', mask=None, sur='json', parts=[
    {'key': 'password', 'variant': 'lower', 'rendering': 'json_dq', 'spelling': 'password',
     'left': '"password": "', 'secret': 's3cret', 'right': '"', 'after': ', "tenant": "demo"}'}])


def sweep_cases(rng):
    """Every character of each rendering's secret alphabet, alone and at each end / inside."""
    keys = ['password', 'token', 'secret', 'admin_pass']
    i = 0
    for rname, (cls, alpha) in RENDERINGS.items():
        for ch in sorted(set(alpha)):
            for form in ('alone', 'leading', 'inner', 'trailing'):
                secret = {'alone': ch, 'leading': ch + 'x1', 'inner': 'a' + ch + 'b', 'trailing': 'x1' + ch}[form]
                if rname == 'ddash' and secret.startswith('-'):
                    continue
                if contains_key(secret):
                    continue
                i += 1
                key = keys[i % len(keys)]
                sur = ['none', 'words', 'lines', 'cmd'][i % 4]
                yield single_case(rng, key, GRID_VARIANTS[i % 4], rname, sur, MASKS[i % 3], secret=secret)


# ----------------------------------------------------------------------

def REJECTED_FUNCS(ctx):
    from oslo_utils import strutils
    return [strutils.mask_password]


def HAMMER(ctx):
    from oslo_utils import strutils
    out = []
    for m in ('password=s3cret next', "'token': 'abc' and more", '--os-password hunter2 --debug', '<adminPass>xyz</adminPass>', 'nothing to hide here',
              'auth_token = "tok" user=bob', '{"secret_uuid": "u-1", "id": 7}', 'sslkey --key-file k.pem x', 'new_pass=a admin_pass=b sys_pswd=c'):
        out.append(('mask_password(%r)' % m, lambda t=m: strutils.mask_password(t)))
        out.append(('mask_password(%r, "###")' % m, lambda t=m: strutils.mask_password(t, secret='###')))
    return out

def run(ctx):
    # ---- the same characters / the same number handed over as other objects, in several orders (vlib/twins.py)
    from vlib import twins as _tw
    for _i, _case in enumerate(_tw.make_cases(ctx.rng('twins'), ctx.pick(160, 8000), TWIN_TEXT_FUNCS, TWIN_TEXTS,
                                              TWIN_NUM_FUNCS, TWIN_NUMBERS)):
        if ctx.mine(_i):
            evaluate(ctx, _case)
    from oslo_utils import strutils
    block = 0

    def next_block():
        nonlocal block
        block += 1
        return ctx.mine(block)

    repo_keys = list(getattr(strutils, '_SANITIZE_KEYS', []))
    extra = sorted(set(repo_keys) - set(KEYS))
    if extra:
        ctx.note('the code under test lists keys the property does not: %s' % extra)
    ctx.extra['keys listed by the code under test'] = len(repo_keys)

    # ---- the very first use of every key in this process happens with almost no stack left (a log call from deep
    # recursion): RecursionError is the only acceptable failure, and the ordinary call that follows hides the secret
    for i, key in enumerate(KEYS):
        eval_starved(ctx, {'kind': 'starved', 'key': key, 'headroom': 3 + (i * 7 + ctx.shard) % 40})
    # ---- known-finding canary (K12): the documented witness, every run
    if ctx.shard == 0:
        evaluate(ctx, K12_WITNESS)
        ctx.sample('K12 witness', K12_WITNESS)

    # ---- directed corpus
    if next_block():
        for case in directed_cases():
            evaluate(ctx, case)
        rng = ctx.rng('directed')
        for rname in RNAMES:
            case = single_case(rng, 'password', 'lower', rname, 'none', None, secret='aaaaa')
            if rname in ('json_dq', 'xml', 'kfv', 'list_kfv'):
                ctx.sample('rendering ' + rname, case)
            evaluate(ctx, case)
        for text in ['', ' ', 'hello world', 'user=bob', '{"username": "admin"}', "it's fine", '<a>b</a>',
                     '--verbose x', 'pass word=abc', 'tok en: "x"', 'passwd=abc', "'key': 'value'"]:
            evaluate(ctx, {'kind': 'identity', 'text': text, 'mask': None, 'cls': 'directed'})

    # ---- exhaustive character sweep
    if next_block():
        for case in sweep_cases(ctx.rng('sweep')):
            evaluate(ctx, case)
    ctx.exhaustive['secret alphabet character x 14 renderings x {alone, leading, inner, trailing}'] = True

    # ---- grid rounds: every worker walks the whole key x variant x rendering grid in each of its rounds
    variants = GRID_VARIANTS + EXTRA_VARIANTS
    grid = [(k, v, r) for k in KEYS for v in variants for r in RNAMES]
    rounds = ctx.pick(22, 1440)
    for rnd in range(rounds):
        if not next_block():
            continue
        rng = ctx.rng('grid-%d' % rnd)
        for ci, (key, variant, rname) in enumerate(grid):
            sur = SUR_CLASSES[(rnd * 5 + ci) % len(SUR_CLASSES)]
            if RENDERINGS[rname][0] == 'dict' and sur not in QUOTE_FREE_AFTER and (rnd + ci) % 2:
                sur = sorted(QUOTE_FREE_AFTER)[(rnd + ci) % len(QUOTE_FREE_AFTER)]
            mask = MASKS[(rnd + ci * 7) % len(MASKS)] if (rnd + ci) % 3 == 0 else None
            evaluate(ctx, single_case(rng, key, variant, rname, sur, mask))
    ctx.exhaustive['35 keys x 5 spellings x 14 renderings grid (each round)'] = True

    # ---- several secrets per message
    for b in range(ctx.pick(8, 400)):
        if not next_block():
            continue
        rng = ctx.rng('multi-%d' % b)
        for i in range(1000):
            case = multi_case(rng, rng.choice(MASKS))
            if b == 0 and i == 0:
                ctx.sample('several secrets', case)
            evaluate(ctx, case)
        for i in range(60):
            case = many_same_case(rng, rng.choice(MASKS))
            if case:
                evaluate(ctx, case)
        for i in range(150):
            case = dash_secret_case(rng, rng.choice(MASKS))
            if case:
                evaluate(ctx, case)

    # ---- (d) key-free messages
    for b in range(ctx.pick(10, 300)):
        if not next_block():
            continue
        rng = ctx.rng('identity-%d' % b)
        for i in range(1000):
            case = identity_case(rng, rng.choice(MASKS))
            if b == 0 and i < 40:
                ctx.sample('identity: ' + case['cls'].split(' in rendering')[0], case)
            evaluate(ctx, case)

    # ---- observed only
    for b in range(ctx.pick(1, 16)):
        if not next_block():
            continue
        rng = ctx.rng('observe-%d' % b)
        for i in range(1000):
            case = observe_case(rng, rng.choice(MASKS))
            if case is not None:
                evaluate(ctx, case)

    # ---- evidence: cell coverage and secret characters
    required = set((k, v, r) for k in KEYS for v in GRID_VARIANTS for r in RNAMES)
    hit = required & _CELLS
    ctx.extra['grid cells required (35 x 4 x 14)'] = len(required)
    ctx.extra['grid cells hit by one worker'] = len(hit)
    if ctx.nshards == 1 or rounds >= ctx.nshards:
        missing = sorted(required - _CELLS)
        if missing:
            ctx.inconclusive_because('%d of %d key x case x rendering cells never evaluated, e.g. %s' % (
                len(missing), len(required), missing[:3]))
    for ch, n in _CHARS.items():
        ctx.h('secret characters', ch if ch != ' ' else 'SPACE', n)
        ctx.h('secret character classes', _char_class(ch), n)
    ctx.extra['distinct characters used in secrets'] = len(_CHARS)
    alphabet = set(''.join(a for _c, a in RENDERINGS.values()))
    unused = sorted(alphabet - set(_CHARS))
    if unused:
        ctx.inconclusive_because('secret alphabet characters never used: %r' % ''.join(unused))


LEVEL_TEXT = ('Exploration with a constructive oracle: every message is composed from (neutral text, key spelling, '
              'rendering, secret, mask), so the exact expected output is known without parsing. The key x spelling x '
              'rendering grid (35 x 5 x 14) and the secret alphabet x rendering x position table are enumerated '
              'completely; secrets, surroundings and masks are sampled.')
LEVEL_NOTE = ('Trusted: the key list and the description of what each rendering can carry, taken from the property '
              'statement. DONT-CARE (not asserted): masks with backslashes/whitespace/quotes, the empty mask, --key '
              'values containing "=" or looking like an option, quote characters inside secrets, text glued directly '
              'in front of a key. K12 excuses exact output and idempotence - not the no-leak clause - where a '
              'dict/JSON-style secret is followed by a further quote character.')
TECHNIQUE = 'constructive-oracle monitor (message composed from components) with metamorphic idempotence clause'
