"""C09 Exception-handling helpers never lose, replace or invent an exception.

History monitor with an executable model: handler bodies are small programs over the
operations a handler can perform on save_and_reraise_exception; an interpreter runs them with
genuine try/except/with statements against the real helper, vlib/models/reraise.py says which
exception object must come out and how often each context's logger is called.  The same
interpreter style drives exception_filter (all usage forms), remove_path_on_error (real files)
and raise_with_cause.
"""
import collections
import sys
import itertools
import logging
import os

from vlib.models import reraise as model

PROPERTY = 'C09'
LEVEL = 'exploration'
ANCHORS = [('oslo_utils.excutils', 'save_and_reraise_exception.capture'),
           ('oslo_utils.excutils', 'save_and_reraise_exception.__enter__'),
           ('oslo_utils.excutils', 'save_and_reraise_exception.__exit__'),
           ('oslo_utils.excutils', 'save_and_reraise_exception.force_reraise'),
           ('oslo_utils.excutils', 'exception_filter.__exit__'),
           ('oslo_utils.excutils', 'exception_filter.__call__'),
           ('oslo_utils.excutils', 'exception_filter.__get__'),
           ('oslo_utils.excutils', 'raise_with_cause'),
           ('oslo_utils.fileutils', 'remove_path_on_error.__wrapped__|remove_path_on_error.__exit__')]
RULE = ('handler programs: bodies of <= 2 ops over 9 atoms {noop, inner raise-and-catch, raise new, '
        'reraise off, reraise on, force_reraise caught, force_reraise escaping, capture() in an inner '
        'handler, capture() directly} + nested helper (flag, mode, body); depth = number of nested '
        'helpers including the outermost. Enumerated: every body to depth 2 with nest mode plain (quick; '
        'thorough also modes handled/guarded) and, thorough only, every single-spine body (<= 1 nested '
        'helper per body) of depth 3; each x initial flag x exception classes. Sampled: single-spine '
        'depth 3 (quick, every 61st) and depth 4 (thorough, every 13th), seeded random unrestricted '
        'bodies (<= 3 ops, all nest modes) of depth 2, 3 and 4. exception_filter: 4 ways to '
        'make the filter x 7 usage forms x 11 predicates x 9 exception specs; remove_path_on_error: '
        'path state x body x remove callable x class; raise_with_cause: active x explicit cause x '
        'target class x handler shape. non-trivial = non-empty body / an exception is involved; distinct '
        'by the whole case')
REQUIRED_CLAUSES = ['sre-object-reused-for-a-second-handler', 'sre-body-raises-chained-exception', 'sre-outcome', 'sre-identity', 'sre-traceback-tail', 'sre-log-count',
                    'sre-log-mentions-original', 'sre-k9-regime',
                    'filter-suppressed', 'filter-same-object', 'filter-traceback-tail',
                    'rpoe-path-removed', 'rpoe-same-object', 'rpoe-path-stays',
                    'rpoe-remove-raises-propagates', 'rwc-cause']
ASSUMPTIONS = ['the interpreter (this file) uses genuine try/except/with statements, so the exception context '
               'the helpers read through sys.exc_info() is the real one',
               'expected outcomes come from vlib/models/reraise.py, written from the property statement; '
               'predicate truth values come from a table over the generator components',
               'identity is compared with `is`; the traceback clause compares (code object, line) of the '
               'innermost entries with the entries recorded when the exception was first caught',
               'known finding K9 (second force_reraise on one capture) excuses only the identity of an '
               'object produced by such a second force_reraise, by an input-only predicate',
               'remove_path_on_error with non-Exception BaseExceptions is DONT-CARE (observed, not asserted)']
INTERPRETER_FLAGS = [[], ['-O'], ['-X', 'dev'], ['-bb']]
SHARDS = {'quick': 4, 'thorough': 16}
MIN_DISTINCT = {'quick': 5000, 'thorough': 100000}

k9_applies = model.k9_applies      # input-only predicate named in known_findings.json


# ---------------------------------------------------------------------
# exception classes and raise sites (each raise is the 2nd line of its helper)
# ---------------------------------------------------------------------
class CPlain(Exception):
    pass


class CNeed(Exception):
    def __init__(self, a, b):
        super().__init__(a, b)


class CRuntime(RuntimeError):
    def __init__(self, a, b):
        super().__init__(a, b)


class CChained(CPlain):
    pass


class CFalsy(Exception):
    """An aggregate error whose truth value is False (no sub-errors recorded yet) and whose class needs arguments:
    "if not exc" is not "exc is None"."""

    def __init__(self, a, b):
        super().__init__(a, b)

    def __bool__(self):
        return False

    def __len__(self):
        return 0


class CBase(BaseException):
    pass


class Cause(Exception):
    pass


class Fresh(Exception):
    pass


class Inner(Exception):
    pass


class Other(Exception):
    pass


def _raise_site(exc):
    raise exc


def _raise_from(exc, cause):
    raise exc from cause


def _raise_pre(exc):
    raise exc


def _raise_fresh(exc):
    raise exc


def _raise_inner(exc):
    raise exc


def _site(fn):
    return (fn.__code__, fn.__code__.co_firstlineno + 1)


SITE_ORIG = _site(_raise_site)
SITE_FROM = _site(_raise_from)
SITE_PRE = _site(_raise_pre)
SITE_FRESH = _site(_raise_fresh)

SRE_CLASSES = ['plain', 'need', 'chained', 'pre', 'base', 'runtime', 'notimpl', 'falsy']
ORIG_MSG = 'orig-exc'


def make_exc(cls, msg=ORIG_MSG):
    """Returns (exception object, expected innermost raise site)."""
    if cls == 'plain':
        return CPlain(msg), SITE_ORIG
    if cls == 'need':
        return CNeed(msg, 2), SITE_ORIG
    if cls == 'chained':
        return CChained(msg), SITE_FROM
    if cls == 'base':
        return CBase(msg), SITE_ORIG
    if cls == 'valueerror':
        return ValueError('x'), SITE_ORIG
    if cls == 'runtime':           # the helpers raise RuntimeError themselves when misused: a captured one is still
        return CRuntime(msg, 7), SITE_ORIG          # an ordinary exception to be re-raised
    if cls == 'notimpl':
        return NotImplementedError(msg), SITE_ORIG
    if cls == 'falsy':
        return CFalsy(msg, 0), SITE_ORIG
    if cls == 'key':
        return KeyError(msg), SITE_ORIG
    if cls == 'assertion':
        return AssertionError(msg), SITE_ORIG
    if cls == 'oserror':
        return OSError(5, msg), SITE_ORIG
    if cls == 'pre':
        exc = CPlain(msg)
        try:
            _raise_pre(exc)
        except CPlain:
            pass
        return exc, SITE_PRE
    raise ValueError(cls)


def _throw(st, cls, exc):
    """Raise `exc` the way its class spec says (genuine raise statements)."""
    if cls == 'chained':
        try:
            raise Cause('the-cause')
        except Cause as c:
            st.cause = c
            _raise_from(exc, c)
    else:
        _raise_site(exc)


def tb_entries(tb):
    out = []
    while tb is not None:
        out.append((tb.tb_frame.f_code, tb.tb_lineno))
        tb = tb.tb_next
    return out


def _show(entries):
    return ['%s:%d' % (c.co_name, ln) for c, ln in entries]


class Log:
    __slots__ = ('calls',)

    def __init__(self):
        self.calls = []

    def error(self, *a, **k):
        self.calls.append(a)


class _State:
    def __init__(self):
        self.logs = []       # one recording logger per context, in order of entry
        self.created = []    # fresh exception objects, in order of creation
        self.snaps = {}      # id(exc) -> traceback entries when it was first caught
        self.capsnap = {}    # id(context) -> (context, traceback entries of the active exception at its last capture)
        self.orig = None
        self.cause = None

    new_style = 'plain'

    def fresh(self):
        e = Fresh('fresh-%d.' % len(self.created))
        self.created.append(e)
        return e

    def log(self):
        lg = Log()
        self.logs.append(lg)
        return lg


# ---------------------------------------------------------------------
# interpreter for handler programs
# ---------------------------------------------------------------------
def _note_capture(st, ctxt):
    """The harness's own record of the traceback the active exception has at the moment ctxt captures it."""
    st.capsnap[id(ctxt)] = (ctxt, tb_entries(sys.exc_info()[2]))


def _run_body(SRE, st, ctxt, body):
    _note_capture(st, ctxt)
    for op in body:
        k = op[0]
        if k == 'noop':
            pass
        elif k == 'inner':
            try:
                _raise_inner(Inner('i'))
            except Inner:
                pass
        elif k == 'new':
            e = st.fresh()
            if st.new_style == 'from_active':       # what "raise X from <the exception being handled>" / raise_with_cause leave
                e.__cause__ = sys.exc_info()[1]
                e.__suppress_context__ = True
            elif st.new_style == 'from_none':
                e.__cause__ = None
                e.__suppress_context__ = True
            _raise_fresh(e)
        elif k == 'off':
            ctxt.reraise = False
        elif k == 'on':
            ctxt.reraise = True
        elif k == 'fr_caught':
            try:
                ctxt.force_reraise()
            except BaseException:  # noqa
                pass
        elif k == 'fr_escape':
            ctxt.force_reraise()
        elif k == 'capture_inner':
            e = st.fresh()
            try:
                _raise_fresh(e)
            except Fresh:
                st.snaps[id(e)] = tb_entries(e.__traceback__)
                ctxt.capture()
                _note_capture(st, ctxt)
        elif k == 'recapture':
            ctxt.capture()
            _note_capture(st, ctxt)
        elif k == 'nest':
            flag, mode, sub = op[1], op[2], op[3]
            if mode == 'plain':
                with SRE(reraise=flag, logger=st.log()) as c2:
                    _run_body(SRE, st, c2, sub)
            elif mode == 'handled':
                e = st.fresh()
                try:
                    _raise_fresh(e)
                except Fresh:
                    st.snaps[id(e)] = tb_entries(e.__traceback__)
                    with SRE(reraise=flag, logger=st.log()) as c2:
                        _run_body(SRE, st, c2, sub)
            elif mode == 'guarded':
                try:
                    with SRE(reraise=flag, logger=st.log()) as c2:
                        _run_body(SRE, st, c2, sub)
                except BaseException:  # noqa
                    pass
            else:
                raise ValueError(mode)
        else:
            raise ValueError(k)


def _execute(SRE, st, cls, reraise, body):
    exc, _unused = make_exc(cls)
    st.orig = exc
    try:
        try:
            _throw(st, cls, exc)
        except BaseException:  # noqa
            st.snaps[id(exc)] = tb_entries(exc.__traceback__)
            with SRE(reraise=reraise, logger=st.log()) as ctxt:
                _run_body(SRE, st, ctxt, body)
    except BaseException as e:  # noqa
        return e
    return None


_OPS = collections.Counter()     # per-op histogram, aggregated locally (flushed by run())


def _flush(ctx):
    for k, n in _OPS.items():
        ctx.h('op kinds executed', k, n)
    _OPS.clear()


def _resolve(st, tok):
    if tok == 'orig':
        return st.orig
    if tok[0] == 'new':
        return st.created[tok[1]] if tok[1] < len(st.created) else None
    raise ValueError(tok)


def _eval_sre(ctx, case):
    from oslo_utils import excutils
    body, rr, cls = case['body'], bool(case['reraise']), case['cls']
    exp = model.run(body, rr)
    st = _State()
    st.new_style = case.get('new_style', 'plain')
    got = _execute(excutils.save_and_reraise_exception, st, cls, rr, body)
    ctx.case(('sre', body, rr, cls, st.new_style), nontrivial=len(body) > 0)
    if st.new_style != 'plain':
        ctx.clause('sre-body-raises-chained-exception')
    _OPS.update(exp.ops)
    if ctx.replay:
        _flush(ctx)
    want_tok = exp.outcome
    fab = want_tok is not None and want_tok[0] == 'fab'
    if fab:
        want_tok = want_tok[2]
    ctx.h('exception class x outcome', '%s/%s' % (
        cls, 'none' if want_tok is None else
        'second-force_reraise(K9)' if fab else
        'original' if want_tok == 'orig' else 'other'))
    ctx.h('nesting depth', str(model.depth(body)))

    # (1) does anything propagate at all
    ctx.clause('sre-outcome')
    if (got is None) != (want_tok is None):
        ctx.fail('sre-outcome', case, {'want': want_tok, 'got': got,
                                       'got_type': type(got).__name__})
        return
    # (2) logger.error calls per context
    ctx.clause('sre-log-count')
    nlogs = [len(lg.calls) for lg in st.logs]
    if nlogs != exp.logs:
        ctx.fail('sre-log-count', case, {'want': exp.logs, 'got': nlogs})
    else:
        for i, tok in enumerate(exp.log_saved):
            if tok is None or exp.logs[i] != 1:
                continue
            ctx.clause('sre-log-mentions-original')
            obj = _resolve(st, tok)
            text = repr(st.logs[i].calls[0])
            if type(obj).__name__ not in text or str(obj.args[0]) not in text:
                ctx.fail('sre-log-mentions-original', case,
                         {'context': i, 'saved': tok, 'logged': text[:400]})
    if want_tok is None:
        return
    # (3) identity of what propagates
    want = _resolve(st, want_tok)
    if fab:
        ctx.clause('sre-k9-regime')
    else:
        ctx.clause('sre-identity')
    if got is not want:
        detail = {'want': want_tok, 'want_obj': want, 'got': got, 'got_type': type(got).__name__,
                  'got_is_a_known_object': got is st.orig or any(got is c for c in st.created)}
        ctx.fail('sre-identity', case, detail,
                 known='K9' if (fab and k9_applies(body, rr)) else None)
        return
    # (4) traceback of the original raise is still the tail
    ctx.clause('sre-traceback-tail')
    tail = st.snaps.get(id(want)) or [SITE_FRESH]
    site = SITE_FRESH if want_tok != 'orig' else make_site(cls)
    have = tb_entries(got.__traceback__)
    if tail[-1] != site or have[-len(tail):] != tail:
        ctx.fail('sre-traceback-tail', case,
                 {'want_tail': _show(tail), 'got': _show(have), 'site': _show([site])})
    elif not fab:
        # "with the traceback of its original raise": behind the frame that re-raised it (the first force_reraise
        # frame in the chain) comes exactly the traceback the exception had when that context captured it - not
        # frames it picked up since then, e.g. when the body raised and caught the same object again
        tb = got.__traceback__
        pos = 0
        while tb is not None and tb.tb_frame.f_code.co_name != 'force_reraise':
            tb = tb.tb_next
            pos += 1
        if tb is not None:
            rec = st.capsnap.get(id(tb.tb_frame.f_locals.get('self')))
            if rec is not None:
                ctx.clause('sre-traceback-exact-after-reraise')
                if have[pos + 1:] != rec[1]:
                    ctx.fail('sre-traceback-exact-after-reraise', case,
                             {'want_after_force_reraise': _show(rec[1]), 'got': _show(have)})
    if cls == 'chained' and want_tok == 'orig':
        ctx.clause('sre-cause-kept')
        if got.__cause__ is not st.cause:
            ctx.fail('sre-cause-kept', case, {'cause': got.__cause__})


def make_site(cls):
    return {'chained': SITE_FROM, 'pre': SITE_PRE}.get(cls, SITE_ORIG)


# ---------------------------------------------------------------------
# exception_filter
# ---------------------------------------------------------------------
FILTER_MAKES = ['constructor', 'decorator', 'method', 'callable-object', 'method-equal-instances',
                'method-used-then-copied', 'method-override-after-super', 'method-state-changed-after-use']
FILTER_USES = ['with', 'with-in-except', 'with-no-exception', 'call-active', 'call-active-after-inner',
               'call-inactive', 'call-other-active']
PREDS = ['true', 'false', 'truthy-str', 'falsy-none', 'falsy-zero', 'isinstance-Exception',
         'isinstance-CPlain', 'isinstance-KeyError-or-CNeed', 'attr-code-404', 'msg-has-test',
         'code-in-holder-set']
# exception specs: (class, message, code attribute)
FILTER_EXCS = [('plain', 'p', None), ('plain', 'This is a test', 404), ('need', 'test', 500),
               ('chained', 'c', 404), ('pre', 'pre test', None), ('base', 'b', 404),
               ('key', 'k', 500), ('assertion', 'This is a test', None), ('need', 'n', 404),
               ('falsy', 'f test', 404), ('falsy', 'f', None)]
HOLDER_CODES = [[], [404], [404, 500]]


def _pred_eval(pred, ex, codes):
    """The predicate functions handed to exception_filter."""
    if pred == 'true':
        return True
    if pred == 'false':
        return False
    if pred == 'truthy-str':
        return 'yes'
    if pred == 'falsy-none':
        return None
    if pred == 'falsy-zero':
        return 0
    if pred == 'isinstance-Exception':
        return isinstance(ex, Exception)
    if pred == 'isinstance-CPlain':
        return isinstance(ex, CPlain)
    if pred == 'isinstance-KeyError-or-CNeed':
        return isinstance(ex, (KeyError, CNeed))
    if pred == 'attr-code-404':
        return getattr(ex, 'code', None) == 404
    if pred == 'msg-has-test':
        return 'test' in str(ex)
    if pred == 'code-in-holder-set':
        return getattr(ex, 'code', None) in codes
    raise ValueError(pred)


def pred_truth(pred, cls, msg, code, codes):
    """Ground truth from the generator components (not by running the predicate)."""
    if pred in ('true', 'truthy-str'):
        return True
    if pred in ('false', 'falsy-none', 'falsy-zero'):
        return False
    if pred == 'isinstance-Exception':
        return cls != 'base'
    if pred == 'isinstance-CPlain':
        return cls in ('plain', 'chained', 'pre')
    if pred == 'isinstance-KeyError-or-CNeed':
        return cls in ('key', 'need')
    if pred == 'attr-code-404':
        return code == 404
    if pred == 'msg-has-test':
        return 'test' in msg
    if pred == 'code-in-holder-set':
        return code in codes
    raise ValueError(pred)


_holder_cls = None


def _holder():
    global _holder_cls
    if _holder_cls is None:
        from oslo_utils import excutils

        class Holder:
            def __init__(self, pred, codes):
                self.pred = pred
                self.codes = codes

            @excutils.exception_filter
            def flt(self, ex):
                return _pred_eval(self.pred, ex, self.codes)
        _holder_cls = Holder
    return _holder_cls


class _PredObject:
    """A callable without __name__/__qualname__ (exception_filter must not need them)."""

    def __init__(self, pred, codes):
        self.pred = pred
        self.codes = codes

    def __call__(self, ex):
        return _pred_eval(self.pred, ex, self.codes)


def _make_filter(make, pred, codes):
    from oslo_utils import excutils
    if make == 'constructor':
        return excutils.exception_filter(lambda ex: _pred_eval(pred, ex, codes))
    if make == 'decorator':
        @excutils.exception_filter
        def ignore_some(ex):
            return _pred_eval(pred, ex, codes)
        return ignore_some
    if make == 'method':
        return _holder()(pred, codes).flt
    if make == 'callable-object':
        return excutils.exception_filter(_PredObject(pred, codes))
    if make == 'method-equal-instances':
        # two distinct instances that compare (and hash) equal but filter differently; the first one's bound
        # filter is looked up first and both stay alive
        Holder = _holder()

        class EqHolder(Holder):
            def __eq__(self, other):
                return isinstance(other, EqHolder)

            def __hash__(self):
                return 7
        first = EqHolder('false' if pred != 'false' else 'true', codes)
        _keepalive.append((first, first.flt))
        second = EqHolder(pred, codes)
        _keepalive.append(second)
        del _keepalive[:-40]
        return second.flt
    opposite = 'false' if pred != 'false' else 'true'
    if make == 'method-used-then-copied':
        # an instance uses its filter, is copied, and the copy filters by its own state
        import copy
        first = _holder()(opposite, codes)
        with first.flt:
            pass
        try:
            first.flt(Other('warm-up'))
        except Other:
            pass
        second = copy.copy(first)
        second.pred = pred
        _keepalive.append(first)
        del _keepalive[:-40]
        return second.flt
    if make == 'method-override-after-super':
        # a subclass overrides the filter; the parent's filter is reached through super() on the instance first
        from oslo_utils import excutils
        Holder = _holder()

        class Sub(Holder):
            @excutils.exception_filter
            def flt(self, ex):
                return _pred_eval(self.sub_pred, ex, self.codes)

            def parent_filter(self):
                return super().flt
        inst = Sub(opposite, codes)          # the parent's predicate reads self.pred = the opposite
        inst.sub_pred = pred
        with inst.parent_filter():
            pass
        return inst.flt
    if make == 'method-state-changed-after-use':
        inst = _holder()(opposite, codes)
        try:
            inst.flt(Other('warm-up'))
        except Other:
            pass
        inst.pred = pred
        return inst.flt
    raise ValueError(make)


_keepalive = []


def _use_filter(flt, use, st, cls, exc):
    """Returns the exception that left the construct, or None."""
    try:
        if use == 'with':
            with flt:
                _throw(st, cls, exc)
        elif use == 'with-in-except':
            try:
                raise Other('o')
            except Other:
                with flt:
                    _throw(st, cls, exc)
        elif use == 'with-no-exception':
            with flt:
                pass
        elif use == 'call-active':
            try:
                _throw(st, cls, exc)
            except BaseException as ex:  # noqa
                st.snaps[id(ex)] = tb_entries(ex.__traceback__)
                flt(ex)
        elif use == 'call-active-after-inner':
            try:
                _throw(st, cls, exc)
            except BaseException as ex:  # noqa
                try:
                    _raise_inner(Inner('i'))
                except Inner:
                    pass
                flt(ex)
        elif use == 'call-inactive':
            flt(exc)
        elif use == 'call-other-active':
            try:
                raise Other('o')
            except Other:
                flt(exc)
        else:
            raise ValueError(use)
    except BaseException as e:  # noqa
        return e
    return None


def _eval_filter(ctx, case):
    make, use, pred = case['make'], case['use'], case['pred']
    cls, msg, code, codes = case['cls'], case['msg'], case['code'], case['codes']
    st = _State()
    exc, site = make_exc(cls, msg)
    if code is not None:
        exc.code = code
    try:
        flt = _make_filter(make, pred, codes)
    except BaseException as e:  # noqa
        ctx.fail('filter-construction', case, {'exc': e})
        return
    explicit_cause = None
    if cls == 'chained' and use in ('call-inactive', 'call-other-active'):
        explicit_cause = Cause('explicit-cause')          # never raised through _throw: chain it by hand
        exc.__cause__ = explicit_cause
    got = _use_filter(flt, use, st, cls, exc)
    ctx.case(('filter', make, use, pred, cls, msg, code, codes))
    ctx.h('exception_filter usage form', '%s/%s' % (make, use))
    if use == 'with-no-exception':
        ctx.clause('filter-no-exception')
        if got is not None:
            ctx.fail('filter-no-exception', case, {'got': got})
        return
    truth = pred_truth(pred, cls, msg, code, codes)
    ctx.h('exception class x outcome', 'filter:%s/%s' % (cls, 'suppressed' if truth else 'propagates'))
    if truth:
        ctx.clause('filter-suppressed')
        if got is not None:
            ctx.fail('filter-suppressed', case, {'got': got, 'got_is_same': got is exc})
        return
    ctx.clause('filter-same-object')
    if got is not exc:
        ctx.fail('filter-same-object', case, {'got': got, 'got_type': type(got).__name__})
        return
    if cls == 'chained':
        # the same object, with the exception it was chained to still attached (nothing lost on the way)
        ctx.clause('filter-cause-kept')
        want_cause = explicit_cause if explicit_cause is not None else st.cause
        if got.__cause__ is not want_cause:
            ctx.fail('filter-cause-kept', case, {'cause_now': got.__cause__, 'cause_before': want_cause})
    if use in ('with', 'with-in-except', 'call-active'):
        # it was the active exception: original traceback tail
        ctx.clause('filter-traceback-tail')
        tail = st.snaps.get(id(exc)) or [site]
        have = tb_entries(got.__traceback__)
        if tail[-1] != site or have[-len(tail):] != tail:
            ctx.fail('filter-traceback-tail', case, {'want_tail': _show(tail), 'got': _show(have)})
    else:
        have = tb_entries(got.__traceback__)
        ctx.h('filter direct call, not the active exception: raise site still innermost',
              str(bool(have) and have[-1] == site))


# ---------------------------------------------------------------------
# remove_path_on_error
# ---------------------------------------------------------------------
RPOE_STATES = ['file', 'absent', 'created-in-body', 'symlink', 'odd-name', 'dangling-symlink', 'symlink-to-dir']
RPOE_REMOVES = ['default', 'custom-unlink', 'custom-raises', 'custom-raises-after-unlink', 'custom-reentrant']
RPOE_BODIES = ['raise', 'complete', 'raise-in-except', 'exitstack-replaced', 'manual-exit']
RPOE_CLASSES = ['plain', 'need', 'chained', 'pre', 'key', 'oserror', 'fnf-naming-path', 'base', 'falsy']
_path_counter = [0]


class _RootRecorder(logging.Handler):
    def __init__(self):
        super().__init__(level=logging.DEBUG)
        self.records = []

    def emit(self, record):
        self.records.append(record)


def _eval_rpoe(ctx, case):
    from oslo_utils import fileutils
    state, remove, bodyk, cls = case['state'], case['remove'], case['body'], case['cls']
    scratch = os.environ['VERIF_SCRATCH']
    _path_counter[0] += 1
    stem = 'c09-%d-%d' % (ctx.shard, _path_counter[0])
    if state == 'odd-name':
        stem += ' späce ☃;$x'
    path = os.path.join(scratch, stem)
    target = path + '.target'
    if state in ('file', 'odd-name'):
        with open(path, 'w') as f:
            f.write('data')
    elif state == 'symlink':
        with open(target, 'w') as f:
            f.write('t')
        os.symlink(target, path)
    elif state == 'dangling-symlink':
        os.symlink(target, path)            # the target never exists: the path itself does (lexists) and must go
    elif state == 'symlink-to-dir':
        os.makedirs(target, exist_ok=True)
        os.symlink(target, path)
    st = _State()
    if cls == 'fnf-naming-path':
        # what os.rename/os.replace/os.link report when the *destination* directory is missing: ENOENT naming the
        # (existing) source path
        import errno as _errno
        exc, site = FileNotFoundError(_errno.ENOENT, 'No such file or directory', path), SITE_ORIG
    else:
        exc, site = make_exc(cls)
    calls = []
    rexc = Fresh('remove-failed')

    def custom_unlink(p):
        calls.append(p)
        if os.path.lexists(p):
            os.unlink(p)

    def custom_raises(p):
        calls.append(p)
        if remove == 'custom-raises-after-unlink' and os.path.lexists(p):
            os.unlink(p)
        _raise_fresh(rexc)

    def custom_reentrant(p):
        # the remover itself uses remove_path_on_error for a sub-step whose failure it tolerates
        calls.append(p)
        try:
            with fileutils.remove_path_on_error(p + '.sub'):
                raise CNeed(1, 2)
        except CNeed:
            pass
        if os.path.lexists(p):
            os.unlink(p)

    kwargs = {}
    if remove == 'custom-reentrant':
        kwargs['remove'] = custom_reentrant
    if remove == 'custom-unlink':
        kwargs['remove'] = custom_unlink
    elif remove in ('custom-raises', 'custom-raises-after-unlink'):
        kwargs['remove'] = custom_raises

    def inner():
        if bodyk == 'exitstack-replaced':
            # contextlib.ExitStack: a manager registered later replaces the body's exception, so remove_path_on_error is
            # exited with the replacement while the interpreter is still handling the first one
            import contextlib

            class Replacer:
                def __enter__(self):
                    return self

                def __exit__(self, t, v, tb):
                    _throw(st, cls, exc)
            with contextlib.ExitStack() as stack:
                stack.enter_context(fileutils.remove_path_on_error(path, **kwargs))
                stack.enter_context(Replacer())
                if state == 'created-in-body':
                    with open(path, 'w') as f:
                        f.write('half')
                raise Other('first')
        if bodyk == 'manual-exit':
            # the context manager protocol driven by hand, outside any except block (what a framework's own exit stack,
            # a test fixture or an async bridge does)
            cm = fileutils.remove_path_on_error(path, **kwargs)
            cm.__enter__()
            if state == 'created-in-body':
                with open(path, 'w') as f:
                    f.write('half')
            try:
                _throw(st, cls, exc)
            except BaseException as caught:  # noqa
                details = (type(caught), caught, caught.__traceback__)
            if not cm.__exit__(*details):
                raise details[1]              # not suppressed: the exception goes on, as the with statement would do
            return
        with fileutils.remove_path_on_error(path, **kwargs):
            if state == 'created-in-body':
                with open(path, 'w') as f:
                    f.write('half')
            if bodyk != 'complete':
                _throw(st, cls, exc)

    rec = _RootRecorder()
    root = logging.getLogger()
    disabled = logging.root.manager.disable
    logging.disable(logging.NOTSET)
    root.addHandler(rec)
    try:
        try:
            if bodyk == 'raise-in-except':
                try:
                    raise Other('o')
                except Other:
                    inner()
            else:
                inner()
            got = None
        except BaseException as e:  # noqa
            got = e
    finally:
        root.removeHandler(rec)
        logging.disable(disabled)
    exists = os.path.lexists(path)
    ctx.case(('rpoe', state, remove, bodyk, cls))
    ctx.h('remove_path_on_error', '%s/%s/%s' % (state, remove, bodyk))
    try:
        if bodyk == 'complete':
            ctx.clause('rpoe-path-stays')
            ctx.h('exception class x outcome', 'rpoe:-/completes')
            if got is not None:
                ctx.fail('rpoe-body-completes-nothing-raised', case, {'got': got})
            want_exists = state != 'absent'
            if exists != want_exists:
                ctx.fail('rpoe-path-stays', case, {'exists': exists, 'want': want_exists})
            if calls:
                ctx.fail('rpoe-remove-not-called-on-success', case, {'calls': calls})
            return
        if cls == 'base':
            # DONT-CARE zone (DESIGN section 8): observed only
            ctx.clause('rpoe-baseexception-observed')
            ctx.h('rpoe BaseException (dont-care): path removed / same object',
                  '%s/%s' % (not exists, got is exc))
            return
        ctx.h('exception class x outcome', 'rpoe:%s/%s' % (
            cls, 'remove-raises' if remove.startswith('custom-raises') else 'removed+reraised'))
        if remove.startswith('custom-raises'):
            ctx.clause('rpoe-remove-raises-propagates')
            if got is not rexc:
                ctx.fail('rpoe-remove-raises-propagates', case,
                         {'got': got, 'got_is_original': got is exc})
            if calls != [path]:
                ctx.fail('rpoe-remove-called-with-path', case, {'calls': calls, 'path': path})
            ctx.h('rpoe remove raises: original reported on the root logger (observed)',
                  str(sum(1 for r in rec.records if type(exc).__name__ in (r.getMessage() or ''))))
            ctx.h('rpoe remove raises: new.__context__ is original (observed)',
                  str(getattr(got, '__context__', None) is exc))
            return
        ctx.clause('rpoe-same-object')
        if got is not exc:
            ctx.fail('rpoe-same-object', case, {'got': got, 'got_type': type(got).__name__})
        else:
            ctx.clause('rpoe-traceback-tail')
            have = tb_entries(got.__traceback__)
            if bodyk in ('exitstack-replaced', 'manual-exit'):
                pass            # (who appended which frames is the driver's business here)
            elif not have or have[-1] != site:
                ctx.fail('rpoe-traceback-tail', case, {'got': _show(have), 'site': _show([site])})
        ctx.clause('rpoe-path-removed')
        if exists:
            ctx.fail('rpoe-path-removed', case, {'path_still_exists': True})
        if remove in ('custom-unlink', 'custom-reentrant') and (not calls or any(c != path for c in calls)):
            ctx.fail('rpoe-remove-called-with-path', case, {'calls': calls, 'path': path})
    finally:
        for p in (path, target):
            try:
                if os.path.isdir(p) and not os.path.islink(p):
                    os.rmdir(p)
                if os.path.lexists(p):
                    os.unlink(p)
            except OSError:
                pass


# ---------------------------------------------------------------------
# raise_with_cause
# ---------------------------------------------------------------------
RWC_ACTIVE = [None, 'plain', 'need', 'chained', 'pre', 'base', 'key']
RWC_CAUSE = ['absent', 'other', 'none', 'same-as-active']
RWC_TARGET = ['CausedByException', 'subclass', 'own-class-with-cause-kw']
RWC_SHAPE = ['direct', 'nested-handlers', 'after-inner']


class _OwnCaused(Exception):
    def __init__(self, message, code=None, cause=None, detail=None):
        super().__init__(message)
        self.cause = cause
        self.code = code
        self.detail = detail


def _eval_rwc(ctx, case):
    from oslo_utils import excutils
    active, causek, target, shape = case['active'], case['cause'], case['target'], case['shape']
    st = _State()
    if target == 'CausedByException':
        tcls = excutils.CausedByException
    elif target == 'subclass':
        tcls = type('SubCaused', (excutils.CausedByException,), {})
    else:
        tcls = _OwnCaused
    other = Cause('explicit')
    kwargs = {}
    if causek == 'other':
        kwargs['cause'] = other
    elif causek == 'none':
        kwargs['cause'] = None
    args = ()
    if target == 'own-class-with-cause-kw':
        args = (7,)
        kwargs['detail'] = 'd'
    aexc = None
    try:
        if active is None:
            if causek == 'same-as-active':
                kwargs['cause'] = None
            excutils.raise_with_cause(tcls, 'the message', *args, **kwargs)
        else:
            aexc, _s = make_exc(active)
            if causek == 'same-as-active':
                kwargs['cause'] = aexc
            if shape == 'direct':
                try:
                    _throw(st, active, aexc)
                except BaseException:  # noqa
                    excutils.raise_with_cause(tcls, 'the message', *args, **kwargs)
            elif shape == 'nested-handlers':
                try:
                    raise Other('outer')
                except Other:
                    try:
                        _throw(st, active, aexc)
                    except BaseException:  # noqa
                        excutils.raise_with_cause(tcls, 'the message', *args, **kwargs)
            elif shape == 'after-inner':
                try:
                    _throw(st, active, aexc)
                except BaseException:  # noqa
                    try:
                        _raise_inner(Inner('i'))
                    except Inner:
                        pass
                    excutils.raise_with_cause(tcls, 'the message', *args, **kwargs)
            else:
                raise ValueError(shape)
        got = None
    except BaseException as e:  # noqa
        got = e
    ctx.case(('rwc', active, causek, target, shape))
    ctx.h('raise_with_cause', '%s/%s' % ('active' if active else 'no-active', causek))
    ctx.clause('rwc-raises-requested-class')
    if type(got) is not tcls:
        ctx.fail('rwc-raises-requested-class', case, {'got': got, 'got_type': type(got).__name__})
        return
    if causek == 'other':
        want = other
    elif causek == 'none':
        want = None
    elif causek == 'same-as-active':
        want = aexc
    else:
        want = aexc          # the active exception (None when there is none)
    ctx.clause('rwc-cause')
    if got.__cause__ is not want or got.cause is not want:
        ctx.fail('rwc-cause', case, {'want': want, '__cause__': got.__cause__, 'cause': got.cause})


# ---------------------------------------------------------------------
def _eval_sre_reuse(ctx, case):
    """One save_and_reraise_exception object used for two handlers in a row (a helper kept on an object, a retry loop):
    each use re-raises the exception that was active when THAT use was entered."""
    from oslo_utils import excutils
    first_cls, second_cls, first_end = case['first'], case['second'], case['first_end']
    st = _State()
    ctxt = excutils.save_and_reraise_exception(logger=st.log())
    e1, _s1 = make_exc(first_cls, 'first')
    e2, _s2 = make_exc(second_cls, 'second')
    got1 = got2 = None
    try:
        try:
            _raise_site(e1)
        except BaseException:  # noqa
            with ctxt:
                if first_end == 'suppressed':
                    ctxt.reraise = False
    except BaseException as e:  # noqa
        got1 = e
    ctxt.reraise = True
    try:
        try:
            _raise_site(e2)
        except BaseException:  # noqa
            with ctxt:
                pass
    except BaseException as e:  # noqa
        got2 = e
    ctx.case(('sre-reuse', first_cls, second_cls, first_end))
    ctx.clause('sre-object-reused-for-a-second-handler')
    want1 = None if first_end == 'suppressed' else e1
    if got1 is not want1 or got2 is not e2:
        ctx.fail('sre-object-reused-for-a-second-handler', case,
                 {'first_use_raised': got1, 'first_use_should_raise': want1, 'second_use_raised': got2,
                  'second_use_should_raise': e2, 'second_is_the_first_object': got2 is e1})


def evaluate(ctx, case):
    kind = case['kind']
    if kind == 'sre-reuse':
        return _eval_sre_reuse(ctx, case)
    if kind == 'sre':
        _eval_sre(ctx, case)
    elif kind == 'filter':
        _eval_filter(ctx, case)
    elif kind == 'rpoe':
        _eval_rpoe(ctx, case)
    elif kind == 'rwc':
        _eval_rwc(ctx, case)
    else:
        raise ValueError(kind)


def run(ctx):
    idx = 0

    def emit(case, klass=None):
        nonlocal idx
        idx += 1
        if ctx.mine(idx):
            if klass:
                ctx.sample(klass, case)
            evaluate(ctx, case)

    def emit_programs(bodies, klass, rotate=False):
        # rotate: classes plain + need + one of the other three in turn (quick tier)
        nonlocal idx
        n = 0
        for body in bodies:
            n += 1
            for rr in (True, False):
                for cls in (('plain', 'need', SRE_CLASSES[2 + (n + rr) % 6]) if rotate
                            else SRE_CLASSES):
                    idx += 1
                    if idx % ctx.nshards == ctx.shard:
                        case = {'kind': 'sre', 'body': body, 'reraise': rr, 'cls': cls}
                        if 'new' in repr(body):
                            # how the body's own exception is raised: bare, "from" the one being handled, "from None"
                            case['new_style'] = ('plain', 'from_active', 'from_none')[(n + idx) % 3]
                        if n % 997 == 1:
                            ctx.sample(klass, case)
                        _eval_sre(ctx, case)
        return n

    # K9 canary: the listed witness, every run
    if ctx.shard == 0:
        evaluate(ctx, {'kind': 'sre', 'body': [['fr_caught']], 'reraise': True, 'cls': 'valueerror'})

    # ---- save_and_reraise_exception: enumerated program spaces
    try:
        n = emit_programs(model.bodies_full(1), 'sre/depth1')
        ctx.extra['programs: all bodies <=2 ops, depth 1'] = n
        n = emit_programs(_only_depth(model.bodies_full(2), 2), 'sre/full-depth2', rotate=ctx.quick)
        ctx.extra['programs: all bodies <=2 ops, depth 2, nest mode plain'] = n
        if ctx.quick:
            ctx.exhaustive['sre: all bodies <=2 ops over 9 atoms + nest(plain), depth <=2, x reraise flag '
                           'x classes (depth 1: all 5; depth 2: plain, need + one of chained/pre/base in turn)'] = True
            n = emit_programs(_only_depth(model.bodies_spine(3), 3, every=61), 'sre/spine-depth3')
            ctx.extra['programs: single-spine depth 3 (every 61st)'] = n
        else:
            ctx.exhaustive['sre: all bodies <=2 ops over 9 atoms + nest(plain), depth <=2, x reraise flag x 5 classes'] = True
            n = emit_programs(_only_depth(model.bodies_full(2, model.NEST_MODES), 2, skip_plain=True),
                              'sre/full-depth2-modes')
            ctx.extra['programs: all bodies <=2 ops, depth 2, nest modes handled/guarded'] = n
            ctx.exhaustive['sre: all bodies <=2 ops, depth <=2, nest modes plain/handled/guarded, x flag x 5 classes'] = True
            n = emit_programs(_only_depth(model.bodies_spine(3), 3), 'sre/spine-depth3')
            ctx.extra['programs: single-spine depth 3'] = n
            ctx.exhaustive['sre: all single-spine bodies (<=2 ops, <=1 nested helper per body, mode plain) '
                           'of depth 3, x flag x 5 classes'] = True
            n = emit_programs(_only_depth(model.bodies_spine(4), 4, every=13), 'sre/spine-depth4')
            ctx.extra['programs: single-spine depth 4 (every 13th)'] = n
    finally:
        _flush(ctx)

    # ---- seeded random unrestricted programs (<=3 ops per body, all nest modes), depth 3 and 4
    rng = ctx.rng('programs')
    for d, count in ((2, ctx.pick(1000, 60000)), (3, ctx.pick(4000, 400000)),
                     (4, ctx.pick(4000, 400000))):
        for i in range(count):
            body = model.random_body_exact_depth(rng, d)
            emit({'kind': 'sre', 'body': body, 'reraise': rng.random() < 0.5,
                  'cls': rng.choice(SRE_CLASSES)}, 'sre/random-depth%d' % d)
    _flush(ctx)

    # ---- one helper object, two handlers
    for first, second, first_end in itertools.product(SRE_CLASSES, SRE_CLASSES, ('reraised', 'suppressed')):
        if 'pre' in (first, second) or 'chained' in (first, second):
            continue
        emit({'kind': 'sre-reuse', 'first': first, 'second': second, 'first_end': first_end}, 'sre/reuse')
    # ---- exception_filter: full grid
    for make, use, pred, (cls, msg, code) in itertools.product(
            FILTER_MAKES, FILTER_USES, PREDS, FILTER_EXCS):
        for codes in (HOLDER_CODES if pred == 'code-in-holder-set' else [[404]]):
            emit({'kind': 'filter', 'make': make, 'use': use, 'pred': pred, 'cls': cls,
                  'msg': msg, 'code': code, 'codes': codes}, 'filter/' + use)
    ctx.exhaustive['exception_filter: make x use x predicate x exception spec grid'] = True

    # ---- remove_path_on_error: full grid
    for state, remove, bodyk, cls in itertools.product(
            RPOE_STATES, RPOE_REMOVES, RPOE_BODIES, RPOE_CLASSES):
        emit({'kind': 'rpoe', 'state': state, 'remove': remove, 'body': bodyk, 'cls': cls},
             'rpoe/' + remove)
    ctx.exhaustive['remove_path_on_error: path state x remove x body x class grid'] = True

    # ---- raise_with_cause: full grid
    for active, causek, target, shape in itertools.product(RWC_ACTIVE, RWC_CAUSE, RWC_TARGET, RWC_SHAPE):
        if active is None and shape != 'direct':
            continue
        emit({'kind': 'rwc', 'active': active, 'cause': causek, 'target': target, 'shape': shape},
             'rwc')
    ctx.exhaustive['raise_with_cause: active x cause x target x handler shape grid'] = True


def _only_depth(bodies, d, every=1, skip_plain=False):
    """Bodies of nesting depth exactly d (the shallower ones were enumerated before)."""
    i = 0
    for b in bodies:
        if model.depth(b) != d:
            continue
        if skip_plain and not _has_mode(b):
            continue
        i += 1
        if i % every == 0:
            yield b


def _has_mode(body):
    for op in body:
        if op[0] == 'nest' and (op[2] != 'plain' or _has_mode(op[3])):
            return True
    return False


LEVEL_TEXT = ('Exploration with an executable model: every handler program up to nesting depth 2 (thorough: in three '
              'nesting modes, plus every single-spine program of depth 3) is run against the real helper for both '
              'flag values and the exception classes; deeper and unrestricted programs are sampled. exception_filter, '
              'remove_path_on_error and raise_with_cause are driven over full grids of their usage forms.')
LEVEL_NOTE = ('Trusted: the interpreter in checks/c09.py and the model in vlib/models/reraise.py (about 60 lines, '
              'written from the statement). Unrestricted depth-3 programs (two nested helpers in one body: 1.3e9 '
              'bodies) and all depth-4 programs are sampled, not enumerated; quick crosses depth-2 programs with '
              'three of the five classes. Listed finding K9 excuses only the identity of an object produced by a '
              'second force_reraise on one capture. Log content is asserted only while no force_reraise has '
              'consumed the capture. remove_path_on_error with non-Exception BaseExceptions and the way it reports '
              'the original when remove() itself raises are observed, not asserted.')
TECHNIQUE = 'history monitor: executable model of the helper over generated handler programs (genuine try/except/with)'
