"""C20 file helpers agree with whole-file semantics and are idempotent.

Reference-model monitor + failpoints.  Every case builds its own little file
tree under $VERIF_SCRATCH/c20-w<shard>/, runs the real helper and compares
with a ground truth computed from the generator's components:

* compute_file_checksum  vs  hashlib.new(alg, whole content).hexdigest()
* last_bytes(path, n)    vs  (content[size-min(n,size):], size-min(n,size))
* write_to_tempfile      vs  before/after snapshots of the whole tree
* ensure_tree / delete_if_exists: OSError(e) for EVERY e in errno.errorcode is
  injected into os.makedirs / the `remove` callable; only EEXIST-on-a-directory
  and ENOENT may be absorbed, everything else must come out as the same object
* last_bytes seek failpoint (module-level `open` shadowed in fileutils)
"""
import errno
import functools
import hashlib
import os
import random
import shutil
import stat
import tempfile

PROPERTY = 'C20'
LEVEL = 'fault_enumeration'
ANCHORS = [('oslo_utils.fileutils', 'ensure_tree'),
           ('oslo_utils.fileutils', 'delete_if_exists'),
           ('oslo_utils.fileutils', 'write_to_tempfile'),
           ('oslo_utils.fileutils', 'compute_file_checksum'),
           ('oslo_utils.fileutils', 'last_bytes')]
RULE = ('checksum: sizes k*cs-1, k*cs, k*cs+1 (k=0..3) x chunk sizes {1,2,7,64,4096,65536, >file} x every '
        'fixed-digest algorithm of hashlib.algorithms_guaranteed, then the cross product of all those sizes '
        'with all chunk sizes (plus odd chunk sizes, thorough: random sizes up to 1 MiB); last_bytes: the same '
        'sizes x n in {0,1,size-1,size,size+1,2**40} plus seeded n; write_to_tempfile: existing depth x missing '
        'depth x pre-existing files x suffix/prefix x repeated calls; ensure_tree/delete_if_exists/seek: every '
        'errno of errno.errorcode x every directory/path state. non-trivial = non-empty content or an injected '
        'fault or a directory-tree state; distinct by the full parameter tuple')
REQUIRED_CLAUSES = ['tempfile-first-proposed-name-taken', 
    'under-warnings-as-errors', 'documented-keyword-call', 'ensure-directory-behind-symlink', 'falsy-remove-callable-is-used', 'no-descriptor-left-open', 'checksum-reentrant-at-yield', 'checksum-equals-whole-digest', 'errno-decides-not-exception-class', 'tempfile-dirs-removed-between-calls',
    'last-bytes-tail-and-count', 'last-bytes-n0', 'last-bytes-n-exceeds-size',
    'seek-EINVAL-fallback', 'seek-other-errno',
    'tempfile-new-distinct', 'tempfile-content-exact', 'tempfile-existing-untouched',
    'tempfile-dirs-created', 'tempfile-in-directory', 'tempfile-suffix-prefix',
    'ensure-absorb-EEXIST-dir', 'ensure-propagate-same-object', 'ensure-idempotent',
    'ensure-creates-nested', 'ensure-leaf-mode', 'ensure-file-in-the-way-raises',
    'delete-absorb-ENOENT', 'delete-propagate-same-object', 'delete-absent-ok',
    'delete-existing-removed', 'delete-real-error-propagates',
]
ASSUMPTIONS = [
    'ground truth for digests is hashlib on the whole content held in memory; for last_bytes plain slicing',
    'scratch files live on tmpfs (/dev/shm); lseek before the start of a file fails with EINVAL there as on '
    'any Linux filesystem',
    'faults are injected by replacing os.makedirs (restored in finally), through the documented remove= '
    'parameter, and by shadowing the builtin open with a module attribute of fileutils (removed in finally)',
    'os.makedirs applies `mode` to the leaf directory only (Python >= 3.7): only the leaf mode is asserted, '
    'restricted to permission bits and masked by the umask the case sets',
    'under an injected EINVAL with n <= size the statement does not pin the answer (such a fault cannot '
    'happen): only "no exception, self-consistent (suffix, count) pair" is asserted there',
    'negative n and str content are DONT-CARE',
]
INTERPRETER_FLAGS = [[], ['-O'], ['-X', 'dev'], ['-bb']]
SHARDS = {'quick': 4, 'thorough': 16}

CHUNKS = [1, 2, 7, 64, 4096, 65536]
ODD_CHUNKS_QUICK = [3, 100, 4095]
ODD_CHUNKS_THOROUGH = [3, 5, 13, 100, 1000, 4095, 4097, 65535, 65537, 1 << 20]
HUGE = 2 ** 40
MODES = [0o700, 0o750, 0o755, 0o711, 0o770, 0o777, 0o701]
EXTRA_FAULTS = [0, -1, 255, 9999, 'noerrno', 'runtime']


def fixed_digest_algorithms():
    # the docstring points callers to hashlib.algorithms_available: the guaranteed ones plus whatever else
    # hashlib.new() can construct here (OpenSSL-provided), and an upper-case spelling
    names = set(hashlib.algorithms_guaranteed)
    for a in sorted(hashlib.algorithms_available):
        try:
            hashlib.new(a)
            names.add(a)
        except Exception:  # noqa  (listed but disabled by the OpenSSL build)
            pass
    names.add('SHA256')
    return sorted(a for a in names if hashlib.new(a).digest_size > 0)


def grid_sizes(cs):
    return sorted({cs * k + d for k in range(4) for d in (-1, 0, 1) if cs * k + d >= 0})


@functools.lru_cache(maxsize=6)
def content(size, cseed):
    return random.Random('c20/%s/%s' % (cseed, size)).randbytes(size)


def cs_class(cs, size):
    if cs is None:
        return 'default'
    if cs in CHUNKS:
        return str(cs)
    return '>file' if cs > size else 'odd'


def errname(code):
    if isinstance(code, int):
        return errno.errorcode.get(code, 'errno=%d' % code)
    return str(code)


class BackendError(OSError):
    """An OSError subclass of the caller's own (storage back ends raise such things): errno says what happened, the
    class is not one of the builtin FileNotFoundError / FileExistsError the interpreter maps errnos to."""


def make_fault(code, style='plain'):
    if style == 'subclass' and isinstance(code, int):
        return BackendError(code, 'injected (own OSError subclass)')
    if style == 'late-errno' and isinstance(code, int):
        e = OSError('injected, errno assigned afterwards')
        e.errno = code
        return e
    if code == 'noerrno':
        return OSError('injected, no errno')
    if code == 'runtime':
        return RuntimeError('injected')
    return OSError(code, 'injected')


# ----------------------------------------------------------------------
# scratch handling
# ----------------------------------------------------------------------
_seq = [0]


def _casedir(ctx):
    base = os.path.join(os.environ['VERIF_SCRATCH'], 'c20-w%d' % ctx.shard)
    os.makedirs(base, exist_ok=True)
    _seq[0] += 1
    d = os.path.join(base, 'k%d' % _seq[0])
    shutil.rmtree(d, ignore_errors=True)
    os.mkdir(d)
    return d


def _write(path, data):
    with open(path, 'wb') as f:
        f.write(data)


def _read(path):
    with open(path, 'rb') as f:
        return f.read()


def _snapshot(root):
    files, dirs, links = {}, {}, {}
    for dp, dn, fn in os.walk(root):
        for x in dn:
            p = os.path.join(dp, x)
            if os.path.islink(p):
                links[p] = os.readlink(p)
            else:
                dirs[p] = stat.S_IMODE(os.lstat(p).st_mode)
        for x in fn:
            p = os.path.join(dp, x)
            if os.path.islink(p):
                links[p] = os.readlink(p)
            else:
                files[p] = _read(p)
    return files, dirs, links


def _call(f, *a, **k):
    try:
        return f(*a, **k), None
    except BaseException as e:  # noqa
        return None, e


# ----------------------------------------------------------------------
# evaluators
# ----------------------------------------------------------------------
def _ev_cksum(ctx, case, fu):
    size, cseed, cs, alg = case['size'], case['cseed'], case['cs'], case['alg']
    data = content(size, cseed)
    d = _casedir(ctx)
    try:
        p = os.path.join(d, 'data.bin')
        _write(p, data)
        kw = {}
        if cs is not None:
            kw['read_chunksize'] = cs
        if alg is not None:
            kw['algorithm'] = alg
        want = hashlib.new(alg or 'sha256', data).hexdigest()
        inner = {'n': 0, 'bad': None}
        if case.get('reentrant'):
            # another checksum runs whenever the first one yields (time.sleep(0) under a green-thread scheduler, or a
            # patched sleep that calls back): two computations in flight share nothing
            import time as _time
            p2 = os.path.join(d, 'other.bin')
            # (the one started in between is sometimes the bigger job: larger file, larger read size)
            bigger = bool(cseed % 2)
            data2 = content(min(size * 3 + 11, 3 << 20) if bigger else max(1, size // 2 + 7), cseed + 1)
            kw2 = dict(kw)
            if bigger:
                kw2['read_chunksize'] = (cs or 65536) * 4
            _write(p2, data2)
            want2 = hashlib.new(alg or 'sha256', data2).hexdigest()

            class _YieldingTime(object):
                def __getattr__(self, name):
                    return getattr(_time, name)

                def sleep(self, secs):
                    if inner['n'] < 3 and not inner.get('busy'):
                        inner['busy'] = True
                        inner['n'] += 1
                        try:
                            g2, e2 = _call(fu.compute_file_checksum, p2, **kw2)
                            if e2 is not None or g2 != want2:
                                inner['bad'] = {'inner_got': g2, 'inner_want': want2, 'exc': e2}
                        finally:
                            inner['busy'] = False
                    return _time.sleep(secs)
            old_time = fu.time
            fu.time = _YieldingTime()
            try:
                got, exc = _call(fu.compute_file_checksum, p, **kw)
            finally:
                fu.time = old_time
            if inner['n']:
                ctx.clause('checksum-reentrant-at-yield')
            if inner['bad']:
                ctx.fail('checksum-reentrant-at-yield', case, inner['bad'])
        else:
            got, exc = _call(fu.compute_file_checksum, p, **kw)
            if size > 0 and exc is None and cseed % 3 == 0:
                # the same file (same inode) overwritten in place with other bytes of the same length and its modification
                # time put back (rsync --inplace -t, cp -p, a restore): the digest is the digest of what is there now
                st = os.stat(p)
                data_b = content(size, cseed + 77)
                if data_b == data:
                    data_b = bytes([data[0] ^ 0xff]) + data[1:]
                with open(p, 'r+b') as fh:
                    fh.write(data_b)
                os.utime(p, ns=(st.st_atime_ns, st.st_mtime_ns))
                got_b, exc_b = _call(fu.compute_file_checksum, p, **kw)
                ctx.clause('checksum-after-in-place-rewrite')
                if exc_b is not None or got_b != hashlib.new(alg or 'sha256', data_b).hexdigest():
                    ctx.fail('checksum-after-in-place-rewrite', case,
                             {'got': got_b, 'exc': exc_b, 'is_digest_of_the_old_content': got_b == want, 'same_inode': os.stat(p).st_ino == st.st_ino})
                data = data_b
        still = _read(p)
    finally:
        shutil.rmtree(d, ignore_errors=True)
    ctx.case(('cksum', size, cseed, cs, alg, bool(case.get('reentrant'))), nontrivial=size > 0)
    ctx.clause('checksum-equals-whole-digest')
    ctx.h('algorithm x chunk size class', '%s/%s' % (alg or 'default', cs_class(cs, size)))
    tail = 0 if cs is None or size == 0 else size % cs
    ctx.h('checksum shape', 'empty' if size == 0 else 'single chunk' if (cs is None or size <= cs)
          else 'exact multiple' if tail == 0 else 'short final chunk')
    if exc is not None or got != want or not isinstance(got, str):
        ctx.fail('checksum-equals-whole-digest', case,
                 {'size': size, 'read_chunksize': cs, 'algorithm': alg, 'got': got, 'want': want, 'exc': exc})
    if still != data:
        ctx.fail('checksum-leaves-file-untouched', case, {'size': size, 'after_len': len(still)})


def _last_ok(got, want):
    return (isinstance(got, tuple) and len(got) == 2 and isinstance(got[0], bytes) and
            got[0] == want[0] and not isinstance(got[1], bool) and isinstance(got[1], int) and
            got[1] == want[1])


def _short(got):
    if isinstance(got, tuple) and len(got) == 2 and isinstance(got[0], (bytes, bytearray)):
        return {'len': len(got[0]), 'head': bytes(got[0][:16]), 'tail': bytes(got[0][-16:]), 'count': got[1]}
    return got


def _ev_last(ctx, case, fu):
    size, cseed, ns = case['size'], case['cseed'], case['ns']
    data = content(size, cseed)
    d = _casedir(ctx)
    try:
        p = os.path.join(d, 'log.bin')
        _write(p, data)
        for n in ns:
            got, exc = _call(fu.last_bytes, p, n)
            if n < 0:
                # DONT-CARE: the statement speaks about a number of bytes
                ctx.case(('last', size, cseed, n), nontrivial=False)
                ctx.h('last_bytes n class', 'negative (dont-care)')
                if exc is not None and not isinstance(exc, (OSError, ValueError)):
                    ctx.fail('last-bytes-unexpected-exception', case, {'size': size, 'n': n, 'exc': exc})
                continue
            k = min(n, size)
            want = (data[size - k:], size - k)
            ctx.case(('last', size, cseed, n), nontrivial=size > 0)
            ctx.clause('last-bytes-tail-and-count')
            if n == 0:
                ctx.clause('last-bytes-n0')
            if n > size:
                ctx.clause('last-bytes-n-exceeds-size')
            ctx.h('last_bytes n class', 'n=0' if n == 0 else 'n<size' if n < size else
                  'n=size' if n == size else 'n=size+1' if n == size + 1 else 'n>size+1')
            if exc is not None or not _last_ok(got, want):
                ctx.fail('last-bytes-tail-and-count', case,
                         {'size': size, 'n': n, 'got': _short(got), 'want': _short(want), 'exc': exc})
        if _read(p) != data:
            ctx.fail('last-bytes-leaves-file-untouched', case, {'size': size})
    finally:
        shutil.rmtree(d, ignore_errors=True)


class _FailSeek:
    """File wrapper whose first seek() raises the injected error."""

    def __init__(self, real, err, log):
        self._real, self._err, self._log = real, err, log

    def seek(self, *a, **k):
        self._log.append(a)
        if len(self._log) == 1:
            raise self._err
        return self._real.seek(*a, **k)

    def __enter__(self):
        return self

    def __exit__(self, *a):
        self._real.close()
        return False

    def __iter__(self):
        return iter(self._real)

    def __getattr__(self, name):
        return getattr(self._real, name)


def _ev_seekfail(ctx, case, fu):
    code, size, cseed, n = case['code'], case['size'], case['cseed'], case['n']
    data = content(size, cseed)
    err = make_fault(code)
    seeks = []
    real_open = open

    def fake_open(path, *a, **k):
        return _FailSeek(real_open(path, *a, **k), err, seeks)

    d = _casedir(ctx)
    had = 'open' in vars(fu)
    old = vars(fu).get('open')
    try:
        p = os.path.join(d, 'log.bin')
        _write(p, data)
        fu.open = fake_open
        try:
            got, exc = _call(fu.last_bytes, p, n)
        finally:
            if had:
                fu.open = old
            else:
                del fu.open
    finally:
        shutil.rmtree(d, ignore_errors=True)
    k = min(n, size)
    want = (data[size - k:], size - k)
    ctx.case(('seekfail', code, size, cseed, n))
    if not seeks:
        ctx.inconclusive_because('seek failpoint not reached: last_bytes did not call open(...).seek')
        if exc is not None or not _last_ok(got, want):
            ctx.fail('last-bytes-tail-and-count', case, {'got': _short(got), 'want': _short(want), 'exc': exc})
        return
    if code == errno.EINVAL:
        ctx.clause('seek-EINVAL-fallback')
        if n > size:
            ok = exc is None and _last_ok(got, (data, 0))
            ctx.h('errno outcomes', 'last_bytes.seek/n>size/EINVAL: fallback reads from start')
        else:
            # the statement does not pin the answer for an impossible fault
            ok = (exc is None and isinstance(got, tuple) and len(got) == 2 and
                  isinstance(got[1], int) and 0 <= got[1] <= size and got[0] == data[got[1]:])
            ctx.h('errno outcomes', 'last_bytes.seek/n<=size/EINVAL: %s' % (
                'WRONG' if not ok else 'reads from start' if got[1] == 0 else 'reads tail'))
        if not ok:
            ctx.fail('seek-EINVAL-fallback', case,
                     {'size': size, 'n': n, 'got': _short(got), 'exc': exc})
        return
    ctx.clause('seek-other-errno')
    if exc is err:
        ctx.h('errno outcomes', 'last_bytes.seek/other: propagated same object')
    elif exc is None and _last_ok(got, want):
        ctx.h('errno outcomes', 'last_bytes.seek/other: recovered with the right answer')
    else:
        ctx.h('errno outcomes', 'last_bytes.seek/other: WRONG')
        ctx.fail('seek-other-errno-must-propagate', case,
                 {'errno': errname(code), 'size': size, 'n': n, 'got': _short(got), 'exc': exc,
                  'same_object': exc is err})


def _ev_tmpfile(ctx, case, fu):
    existing, missing = case['existing'], case['missing']
    d = _casedir(ctx)
    old_tempdir = tempfile.tempdir
    returned = []
    try:
        base = os.path.join(d, 'root', *existing)
        os.makedirs(base)
        deftmp = os.path.join(d, 'default-location')
        os.mkdir(deftmp)
        _write(os.path.join(deftmp, 'tmpkeepme'), b'in default dir')
        target = os.path.join(base, *missing)
        # pre-existing files: in the deepest existing directory and one level up
        pre_rng = random.Random('c20/pre/%s' % case['cseed'])
        for i in range(case['pre']):
            name = '%s%s%s' % (case['prefix'] if case['prefix'] is not None else 'tmp',
                               '%08x' % pre_rng.getrandbits(32),
                               case['suffix'] if case['suffix'] is not None else '')
            where = base if i % 3 else os.path.dirname(base)
            _write(os.path.join(where, name if i % 2 else 'other%d.dat' % i), pre_rng.randbytes(pre_rng.randrange(64)))
        kw = {}
        if case['suffix'] is not None:
            kw['suffix'] = case['suffix']
        if case['prefix'] is not None:
            kw['prefix'] = case['prefix']
        if not case['default_dir']:
            kw['path'] = target + ('/' if case.get('trailing_slash') else '')
        elif case.get('explicit_none'):
            kw['path'] = None
        tempfile.tempdir = deftmp
        if case.get('ensure_first') and not case['default_dir']:
            fu.ensure_tree(target)                      # the directory is made through ensure_tree first
        for callno, csize in enumerate(case['sizes']):
            data = content(csize, case['cseed'] + callno)
            # what is written is handed over as bytes or as another object with the buffer interface (what os.write
            # takes): bytearray, memoryview, views and arrays whose items are wider than a byte (len() counts items)
            how = ('bytes', 'bytes', 'bytearray', 'memoryview', 'memoryview-of-4-byte-items', 'array-of-2-byte-items',
                   'array-of-doubles', 'bytes-subclass')[(case['cseed'] + 3 * callno) % 8] if case.get('carriers', True) else 'bytes'
            arg = data
            if how == 'bytearray':
                arg = bytearray(data)
            elif how == 'memoryview':
                arg = memoryview(data)
            elif how == 'bytes-subclass':
                arg = type('Blob', (bytes,), {})(data)
            elif how != 'bytes':
                import array
                width = {'memoryview-of-4-byte-items': 4, 'array-of-2-byte-items': 2, 'array-of-doubles': 8}[how]
                data = data[:len(data) - len(data) % width]
                if how == 'memoryview-of-4-byte-items':
                    arg = memoryview(bytearray(data)).cast('I')
                else:
                    arg = array.array('H' if width == 2 else 'd')
                    arg.frombytes(data)
            ctx.h('write_to_tempfile content handed over as', how)
            if callno and case.get('remove_between') and not case['default_dir'] and missing:
                # somebody removes the directories again between two calls: "creating missing directories first"
                # holds for every call, not only for the first one on a path
                shutil.rmtree(os.path.join(base, missing[0]), ignore_errors=True)
                returned = []
                ctx.clause('tempfile-dirs-removed-between-calls')
            collide_dir = deftmp if case['default_dir'] else target
            real_names = tempfile._get_candidate_names
            if case.get('collide') and os.path.isdir(collide_dir):
                # the first random name the standard library proposes is already taken by a file of exactly the final
                # name (the one-in-a-trillion collision "distinct from any existing one" is about, made certain)
                rnd = 'taken%dx' % callno
                _write(os.path.join(collide_dir, (case['prefix'] if case['prefix'] is not None else 'tmp') + rnd +
                                    (case['suffix'] if case['suffix'] is not None else '')), b'an older file, not ours')

                def _names(rnd=rnd):
                    def gen():
                        yield rnd
                        for n in real_names():
                            yield n
                    return gen()
                tempfile._get_candidate_names = _names
                ctx.clause('tempfile-first-proposed-name-taken')
            before = _snapshot(d)
            dirs_missing = (not case['default_dir']) and not os.path.isdir(target)
            try:
                got, exc = _call(fu.write_to_tempfile, arg, **kw)
            finally:
                tempfile._get_candidate_names = real_names
            after = _snapshot(d)
            key = ('tmpfile', tuple(existing), tuple(missing), case['pre'], case['suffix'], case['prefix'],
                   case['default_dir'], case.get('trailing_slash'), callno, csize, case['cseed'])
            ctx.case(key)
            ctx.h('write_to_tempfile shape', 'default location' if case['default_dir'] else
                  'missing depth %d%s' % (len(missing) if dirs_missing else 0, ', repeat call' if callno else ''))
            if exc is not None or not isinstance(got, str):
                ctx.fail('tempfile-must-not-raise', case,
                         {'call': callno, 'dirs_missing': dirs_missing, 'got': got, 'exc': exc})
                return
            p = os.path.normpath(got)
            where = deftmp if case['default_dir'] else os.path.normpath(target)
            ctx.clause('tempfile-new-distinct')
            if (p in before[0] or p in before[1] or p in before[2] or p in returned or
                    p not in after[0] or not stat.S_ISREG(os.lstat(p).st_mode)):
                ctx.fail('tempfile-new-distinct', case,
                         {'call': callno, 'returned': got, 'existed_before': p in before[0],
                          'returned_earlier': p in returned, 'is_file_after': p in after[0]})
                return
            returned.append(p)
            ctx.clause('tempfile-content-exact')
            if after[0][p] != data:
                ctx.fail('tempfile-content-exact', case,
                         {'call': callno, 'want_len': len(data), 'got_len': len(after[0][p]),
                          'got_head': after[0][p][:32], 'want_head': data[:32]})
            ctx.clause('tempfile-existing-untouched')
            changed = [q for q, b in before[0].items() if after[0].get(q) != b]
            gone = [q for q in list(before[1]) + list(before[2]) if q not in after[1] and q not in after[2]]
            if changed or gone:
                ctx.fail('tempfile-existing-untouched', case,
                         {'call': callno, 'changed_or_removed_files': changed[:5], 'removed_dirs': gone[:5]})
            if dirs_missing:
                ctx.clause('tempfile-dirs-created')
                if not os.path.isdir(target):
                    ctx.fail('tempfile-dirs-created', case, {'call': callno, 'target': target})
            ctx.clause('tempfile-in-directory')
            if os.path.dirname(p) != where:
                ctx.fail('tempfile-in-directory', case, {'call': callno, 'returned': got, 'want_dir': where})
            ctx.clause('tempfile-suffix-prefix')
            name = os.path.basename(p)
            pre = case['prefix'] if case['prefix'] is not None else 'tmp'
            suf = case['suffix'] if case['suffix'] is not None else ''
            if not (name.startswith(pre) and name.endswith(suf) and len(name) > len(pre) + len(suf)):
                ctx.fail('tempfile-suffix-prefix', case, {'call': callno, 'name': name, 'prefix': pre, 'suffix': suf})
    finally:
        tempfile.tempdir = old_tempdir
        shutil.rmtree(d, ignore_errors=True)


def _ev_ensure_inject(ctx, case, fu):
    code, state, mode = case['code'], case['state'], case['mode']
    d = _casedir(ctx)
    err = make_fault(code, case.get('style', 'plain'))
    if case.get('style'):
        ctx.clause('errno-decides-not-exception-class')
    calls = []

    def fake_makedirs(name, mode=0o777, exist_ok=False):
        calls.append((name, mode, exist_ok))
        if state == 'appears':
            # a concurrent creator wins the race: the directory exists by the time mkdir reports EEXIST
            real(name)
        raise err

    try:
        t = os.path.join(d, *case.get('under', []), 'tgt_%s' % state)
        os.makedirs(os.path.dirname(t), exist_ok=True)
        if state == 'dir':
            os.mkdir(t)
            _write(os.path.join(t, 'inside'), b'keep')
        elif state == 'file':
            _write(t, b'i am a file')
        before = _snapshot(d)
        real = os.makedirs
        fu.os.makedirs = fake_makedirs
        try:
            args = (t,) if mode is None else (t, mode)
            got, exc = _call(fu.ensure_tree, *args)
        finally:
            fu.os.makedirs = real
        after = _snapshot(d)
    finally:
        shutil.rmtree(d, ignore_errors=True)
    ctx.case(('ensure-inject', code, state, mode, tuple(case.get('under', [])), case.get('style')))
    absorb = code == errno.EEXIST and state in ('dir', 'appears')
    if not calls:
        if state == 'dir' and exc is None and after == before:
            # the work was already done and the helper noticed without asking makedirs: nothing to inject into
            ctx.clause('ensure-already-done-without-makedirs')
            return
        ctx.inconclusive_because('os.makedirs failpoint not reached by ensure_tree')
        return
    if absorb:
        ctx.clause('ensure-absorb-EEXIST-dir')
        outcome = 'absorbed' if exc is None else 'raised'
        if exc is not None:
            ctx.fail('ensure-absorb-EEXIST-dir', case, {'errno': errname(code), 'state': state, 'exc': exc})
    else:
        ctx.clause('ensure-propagate-same-object')
        outcome = ('propagated same object' if exc is err else
                   'SWALLOWED' if exc is None else 'REPLACED by another exception')
        if exc is not err:
            ctx.fail('ensure-propagate-same-object', case,
                     {'errno': errname(code), 'state': state, 'exc': exc, 'returned': got,
                      'injected': err})
    ctx.h('errno outcomes', 'ensure_tree/%s: %s' % (state, outcome))
    if code == errno.EEXIST or not isinstance(code, int):
        ctx.h('errno outcomes (named)', 'ensure_tree/%s/%s: %s' % (state, errname(code), outcome))
    if calls[0][0] != t or (mode is not None and calls[0][1] != mode):
        ctx.fail('ensure-passes-path-and-mode', case, {'makedirs_called_with': calls[0], 'path': t, 'mode': mode})
    if after != before and state != 'appears':
        ctx.fail('ensure-fault-leaves-tree-untouched', case, {'state': state, 'errno': errname(code)})


def _ev_ensure_real(ctx, case, fu):
    existing, missing, mode, umask = case['existing'], case['missing'], case['mode'], case['umask']
    d = _casedir(ctx)
    old_umask = os.umask(umask)
    try:
        base = os.path.join(d, *existing)
        os.makedirs(base, exist_ok=True)
        _write(os.path.join(base, 'bystander'), b'do not touch')
        blocker = case.get('blocker')          # None | 'leaf' | 'middle'
        target = os.path.join(base, *missing)
        if blocker == 'leaf':
            os.makedirs(os.path.dirname(target), exist_ok=True)
            _write(target, b'file in the way')
        elif blocker == 'middle':
            _write(os.path.join(base, missing[0]), b'file in the way')
        path_arg = target + ('/' if case.get('trailing_slash') else '')
        args = (path_arg,) if mode is None else (path_arg, mode)
        before = _snapshot(d)
        got, exc = _call(fu.ensure_tree, *args)
        after = _snapshot(d)
        ctx.case(('ensure-real', tuple(existing), tuple(missing), mode, umask, blocker,
                  case.get('trailing_slash')))
        ctx.h('ensure_tree real states', 'blocked by file (%s)' % blocker if blocker else
              'existing=%d missing=%d' % (len(existing), len(missing)))
        if blocker:
            ctx.clause('ensure-file-in-the-way-raises')
            if not isinstance(exc, OSError):
                ctx.fail('ensure-file-in-the-way-raises', case, {'blocker': blocker, 'got': got, 'exc': exc})
            if after != before:
                ctx.fail('ensure-error-leaves-tree-untouched', case, {'blocker': blocker})
            return
        if exc is not None:
            ctx.fail('ensure-must-succeed', case, {'missing': missing, 'exc': exc})
            return
        if missing:
            ctx.clause('ensure-creates-nested')
            p = base
            notdirs = []
            for comp in missing:
                p = os.path.join(p, comp)
                if not os.path.isdir(p) or os.path.islink(p):
                    notdirs.append(p)
            if notdirs:
                ctx.fail('ensure-creates-nested', case, {'not_directories': notdirs})
                return
            ctx.clause('ensure-leaf-mode')
            want_mode = (0o777 if mode is None else mode) & ~umask
            got_mode = stat.S_IMODE(os.lstat(target).st_mode)
            if got_mode != want_mode:
                ctx.fail('ensure-leaf-mode', case, {'got': oct(got_mode), 'want': oct(want_mode)})
        else:
            ctx.clause('ensure-idempotent')
            if after != before:
                ctx.fail('ensure-idempotent', case, {'note': 'tree changed by ensure_tree on an existing directory'})
        changed = [q for q, b in before[0].items() if after[0].get(q) != b]
        if changed:
            ctx.fail('ensure-leaves-files-untouched', case, {'changed': changed[:5]})
        # the work is done now: every further call must succeed and change nothing
        for rep in range(case.get('repeat', 2)):
            rargs = args if rep % 2 == 0 else (path_arg, MODES[rep % len(MODES)])
            got2, exc2 = _call(fu.ensure_tree, *rargs)
            again = _snapshot(d)
            ctx.clause('ensure-idempotent')
            if exc2 is not None or again != after:
                ctx.fail('ensure-idempotent', case,
                         {'repeat': rep, 'exc': exc2, 'tree_changed': again != after})
                break
    finally:
        os.umask(old_umask)
        shutil.rmtree(d, ignore_errors=True)


def _ev_ensure_link(ctx, case, fu):
    """The path already IS a directory - through a symbolic link (absolute, relative or a chain of links): the work is
    done, ensure_tree succeeds and changes nothing; write_to_tempfile into it works; directories below it can be made."""
    how, below = case['how'], case['below']
    d = _casedir(ctx)
    try:
        real = os.path.join(d, 'real-dir')
        os.makedirs(real)
        _write(os.path.join(real, 'inside'), b'keep')
        link = os.path.join(d, 'the-link')
        if how == 'absolute':
            os.symlink(real, link)
        elif how == 'relative':
            os.symlink('real-dir', link)
        else:
            os.symlink(real, os.path.join(d, 'hop'))
            os.symlink('hop', link)
        target = os.path.join(link, *below)
        before = _snapshot(d)
        got, exc = _call(fu.ensure_tree, target)
        after = _snapshot(d)
        ctx.case(('ensure-link', how, tuple(below)))
        ctx.clause('ensure-directory-behind-symlink')
        if exc is not None:
            ctx.fail('ensure-directory-behind-symlink', case, {'exc': exc, 'below': below})
            return
        if not below and after != before:
            ctx.fail('ensure-directory-behind-symlink', case, {'note': 'tree changed although the directory existed'})
        if not os.path.isdir(os.path.join(real, *below)) or not os.path.islink(link):
            ctx.fail('ensure-directory-behind-symlink', case, {'note': 'directory not (only) created behind the link'})
        got2, exc2 = _call(fu.ensure_tree, target)
        if exc2 is not None:
            ctx.fail('ensure-idempotent', case, {'second_call': exc2})
        got3, exc3 = _call(fu.write_to_tempfile, b'content', path=target)
        if exc3 is not None or not isinstance(got3, str) or _read(got3) != b'content' or \
                os.path.dirname(os.path.realpath(got3)) != os.path.realpath(os.path.join(real, *below)):
            ctx.fail('tempfile-in-directory', case, {'via_symlink': True, 'got': got3, 'exc': exc3})
    finally:
        shutil.rmtree(d, ignore_errors=True)


def _ev_delete_inject(ctx, case, fu):
    code, state = case['code'], case['state']
    d = _casedir(ctx)
    err = make_fault(code, case.get('style', 'plain'))
    if case.get('style'):
        ctx.clause('errno-decides-not-exception-class')
    calls = []

    def fake_remove(*a, **k):
        calls.append((a, k))
        raise err

    try:
        t = os.path.join(d, 'victim_%s' % state)
        if state == 'file':
            _write(t, b'still here')
        elif state == 'dir':
            os.mkdir(t)
        before = _snapshot(d)
        remover = fake_remove
        if case.get('falsy_remove'):
            # a call recorder that is "empty" (len 0, hence falsy) until it has been used - still the caller's remove
            class _Recorder(object):
                def __len__(self):
                    return 0

                def __call__(self, *a, **k):
                    return fake_remove(*a, **k)
            remover = _Recorder()
            ctx.clause('falsy-remove-callable-is-used')
        got, exc = _call(fu.delete_if_exists, t, remove=remover)
        after = _snapshot(d)
    finally:
        shutil.rmtree(d, ignore_errors=True)
    ctx.case(('delete-inject', code, state, case.get('style'), bool(case.get('falsy_remove'))))
    if not calls:
        ctx.fail('delete-uses-remove-callable', case, {'note': 'remove= callable was not called', 'exc': exc})
        return
    if code == errno.ENOENT:
        ctx.clause('delete-absorb-ENOENT')
        outcome = 'absorbed' if exc is None else 'raised'
        if exc is not None:
            ctx.fail('delete-absorb-ENOENT', case, {'state': state, 'exc': exc})
    else:
        ctx.clause('delete-propagate-same-object')
        outcome = ('propagated same object' if exc is err else
                   'SWALLOWED' if exc is None else 'REPLACED by another exception')
        if exc is not err:
            ctx.fail('delete-propagate-same-object', case,
                     {'errno': errname(code), 'state': state, 'exc': exc, 'returned': got, 'injected': err})
    ctx.h('errno outcomes', 'delete_if_exists/%s: %s' % (state, outcome))
    if code == errno.ENOENT or not isinstance(code, int):
        ctx.h('errno outcomes (named)', 'delete_if_exists/%s/%s: %s' % (state, errname(code), outcome))
    if calls[0] != ((t,), {}):
        ctx.fail('delete-passes-path', case, {'remove_called_with': calls[0], 'path': t})
    if after != before:
        ctx.fail('delete-fault-leaves-tree-untouched', case, {'state': state, 'errno': errname(code)})


REMOVERS = {'default': None, 'unlink': os.unlink, 'remove': os.remove, 'rmdir': os.rmdir,
            'rmtree': shutil.rmtree,
            # callers' removers that spell the name differently before they hand it to the OS: the error then carries
            # another spelling of the same file (or bytes) in .filename
            'unlink-dotted': lambda p: os.unlink(os.path.join(os.path.dirname(p), '.', os.path.basename(p))),
            'unlink-bytes': lambda p: os.unlink(os.fsencode(p)),
            'unlink-via-parent': lambda p: os.unlink(os.path.join(os.path.dirname(p), 'x', '..', os.path.basename(p)))
            if os.path.isdir(os.path.join(os.path.dirname(p), 'x')) else os.unlink(os.path.dirname(p) + os.sep + os.sep + os.path.basename(p)),
            'rmdir-slash': lambda p: os.rmdir(p + os.sep)}


def _ev_delete_real(ctx, case, fu):
    state, remover, name = case['state'], case['remover'], case['name']
    d = _casedir(ctx)
    try:
        _write(os.path.join(d, 'bystander'), b'do not touch')
        t = os.path.join(d, name)
        if state == 'file':
            _write(t, b'x' * case.get('size', 3))
        elif state == 'absent-in-absent-dir':
            t = os.path.join(d, 'no-such-dir', name)
        elif state == 'under-a-file':
            _write(os.path.join(d, 'plainfile'), b'f')
            t = os.path.join(d, 'plainfile', name)
        elif state == 'empty-dir':
            os.mkdir(t)
        elif state == 'full-dir':
            os.mkdir(t)
            _write(os.path.join(t, 'child'), b'c')
        elif state == 'dangling-symlink':
            os.symlink(os.path.join(d, 'nowhere'), t)
        elif state == 'symlink-to-file':
            _write(os.path.join(d, 'linktarget'), b'target')
            os.symlink(os.path.join(d, 'linktarget'), t)
        before = _snapshot(d)
        kw = {} if REMOVERS[remover] is None else {'remove': REMOVERS[remover]}
        got, exc = _call(fu.delete_if_exists, t, **kw)
        after = _snapshot(d)
        # independent expectation, from POSIX semantics of the chosen remover
        unlinkish = remover in ('default', 'unlink', 'remove') or remover.startswith('unlink-')
        if state in ('absent', 'absent-in-absent-dir'):
            expect = 'absent-ok'
        elif state == 'under-a-file':
            expect = 'error'                      # ENOTDIR is not "not found"
        elif state in ('file', 'dangling-symlink', 'symlink-to-file'):
            expect = 'removed' if unlinkish else 'error'     # rmdir/rmtree on a non-directory
        elif state == 'empty-dir':
            expect = 'error' if unlinkish else 'removed'     # unlink(dir): EISDIR/EPERM
        else:                                     # full-dir
            expect = 'removed' if remover == 'rmtree' else 'error'
        ctx.case(('delete-real', state, remover, name))
        ctx.h('delete_if_exists real states', '%s via %s -> %s' % (state, remover, expect))
        if expect == 'absent-ok':
            ctx.clause('delete-absent-ok')
            if exc is not None:
                ctx.fail('delete-absent-ok', case, {'exc': exc})
            if after != before:
                ctx.fail('delete-absent-leaves-tree-untouched', case, {})
        elif expect == 'removed':
            ctx.clause('delete-existing-removed')
            if exc is not None or os.path.lexists(t):
                ctx.fail('delete-existing-removed', case, {'exc': exc, 'still_exists': os.path.lexists(t)})
            others_changed = [q for q, b in before[0].items()
                              if q != t and not q.startswith(t + os.sep) and after[0].get(q) != b]
            if others_changed:
                ctx.fail('delete-leaves-other-files-untouched', case, {'changed': others_changed[:5]})
            got2, exc2 = _call(fu.delete_if_exists, t, **kw)     # the work is done now
            ctx.clause('delete-absent-ok')
            if exc2 is not None:
                ctx.fail('delete-absent-ok', case, {'second_call': True, 'exc': exc2})
        else:
            ctx.clause('delete-real-error-propagates')
            if not isinstance(exc, OSError):
                ctx.fail('delete-real-error-propagates', case, {'got': got, 'exc': exc})
            elif exc.errno == errno.ENOENT:
                ctx.note('real remover reported ENOENT for state %s via %s' % (state, remover))
            if after != before:
                ctx.fail('delete-error-leaves-tree-untouched', case, {'state': state})
    finally:
        shutil.rmtree(d, ignore_errors=True)


EVALUATORS = {'cksum': _ev_cksum, 'last': _ev_last, 'seekfail': _ev_seekfail, 'tmpfile': _ev_tmpfile,
              'ensure-inject': _ev_ensure_inject, 'ensure-real': _ev_ensure_real,
              'ensure-link': _ev_ensure_link, 'delete-inject': _ev_delete_inject, 'delete-real': _ev_delete_real}


def _nfds():
    try:
        return len(os.listdir('/proc/self/fd'))
    except OSError:
        return None


def _evaluate_nomodes(ctx, case):
    from oslo_utils import fileutils
    from vlib import callstyle
    fileutils = callstyle.proxy(fileutils)
    # conservation of file descriptors over the whole case (every helper opens and closes what it needs; a leak of one
    # descriptor per call is invisible in the results until the process runs out of them)
    import gc
    before = _nfds()
    EVALUATORS[case['kind']](ctx, case, fileutils)
    after = _nfds()
    if before is not None and after is not None:
        if after > before:
            gc.collect()
            after = _nfds()
        ctx.clause('no-descriptor-left-open')
        if after > before:
            ctx.fail('no-descriptor-left-open', case, {'open_before': before, 'open_after': after})


from vlib import envmodes  # noqa: E402
evaluate = envmodes.with_modes(_evaluate_nomodes, warn=lambda case: True, debug=lambda case: True, share_debug=4)


# ----------------------------------------------------------------------
# workload
# ----------------------------------------------------------------------
def run(ctx):
    idx = 0

    def emit(case):
        nonlocal idx
        idx += 1
        if ctx.mine(idx):
            ctx.sample(case['kind'], case)
            evaluate(ctx, case)

    algs = fixed_digest_algorithms()
    ctx.extra['fixed-digest algorithms'] = len(algs)
    ctx.extra['errno table size'] = len(errno.errorcode)
    rs = ctx.rng('content-seeds')

    # ---- 1. checksum: the grid of the statement ------------------------
    for cs in CHUNKS:
        for size in grid_sizes(cs):
            seed = rs.getrandbits(32)
            for alg in algs:
                emit(dict(kind='cksum', size=size, cseed=seed, cs=cs, alg=alg))
    all_sizes = sorted({s for cs in CHUNKS for s in grid_sizes(cs)})
    for size in all_sizes:
        seed = rs.getrandbits(32)
        for big in (size + 1, size + 65536 + 7):          # chunk larger than the file
            for alg in algs:
                emit(dict(kind='cksum', size=size, cseed=seed, cs=big, alg=alg))
    ctx.exhaustive['chunk size {1,2,7,64,4096,65536,>file} x sizes k*cs+{-1,0,1}, k=0..3 x fixed-digest '
                   'algorithms'] = True
    # defaults of the signature
    for size in (0, 1, 65535, 65536, 65537, 131073):
        seed = rs.getrandbits(32)
        emit(dict(kind='cksum', size=size, cseed=seed, cs=None, alg=None))
        emit(dict(kind='cksum', size=size, cseed=seed, cs=None, alg='md5'))
        emit(dict(kind='cksum', size=size, cseed=seed, cs=4096, alg=None))
        for cs_, alg_ in ((None, None), (None, 'md5'), (4096, None), (65536, 'sha1'), (7, None)):
            if size:
                emit(dict(kind='cksum', size=size, cseed=seed, cs=cs_, alg=alg_, reentrant=True))

    # ---- 2. checksum: every size x every chunk size --------------------
    rsz = ctx.rng('sizes')
    sizes = list(all_sizes)
    if not ctx.quick:
        sizes += [(1 << 20) - 1, 1 << 20, (1 << 20) + 1]
        sizes += [rsz.randrange(1, 1 << 20) for _ in range(16)]
    else:
        sizes += [rsz.randrange(1, 40000) for _ in range(6)]
    chunk_sizes = CHUNKS + ctx.pick(ODD_CHUNKS_QUICK, ODD_CHUNKS_THOROUGH)
    # every chunk costs a real time.sleep(0) (about 60 us on CPython 3.12), so the budget is counted in chunks
    full, two, one, sparse = ctx.pick((40, 400, 4000, 14000), (2000, 70000, 120000, 1 << 21))
    rot = 0
    for size in sizes:
        seed = rs.getrandbits(32)
        for cs in chunk_sizes:
            nchunks = size // cs
            rot += 1
            if nchunks <= full:
                chosen = algs
            elif nchunks <= two:
                chosen = [algs[rot % len(algs)], algs[(rot + 5) % len(algs)]]
            elif nchunks <= one or (nchunks <= sparse and rot % 4 == 0):
                chosen = [algs[rot % len(algs)]]
            else:
                chosen = []
            for alg in chosen:
                emit(dict(kind='cksum', size=size, cseed=seed, cs=cs, alg=alg))

    # files and chunk sizes beyond 1 MiB (both tiers): chunk larger than a MiB with a file larger than a MiB, chunk
    # larger than the file, chunk == size, chunk == size +- 1
    for size in ((1 << 20) + 1, (1 << 20) + 4097, 3 * (1 << 20) + 5):
        seed = rs.getrandbits(32)
        for cs in ((1 << 20) + 1, 1 << 21, size, size - 1, size + 1, 1 << 24, (1 << 20) - 1):
            emit(dict(kind='cksum', size=size, cseed=seed, cs=cs, alg=algs[(size + cs) % len(algs)]))

    # ---- 3. last_bytes -------------------------------------------------
    for size in sizes:
        seed = rs.getrandbits(32)
        ns = sorted({0, 1, size - 1, size, size + 1, HUGE})
        emit(dict(kind='last', size=size, cseed=seed, ns=ns))
    ctx.exhaustive['last_bytes n in {0,1,size-1,size,size+1,2**40} x grid sizes'] = True
    rn = ctx.rng('last-n')
    for i in range(ctx.pick(150, 4000)):
        size = rn.choice([rn.randrange(0, 64), rn.randrange(0, 5000), rn.randrange(0, ctx.pick(70000, 1 << 20))])
        ns = sorted({rn.randrange(0, size + 3) for _ in range(6)} |
                    {rn.choice([2, size // 2, max(0, size - 2), size + 2, size * 2 + 1, 2 ** 31, 2 ** 62])})
        emit(dict(kind='last', size=size, cseed=rs.getrandbits(32), ns=ns))

    # ---- 4. errno enumeration -----------------------------------------
    codes = sorted(errno.errorcode)
    for code in codes + EXTRA_FAULTS:
        for state in ('dir', 'file', 'absent', 'appears'):
            emit(dict(kind='ensure-inject', code=code, state=state, mode=None))
            emit(dict(kind='ensure-inject', code=code, state=state, mode=0o750, under=['a', 'b']))
        for state in ('file', 'absent', 'dir'):
            emit(dict(kind='delete-inject', code=code, state=state))
            if isinstance(code, int) and code % 9 == 2:
                emit(dict(kind='delete-inject', code=code, state=state, falsy_remove=True))
        if code in (errno.ENOENT, errno.EEXIST, errno.EACCES, errno.EPERM, errno.ENOTDIR, errno.EISDIR, errno.EBUSY, errno.EIO):
            for style in ('subclass', 'late-errno'):
                for state in ('dir', 'file', 'absent', 'appears'):
                    emit(dict(kind='ensure-inject', code=code, state=state, mode=None, style=style))
                for state in ('file', 'absent', 'dir'):
                    emit(dict(kind='delete-inject', code=code, state=state, style=style))
        for size, n in ((10, 3), (10, 10), (10, 20), (0, 0), (0, 5), (4096, HUGE)):
            emit(dict(kind='seekfail', code=code, size=size, cseed=rs.getrandbits(16), n=n))
    for size in (0, 1, 10, 4096, 70000):
        for n in (size + 1, 2 * size + 3, HUGE, max(0, size - 1), size):
            emit(dict(kind='seekfail', code=errno.EINVAL, size=size, cseed=rs.getrandbits(16), n=n))
    ctx.exhaustive['errno table x directory states'] = True
    ctx.exhaustive['errno table x remove callable x path states'] = True
    ctx.exhaustive['errno table x seek failpoint'] = True

    # ---- 5. ensure_tree on real trees ---------------------------------
    names = ['a', 'b.d', 'c c', 'd-é', 'e']
    for nex in range(0, 4):
        for nmiss in range(0, 6):
            for j, mode in enumerate([None] + MODES):
                umask = [0o022, 0o077, 0, 0o027][(nex + nmiss + j) % 4]
                emit(dict(kind='ensure-real', existing=names[:nex], missing=['m%d' % k for k in range(nmiss)],
                          mode=mode, umask=umask, repeat=3, trailing_slash=(j == 3)))
    for nex in range(0, 3):
        for nmiss in range(1, 4):
            for blocker in ('leaf', 'middle'):
                for mode in (None, 0o755):
                    emit(dict(kind='ensure-real', existing=names[:nex], missing=['m%d' % k for k in range(nmiss)],
                              mode=mode, umask=0o022, blocker=blocker))

    # ---- 6. delete_if_exists on real trees ----------------------------
    rd = ctx.rng('delete')
    states = ['file', 'absent', 'absent-in-absent-dir', 'under-a-file', 'empty-dir', 'full-dir',
              'dangling-symlink', 'symlink-to-file']
    for rep in range(ctx.pick(2, 10)):
        for state in states:
            for remover in sorted(REMOVERS):
                if remover == 'rmtree' and 'symlink' in state:
                    continue        # what shutil.rmtree reports for a symlink is version dependent
                if '-' in remover and 'symlink' in state:
                    continue        # (a trailing separator makes the OS follow the link: another question)
                name = 'v%04x%s' % (rd.getrandbits(16), rd.choice(['', '.txt', ' x', '.é']))
                emit(dict(kind='delete-real', state=state, remover=remover, name=name, size=rd.randrange(0, 100)))

    for how in ('absolute', 'relative', 'chain'):
        for below in ([], ['sub'], ['a', 'b', 'c']):
            emit(dict(kind='ensure-link', how=how, below=below))
    # ---- 7. write_to_tempfile -----------------------------------------
    rt = ctx.rng('tmpfile')
    suffixes = [None, '', '.s', '.conf', '~', '.tar.gz', '-é']
    prefixes = [None, '', 'pp', 'tmp', 'a.b-', 'cfg_', 'ü']
    big_sizes = ctx.pick([4095, 4096, 4097, 65537], [4095, 4096, 4097, 65537, 1 << 20, (1 << 20) + 1])
    i = 0
    # directed: every (existing depth, missing depth) pair
    for nex in range(0, 3):
        for nmiss in range(0, 6):
            for default_dir in (False,):
                i += 1
                emit(dict(kind='tmpfile', existing=names[:nex], missing=['n%d' % k for k in range(nmiss)],
                          pre=(i % 4) * 2, sizes=[i % 7, 0, 33, big_sizes[i % len(big_sizes)]],
                          cseed=rs.getrandbits(30), suffix=suffixes[i % len(suffixes)],
                          prefix=prefixes[(i // 2) % len(prefixes)], default_dir=default_dir,
                          trailing_slash=(i % 5 == 0)))
                if nmiss:
                    emit(dict(kind='tmpfile', existing=names[:nex], missing=['n%d' % k for k in range(nmiss)],
                              pre=0, sizes=[5, 6, 7], cseed=rs.getrandbits(30), suffix=None, prefix=None,
                              default_dir=False, remove_between=True, ensure_first=bool(i % 2)))
    for j in range(6):
        emit(dict(kind='tmpfile', existing=[], missing=[], pre=j, sizes=[j, 100, 0], cseed=rs.getrandbits(30),
                  suffix=suffixes[j], prefix=prefixes[j], default_dir=True, explicit_none=bool(j % 2)))
    for j in range(ctx.pick(200, 5000)):
        nex = rt.randrange(0, 4)
        nmiss = rt.choice([0, 0, 1, 2, 3, 4, 5, 8])
        emit(dict(kind='tmpfile', existing=[rt.choice(names) for _ in range(nex)],
                  missing=['n%d' % rt.randrange(3) for _ in range(nmiss)],
                  pre=rt.randrange(0, 6),
                  sizes=[rt.choice([0, 1, rt.randrange(100), rt.randrange(5000), rt.choice(big_sizes)])
                         for _ in range(rt.randrange(1, 5))],
                  cseed=rs.getrandbits(30), suffix=rt.choice(suffixes), prefix=rt.choice(prefixes),
                  default_dir=rt.random() < 0.1, explicit_none=rt.random() < 0.5,
                  remove_between=rt.random() < 0.25, ensure_first=rt.random() < 0.2,
                  trailing_slash=rt.random() < 0.15, collide=rt.random() < 0.3))


LEVEL_TEXT = ('Fault enumeration: OSError(e) for every e in errno.errorcode (130 on this platform, plus four '
              'out-of-table values, an errno-less OSError and a RuntimeError) is injected into the os.makedirs '
              'call of ensure_tree for each of the three target states (directory / regular file / absent), into '
              'the remove callable of delete_if_exists for three path states, and into the first seek of '
              'last_bytes; the outcome (absorbed / same object re-raised) is compared with the table of the '
              'statement. The value clauses are explored over the complete chunk-size x size-around-multiples '
              'x algorithm grid of the statement and seeded sizes beyond it.')
LEVEL_NOTE = ('Trusted: hashlib on the in-memory content, bytes slicing, os.walk snapshots on tmpfs. Faults are '
              'single (one failing call per execution); sequences of several faults and faults in '
              'mkstemp/os.write/read are not enumerated. Leaf mode only; negative n, str content, path="" are '
              'DONT-CARE. For a non-EINVAL seek fault either the same exception object or the correct answer '
              'is accepted.')
TECHNIQUE = 'reference-model monitor (hashlib / slicing / tree snapshots) + errno-table failpoints'
