"""C01 Image inspection verdict depends on the bytes only, never on the chunking.

Monitors
  R  region exactness (invariant at a hook, after every chunk and after finish):
     whatever a region retains == the stream's bytes at that region's offset.
  V  verdict invariance (history diff): all schedules of one stream give the same
     verdict tuple (format_match, complete, virtual_size, safety outcome | raised type).
  Q  queries are pure: interleaving verdict()/safety_check() calls changes nothing.
  E  capture engine, exhaustive: a harness-defined inspector with static, end and
     two levels of dependent regions over every stream of small length x ALL chunkings,
     against slice semantics.
"""
import itertools

from vlib import imagecases as ic
from vlib import imagegen as ig
from vlib import known
from vlib import streamlab as sl

PROPERTY = 'C01'
LEVEL = 'exploration'
ANCHORS = [
    ('oslo_utils.imageutils.format_inspector', 'CaptureRegion.capture'),
    ('oslo_utils.imageutils.format_inspector', 'EndCaptureRegion.capture'),
    ('oslo_utils.imageutils.format_inspector', 'EndCaptureRegion.finish'),
    ('oslo_utils.imageutils.format_inspector', 'FileInspector.eat_chunk'),
    ('oslo_utils.imageutils.format_inspector', 'FileInspector._capture'),
    ('oslo_utils.imageutils.format_inspector', 'VHDXInspector.post_process'),
    ('oslo_utils.imageutils.format_inspector', 'VHDXInspector._find_meta_region'),
    ('oslo_utils.imageutils.format_inspector', 'VHDXInspector._find_meta_entry'),
    ('oslo_utils.imageutils.format_inspector', 'VMDKInspector.post_process'),
    ('oslo_utils.imageutils.format_inspector', 'VMDKInspector.region_complete'),
    ('oslo_utils.imageutils.format_inspector', 'VMDKInspector._parse_descriptor'),
    ('oslo_utils.imageutils.format_inspector', 'InspectWrapper._process_chunk'),
    ('oslo_utils.imageutils.format_inspector', 'FileInspector.safety_check'),
]
RULE = ('engine: every position-tagged stream of length n over a 3-symbol pointer alphabet x all 2^(n-1) chunkings '
        '(+ the same with empty chunks); real inspectors and InspectWrapper: generated images of ten formats '
        '(well-formed, field-mutated, truncated, extended, polyglot, unstructured) x schedule classes '
        '(giant, fixed sizes, single/pair cuts at +-1 of structure boundaries, byte windows, random, empty chunks, '
        'interleaved queries). non-trivial = stream carries a signature or structured header and the schedule has '
        '>= 2 chunks; distinct by (stream digest, schedule digest)')
REQUIRED_CLAUSES = ['under-debug-logging', 'L-large-second-chunk', 'O-carrier-and-options-invariance', 'W-short-read-source', 'I-instance-isolation', 'E-region-exactness-backward-pointers', 'R-region-exactness', 'V-verdict-invariance', 'Q-queries-pure', 'E-engine-slice-semantics',
                    'W-wrapper-verdict-invariance', 'actual-size']
ASSUMPTIONS = ['ground truth for regions is the presented stream itself (slice semantics)',
               'known findings F1 F3 are attributed by input-only predicates (vlib/known.py, imagegen.vhdx_backward)']
INTERPRETER_FLAGS = [[], ['-O'], ['-X', 'dev'], ['-bb']]
SHARDS = {'quick': 8, 'thorough': 16}
MIN_DISTINCT = {'quick': 2000, 'thorough': 20000}
LEVEL_TEXT = ('Exploration with exact oracles: region contents are compared with the stream slice after every chunk, '
              'verdicts of all schedules of one stream are compared with each other; the capture engine itself is '
              'enumerated completely for short streams (all chunkings).')
LEVEL_NOTE = ('Trusted: the stream the harness presents; the harness-defined engine inspector exercises forward '
              'pointers only. Streams satisfying a known-finding predicate are excused for verdict invariance of '
              'the affected inspector only, never for region exactness.')
TECHNIQUE = 'invariant at a hook (region == stream slice after every eat_chunk) + metamorphic history diff over chunk schedules'


# ----------------------------------------------------------------------
# E: engine
# ----------------------------------------------------------------------
_toy = None


def toy_class():
    global _toy
    if _toy is None:
        F = sl.fi()

        class Toy(F.FileInspector):
            NAME = 'toy'

            def _initialize(self):
                self.new_region('a', F.CaptureRegion(0, 2))
                self.new_region('b', F.CaptureRegion(3, 4))
                self.new_region('z', F.CaptureRegion(1, 0))
                self.new_region('far', F.CaptureRegion(40, 3))
                self.new_region('end', F.EndCaptureRegion(3))
                self.add_safety_check(F.SafetyCheck.null())

            def post_process(self):
                if self.region('a').complete and not self.has_region('d1'):
                    a = self.region('a').data
                    self.new_region('d1', F.CaptureRegion(2 + a[0], 1 + a[1]))
                elif (self.has_region('d1') and self.region('d1').complete and
                        not self.has_region('d2')):
                    d1 = self.region('d1')
                    self.new_region('d2', F.CaptureRegion(d1.offset + d1.length + d1.data[0], 1))

            @property
            def format_match(self):
                return True
        _toy = Toy
    return _toy


def toy_expected(stream):
    n = len(stream)
    r = {'a': stream[0:2], 'b': stream[3:7], 'z': b'', 'far': stream[40:43], 'end': stream[-3:] if n else b''}
    if len(r['a']) == 2:
        o1, l1 = 2 + stream[0], 1 + stream[1]
        r['d1'] = stream[o1:o1 + l1]
        if len(r['d1']) == l1:
            o2 = o1 + l1 + r['d1'][0]
            r['d2'] = stream[o2:o2 + 1]
    return r


def eval_engine(ctx, case):
    stream = bytes(case['stream'])
    cuts = case['cuts']
    with_empty = case.get('empty', False)
    Toy = toy_class()
    exp = toy_expected(stream)
    t = Toy()
    pos = 0
    bad = None
    chunks = sl.chunks_of(len(stream), cuts) if stream else []
    for a, b in chunks:
        if with_empty:
            t.eat_chunk(b'')
        t.eat_chunk(stream[a:b])
        pos = b
        for name in t.context_info:
            r = t.region(name)
            if r.data != stream[:pos][r.offset:r.offset + len(r.data)]:
                bad = bad or ('online', name, r.offset, r.data.hex(), pos)
    if with_empty:
        t.eat_chunk(b'')
    t.finish()
    got = {name: t.region(name).data for name in t.context_info}
    ctx.clause('E-engine-slice-semantics')
    complete_exp = all(len(exp[k]) == ln for k, ln in (('a', 2), ('b', 4), ('far', 3), ('end', 3))) and \
        'd1' in exp and len(exp['d1']) == 1 + stream[1] and 'd2' in exp and len(exp['d2']) == 1
    if bad:
        ctx.fail('E-region-exactness-online', case, {'bad': bad})
    elif got != exp:
        ctx.fail('E-engine-slice-semantics', case,
                 {'got': {k: v.hex() for k, v in got.items()}, 'want': {k: v.hex() for k, v in exp.items()}})
    elif bool(t.complete) != complete_exp:
        ctx.fail('E-engine-complete', case, {'complete': t.complete, 'want': complete_exp})


_chain = None


def chain_class():
    """Engine inspector with a configurable topology: static regions, an end region and a chain of dependent
    regions (each located by a forward pointer byte read from the previous one)."""
    global _chain
    if _chain is None:
        F = sl.fi()

        class Chain(F.FileInspector):
            NAME = 'chain'
            CONFIG = None

            def _initialize(self):
                cfg = self.CONFIG
                for i, (off, ln) in enumerate(cfg['static']):
                    self.new_region('s%d' % i, F.CaptureRegion(off, ln))
                if cfg['end']:
                    self.new_region('end', F.EndCaptureRegion(cfg['end']))
                self.new_region('p0', F.CaptureRegion(cfg['p0'][0], cfg['p0'][1]))
                self.add_safety_check(F.SafetyCheck.null())

            def post_process(self):
                depth = self.CONFIG['depth']
                for i in range(depth):
                    cur, nxt = 'p%d' % i, 'p%d' % (i + 1)
                    if self.has_region(cur) and self.region(cur).complete and not self.has_region(nxt):
                        r = self.region(cur)
                        if not r.data:
                            return
                        self.new_region(nxt, F.CaptureRegion(
                            max(0, r.offset + r.length + r.data[0] % 4 - self.CONFIG.get('back', 0)),
                            1 + r.data[-1] % 3))
                        return          # one region per call, like the VHDX inspector

            @property
            def format_match(self):
                return True
        _chain = Chain
    return _chain


def chain_expected(cfg, stream):
    n = len(stream)
    r = {}
    for i, (off, ln) in enumerate(cfg['static']):
        r['s%d' % i] = stream[off:off + ln]
    if cfg['end']:
        r['end'] = stream[-cfg['end']:] if n else b''
    off, ln = cfg['p0']
    r['p0'] = stream[off:off + ln]
    for i in range(cfg['depth']):
        cur = r['p%d' % i]
        if len(cur) != ln or not cur:
            break
        off, ln = off + ln + cur[0] % 4, 1 + cur[-1] % 3
        r['p%d' % (i + 1)] = stream[off:off + ln]
    return r


def eval_chain(ctx, case):
    cfg = case['config']
    stream = bytes(case['stream'])
    Chain = chain_class()
    Chain.CONFIG = cfg
    t = Chain()
    bad = None
    for a, b in (sl.chunks_of(len(stream), case['cuts']) if stream else []):
        if case.get('empty'):
            t.eat_chunk(b'')
        t.eat_chunk(stream[a:b])
        for name in t.context_info:
            r = t.region(name)
            if r.data != stream[:b][r.offset:r.offset + len(r.data)]:
                bad = bad or ('online', name, r.offset, r.data.hex(), b)
    t.finish()
    got = {name: t.region(name).data for name in t.context_info}
    if cfg.get('back'):
        # backward pointers: what such a region ends up holding depends on the chunking (it may stay empty),
        # but whatever it holds must be the stream's bytes at its offset
        ctx.clause('E-region-exactness-backward-pointers')
        for name in t.context_info:
            r = t.region(name)
            if r.data != stream[r.offset:r.offset + len(r.data)] or len(r.data) > r.length:
                bad = bad or ('final', name, r.offset, r.data.hex(), len(stream))
        if bad:
            ctx.fail('E-region-exactness-backward-pointers', case, {'bad': bad})
        return
    exp = chain_expected(cfg, stream)
    ctx.clause('E-engine-slice-semantics')
    if bad:
        ctx.fail('E-region-exactness-online', case, {'bad': bad})
    elif got != exp:
        ctx.fail('E-engine-slice-semantics', case,
                 {'got': {k: v.hex() for k, v in got.items()}, 'want': {k: v.hex() for k, v in exp.items()}})


def run_chain(ctx, idx0):
    rng = ctx.rng('engine-chain')
    idx = idx0
    nconf = ctx.pick(150, 1500)
    for c in range(nconf):
        cfg = {'static': [[rng.randrange(0, 9), rng.randrange(0, 4)] for _ in range(rng.randrange(0, 3))],
               'end': rng.choice([0, 1, 2, 3, 5]), 'p0': [rng.randrange(0, 3), rng.randrange(1, 3)],
               'depth': rng.randrange(1, 5)}
        if c % 4 == 3:
            cfg['back'] = rng.choice([2, 3, 5, 8])
        for s in range(ctx.pick(6, 20)):
            n = rng.randrange(2, ctx.pick(11, 13))
            stream = bytes(rng.randrange(0, 4) if rng.random() < 0.8 else rng.getrandbits(8) for _ in range(n))
            for cuts in sl.compositions(n):
                idx += 1
                if not ctx.mine(idx):
                    continue
                case = {'kind': 'chain', 'config': cfg, 'stream': stream, 'cuts': cuts, 'empty': bool(idx % 3 == 0)}
                ctx.case(('chain', repr(cfg), stream, tuple(cuts)), nontrivial=len(cuts) >= 1)
                if idx % 20000 == 1:
                    ctx.sample('engine-chain', case)
                eval_chain(ctx, case)
    ctx.exhaustive['engine: random region topologies (dependency depth <= 4) x all chunkings of streams of length <= %d' % ctx.pick(10, 12)] = True


def run_engine(ctx):
    nmax = ctx.pick(11, 15)
    idx = 0
    for n in range(0, nmax + 1):
        for p0, p1, p2 in itertools.product(range(3), repeat=3):
            stream = bytearray((i * 7 + 3) % 251 for i in range(n))
            if n > 0:
                stream[0] = p0
            if n > 1:
                stream[1] = p1
            if n > 2 + p0:
                stream[2 + p0] = p2
            stream = bytes(stream)
            for cuts in sl.compositions(n):
                idx += 1
                if not ctx.mine(idx):
                    continue
                for empty in (False, True):
                    case = {'kind': 'engine', 'stream': stream, 'cuts': cuts, 'empty': empty}
                    ctx.case(('engine', stream, tuple(cuts), empty), nontrivial=len(cuts) >= 1)
                    if idx % 5000 == 1:
                        ctx.sample('engine', case)
                    eval_engine(ctx, case)
    ctx.exhaustive['engine: all chunkings of position-tagged streams of length <= %d x 27 pointer values' % nmax] = True
    for n in range(0, 8):
        for tup in itertools.product(range(3), repeat=n):
            stream = bytes(tup)
            for cuts in sl.compositions(n):
                idx += 1
                if not ctx.mine(idx):
                    continue
                case = {'kind': 'engine', 'stream': stream, 'cuts': cuts, 'empty': False}
                ctx.case(('engine3', stream, tuple(cuts)), nontrivial=len(cuts) >= 1)
                eval_engine(ctx, case)
    ctx.exhaustive['engine: all streams over {0,1,2} of length <= 7 x all chunkings'] = True
    # a long-stream family so that the 'far' region and pointers further away are exercised
    rng = ctx.rng('engine-long')
    for i in range(ctx.pick(3000, 60000)):
        idx += 1
        n = rng.randrange(8, 60)
        stream = bytearray(rng.randrange(0, 6) if rng.random() < 0.7 else rng.getrandbits(8) for _ in range(n))
        cuts = sorted(rng.sample(range(1, n), rng.randrange(0, min(n - 1, 12) + 1)))
        if not ctx.mine(idx):
            continue
        case = {'kind': 'engine', 'stream': bytes(stream), 'cuts': cuts, 'empty': rng.random() < 0.3}
        ctx.case(('engine-long', bytes(stream), tuple(cuts)), nontrivial=len(cuts) >= 1)
        eval_engine(ctx, case)


# ----------------------------------------------------------------------
# real inspectors / wrapper
# ----------------------------------------------------------------------
def known_for_inspector(name, data):
    """Which listed finding (if any) excuses schedule dependence of inspector `name` on this stream."""
    if name == 'vmdk':
        if known.f1_text_vmdk(data):
            return 'F1'
        if known.f3_short_footer_vmdk(data):
            return 'F3'
    return None


def first_cut(cuts, empties=()):
    return cuts[0] if cuts else None


def eval_stream(ctx, case):
    """case: {'kind':'stream', 'spec':..., 'inspectors':[names], 'schedules':[[class,cuts,empties,queries],...],
    'wrapper': bool}"""
    F = sl.fi()
    if 'data' in case:
        data = bytes(case['data'])
    else:
        data, _truth = ig.build(case['spec'])
    n = len(data)
    sig_present = bool(ig.sigs(data)) or case.get('structured', False)
    for name in case['inspectors']:
        cls = F.ALL_FORMATS[name]
        ref = None
        for sched in case['schedules']:
            klass, cuts, empties, queries = sched[:4]
            opt = sched[4] if len(sched) > 4 else {}
            if opt.get('wrapper_only'):
                continue
            res = sl.feed(cls, data, cuts, empties=empties, queries=queries, carrier=opt.get('carrier', 'bytes'),
                          ctor_kw={'tracing': True} if opt.get('tracing') else None, clone_at=opt.get('clone_at'))
            if opt:
                ctx.clause('O-carrier-and-options-invariance')
            ctx.case((name, data, tuple(cuts), tuple(empties), queries, tuple(sorted(opt.items()))),
                     nontrivial=sig_present and len(cuts) >= 1)
            ctx.h('inspector x schedule class', '%s/%s' % (name, klass.split('-')[0]))
            ctx.clause('R-region-exactness', res['monitor'].evals)
            ctx.clause('actual-size')
            if res['monitor'].bad:
                ctx.fail('R-region-exactness', dict(case, failing=[name, klass, cuts, empties]),
                         {'inspector': name, 'bad': res['monitor'].bad})
            if res['actual_size'] != n:
                ctx.fail('actual-size', dict(case, failing=[name, klass, cuts]), {'got': res['actual_size'], 'want': n})
            v = res['verdict']
            if ref is None:
                ref = (klass, cuts, empties, queries, v)
                continue
            if queries:
                ctx.clause('Q-queries-pure')
            ctx.clause('V-verdict-invariance')
            if v != ref[4]:
                ctx.fail('O-carrier-and-options-invariance' if opt else
                         'V-verdict-invariance' if not queries else 'Q-queries-pure',
                         dict(case, failing=[name, [ref[0], ref[1], ref[2], ref[3]], [klass, cuts, empties, queries, opt]]),
                         {'inspector': name, 'schedule_a': ref[0], 'verdict_a': ref[4],
                          'schedule_b': klass, 'verdict_b': v, 'cuts_b': cuts[:8]},
                         known=known_for_inspector(name, data))
    if case.get('wrapper'):
        ref = None
        for sched in case['schedules']:
            klass, cuts, empties, queries = sched[:4]
            opt = sched[4] if len(sched) > 4 else {}
            if opt and not opt.get('wrapper_only'):
                continue
            res = sl.feed_wrapper(data, cuts, queries=queries, empties=empties, short_reads=opt.get('short_reads'),
                                  source_faults=opt.get('source_faults') or (), carrier=opt.get('source_carrier', 'bytes'))
            if opt.get('short_reads'):
                ctx.clause('W-short-read-source')
            ctx.case(('wrapper', data, tuple(cuts), tuple(empties), queries, tuple(sorted(opt.items()))),
                     nontrivial=sig_present and len(cuts) >= 1)
            ctx.h('inspector x schedule class', 'wrapper/%s' % klass.split('-')[0])
            for nm, mon in res['monitors'].items():
                ctx.clause('R-region-exactness', mon.evals)
                if mon.bad:
                    ctx.fail('R-region-exactness', dict(case, failing=['wrapper:' + nm, klass, cuts]),
                             {'inspector': nm, 'bad': mon.bad, 'via': 'wrapper'})
            if res['exc'] is not None:
                ctx.fail('W-wrapper-raised', dict(case, failing=[klass, cuts]), {'exc': res['exc']})
            if res['out'] != data:
                ctx.fail('W-wrapper-bytes', dict(case, failing=[klass, cuts]), {'len_out': len(res['out'])})
            per = {}
            for i in res['wrapper']._inspectors:
                per[i.NAME] = sl.verdict(i)
            v = (res['final'], tuple(res['formats']) if isinstance(res['formats'], list) else res['formats'],
                 res['selected'])
            if ref is None:
                ref = (klass, cuts, v, per)
                continue
            ctx.clause('W-wrapper-verdict-invariance')
            if v != ref[2] or per != ref[3]:
                differing = sorted(k for k in per if per[k] != ref[3].get(k))
                kn = None
                if differing:
                    ks = []
                    for nm in differing:
                        ks.append(known_for_inspector(nm, data))
                    if all(ks):
                        kn = ks[0]
                ctx.fail('W-wrapper-verdict-invariance',
                         dict(case, failing=[[ref[0], ref[1]], [klass, cuts]]),
                         {'schedule_a': ref[0], 'verdict_a': ref[2], 'schedule_b': klass, 'verdict_b': v,
                          'inspectors_differing': {k: [ref[3].get(k), per[k]] for k in differing}},
                         known=kn)


def eval_isolation(ctx, case):
    """Two inspectors of one class alive at the same time and fed alternately: each one's verdict is the verdict of
    its own bytes (what an inspector concludes is a function of the bytes it was shown, not of other instances)."""
    F = sl.fi()
    da, _ta = ig.build(case['spec_a'])
    db, _tb = ig.build(case['spec_b'])
    cls = F.ALL_FORMATS[case['inspector']]
    alone_a = sl.feed(cls, da, [], monitor=False)['verdict']
    alone_b = sl.feed(cls, db, [], monitor=False)['verdict']
    a, b = cls(), cls()
    size = case['chunk']
    raised = {}
    for off in range(0, max(len(da), len(db)), size):
        for insp, data, tag in ((a, da, 'a'), (b, db, 'b')):
            if off < len(data):
                try:
                    insp.eat_chunk(data[off:off + size])
                except BaseException as e:  # noqa
                    raised.setdefault(tag, type(e).__name__)
    for insp in (a, b):
        insp.finish()
    vb = ('raised', raised['b']) if 'b' in raised else sl.verdict(b)
    va = ('raised', raised['a']) if 'a' in raised else sl.verdict(a)
    ctx.case(('isolation', case['inspector'], da, db, size))
    ctx.clause('I-instance-isolation')
    kn = known_for_inspector(case['inspector'], da) or known_for_inspector(case['inspector'], db)
    if va != alone_a or vb != alone_b:
        ctx.fail('I-instance-isolation', case, {'alone': [alone_a, alone_b], 'interleaved': [va, vb]}, known=kn)


def evaluate(ctx, case):
    if case['kind'] == 'isolation':
        return eval_isolation(ctx, case)
    if case['kind'] == 'engine':
        eval_engine(ctx, case)
    elif case['kind'] == 'chain':
        eval_chain(ctx, case)
    else:
        eval_stream(ctx, case)


def make_schedules(rng, n, bounds, count, max_chunks=70000):
    scheds = []
    for klass, cuts in sl.schedules(rng, n, bounds, count, max_chunks=max_chunks):
        scheds.append([klass, cuts, [], False])
    # variants: empty chunks, interleaved queries
    extra = []
    for klass, cuts, _e, _q in rng.sample(scheds, min(len(scheds), max(2, count // 3))):
        nchunks = len(cuts) + 1
        if nchunks <= 2000:
            empties = sorted(rng.sample(range(nchunks), rng.randrange(1, min(nchunks, 4) + 1)))
            extra.append([klass + '+empty', cuts, empties, False])
    for klass, cuts, _e, _q in rng.sample(scheds, min(len(scheds), max(2, count // 3))):
        if len(cuts) <= 300:
            extra.append([klass + '+queries', cuts, [], True])
    # variants: how the chunk object is carried (one reused bytearray / memoryview slices of one buffer, overwritten after
    # every eat_chunk), an inspector constructed with tracing=True, a source that returns short reads through the wrapper
    for klass, cuts, _e, _q in rng.sample(scheds, min(len(scheds), max(3, count // 3))):
        if len(cuts) <= 3000:
            extra.append([klass + '+' + 'bytearray', cuts, [], False, {'carrier': 'bytearray'}])
            extra.append([klass + '+' + 'memoryview', cuts, [], False, {'carrier': 'memoryview'}])
    for klass, cuts, _e, _q in rng.sample(scheds, min(len(scheds), 2)):
        if len(cuts) <= 3000:
            extra.append([klass + '+tracing', cuts, [], False, {'tracing': True}])
            extra.append([klass + '+deepcopy', cuts, [], False, {'clone_at': rng.choice([0, len(cuts) // 2, len(cuts)])}])
    for klass, cuts, _e, _q in rng.sample(scheds, min(len(scheds), max(2, count // 4))):
        if 1 <= len(cuts) <= 3000:
            extra.append([klass + '+shortreads', cuts, [], False, {'wrapper_only': True, 'short_reads': True}])
            extra.append([klass + '+source-buffer-reused', cuts, [], False,
                          {'wrapper_only': True, 'source_carrier': rng.choice(['bytearray', 'memoryview'])}])
            extra.append([klass + '+source-error-retry', cuts, [], False,
                          {'wrapper_only': True, 'source_faults': [rng.choice([1, 1, 2, rng.randrange(1, len(cuts) + 2)])]}])
    return scheds + extra



MINIMAL = [
    {'gen': 'qcow2', 'params': {'total': 512}}, {'gen': 'qcow2', 'params': {'total': 700, 'version': 2}},
    {'gen': 'qcow2', 'params': {'total': 600, 'version': 3, 'exts': [[0x44415441, 5], [0x6803F857, 48], [0xE2792ACA, 5]]}},
    {'gen': 'vhd', 'params': {'total': 512}}, {'gen': 'vdi', 'params': {'total': 512}}, {'gen': 'qed', 'params': {'total': 512}},
    {'gen': 'gpt', 'params': {'total': 512}}, {'gen': 'mbr', 'params': {'total': 600}},
    {'gen': 'luks', 'params': {'payload': 1, 'total': 700}},
    {'gen': 'vmdk', 'params': {'desc_num': 1, 'min_total': 0, 'extents': ['RW 1 SPARSE "d"']}},
    {'gen': 'vmdk', 'params': {'desc_num': 1, 'min_total': 0, 'footer': True, 'extents': ['RW 1 SPARSE "d"']}},
    {'gen': 'vmdk', 'params': {'desc_num': 2, 'min_total': 0, 'footer': True}},
    {'gen': 'vmdk', 'params': {'desc_num': 1, 'min_total': 0, 'footer': True, 'footer_pert': 'fver', 'extents': ['RW 1 SPARSE "d"']}},
    {'gen': 'vmdk', 'params': {'desc_num': 1, 'min_total': 0, 'ver': 7, 'extents': ['RW 1 SPARSE "d"']}},
    # bytes 64..511 of the header sector are not documented fields: whatever they hold, the verdict cannot depend on how
    # much of that sector the chunk that completes the 64-byte header happened to bring along
    {'gen': 'vmdk', 'params': {'desc_num': 1, 'min_total': 0, 'hdr_filler_seed': 11, 'extents': ['RW 1 SPARSE "d"']}},
    {'gen': 'vmdk', 'params': {'desc_num': 1, 'min_total': 0, 'hdr_filler_seed': 12, 'footer': True, 'extents': ['RW 1 SPARSE "d"']}},
    {'gen': 'raw', 'params': {'kind': 'random', 'total': 900, 'seed': 3}},
]


def run_every_cut(ctx, idx0):
    """Small images x EVERY single cut position (and every cut position followed by an empty chunk), per inspector and
    through the wrapper: the 'every cut' end of the schedule quantifier, exhaustive for streams of a few hundred bytes."""
    idx = idx0
    F = sl.fi()
    specs = list(MINIMAL)
    if not ctx.quick:
        specs.append({'gen': 'iso', 'params': {'total': 34816}})
        specs.append({'gen': 'vmdk', 'params': {'desc_num': 3, 'min_total': 4096, 'footer': True}})
    for spec in specs:
        data, truth = ig.build(spec)
        n = len(data)
        name = ig.INSPECTOR_OF[spec['gen']]
        step = 1 if (n <= 3000 or not ctx.quick) else 7
        positions = list(range(1, n, step))
        block = 64
        for b0 in range(0, len(positions), block):
            idx += 1
            if not ctx.mine(idx):
                continue
            cuts_block = positions[b0:b0 + block]
            scheds = [['giant', [], [], False]] + [['every-cut', [c], [], False] for c in cuts_block]
            scheds += [['every-cut+empty', [c], [1], False] for c in cuts_block[::4]]
            scheds += [['every-cut+bytearray', [c], [], False, {'carrier': 'bytearray'}] for c in cuts_block[1::4]]
            scheds += [['every-cut+memoryview', [c], [], False, {'carrier': 'memoryview'}] for c in cuts_block[2::4]]
            scheds += [['every-cut+shortreads', [c], [], False, {'wrapper_only': True, 'short_reads': True}]
                       for c in cuts_block[3::4]]
            case = {'kind': 'stream', 'spec': spec, 'inspectors': [name], 'schedules': scheds,
                    'wrapper': n <= 3000, 'structured': True}
            ctx.h('format x stream class', '%s/every-cut' % spec['gen'])
            eval_stream(ctx, case)
    ctx.exhaustive['every single cut position of the minimal image of each format (%d layouts)' % len(specs)] = True
    return idx

CANARIES = [
    # F1: text descriptor; a path-naming extent after the first 512 bytes
    ('F1', {'gen': 'vmdk_text', 'params': {'extra': [['# ' + 'x' * 70, True]] * 8 + [['RW 2048 FLAT "/etc/passwd" 0', False]]}},
     ['vmdk'], [['giant', [], [], False], ['fixed-1', 'ALL1', [], False], ['fixed-512', 'F512', [], False]], False),
    # formerly F2 (repaired): backward pointers - metadata region inside the headers, item inside the entry table
    ('-', {'gen': 'vhdx', 'params': {'meta_off': 200 * 1024, 'item_off': 0x10000, 'size': 12345678}},
     ['vhdx'], [['giant', [], [], False], ['fixed-4096', 'F4096', [], False], ['fixed-65536', 'F65536', [], False]], True),
    ('-', {'gen': 'vhdx', 'params': {'meta_off': 256 * 1024, 'item_off': 40, 'n_pad_meta': 3, 'size': 12345678}},
     ['vhdx'], [['giant', [], [], False], ['fixed-17', 'F17', [], False], ['fixed-4096', 'F4096', [], False]], True),
    ('-', {'gen': 'vhdx', 'params': {'meta_off': 256 * 1024, 'item_off': 40, 'n_pad_meta': 3, 'size': 77, 'tail': 200000}},
     ['vhdx'], [['giant', [], [], False], ['fixed-512', 'F512', [], False], ['fixed-65536', 'F65536', [], False]], True),
    # D13: invalid metadata signature, enough stream behind it for a large read to fill the whole region
    ('-', {'gen': 'vhdx', 'params': {'meta_off': 256 * 1024, 'meta_sig': 'metadatx', 'tail': 200000}},
     ['vhdx'], [['giant', [], [], False], ['fixed-512', 'F512', [], False], ['fixed-4096', 'F4096', [], False]], True),
    ('-', {'gen': 'vhdx', 'params': {'meta_off': 1024 * 1024, 'meta_sig': 'Metadata', 'tail': 70000}},
     ['vhdx'], [['giant', [], [], False], ['fixed-65536', 'F65536', [], False], ['fixed-17', 'F17', [], False]], True),
    ('-', {'gen': 'vhdx', 'params': {'meta_off': 100, 'item_off': 0x10000, 'size': 5}},
     ['vhdx'], [['giant', [], [], False], ['fixed-512', 'F512', [], False]], True),
    # F3: footer announced on a stream of 1536..1598 bytes
    ('F3', {'gen': 'vmdk', 'params': {'footer': True, 'desc_num': 1, 'min_total': 0, 'total': 1560}},
     ['vmdk'], [['giant', [], [], False], ['fixed-1', 'ALL1', [], False]], False),
]


def expand(cuts, n):
    if cuts == 'ALL1':
        return list(range(1, n))
    if isinstance(cuts, str) and cuts.startswith('F'):
        return sl.fixed(n, int(cuts[1:]))
    return cuts


def run_large_chunks(ctx, idx0):
    """Multi-megabyte streams cut once INSIDE a captured structure, the rest (more than 4 MiB) in one read - what a
    consumer with large reads (mmap, object-store ranges) presents - against the same bytes in one piece and in 64 KiB reads."""
    idx = idx0
    big = 5 * 1024 * 1024 + 333
    specs = [({'gen': 'qcow2', 'params': {'total': big, 'version': 3}}, [16, 100, 300, 511]),
             ({'gen': 'vhd', 'params': {'total': big}}, [8, 44, 300]), ({'gen': 'vdi', 'params': {'total': big}}, [0x44, 0x174, 400]),
             ({'gen': 'luks', 'params': {'payload': 8, 'total': big}}, [6, 106, 300]),
             ({'gen': 'gpt', 'params': {'total': big}}, [446, 500, 511]),
             ({'gen': 'iso', 'params': {'total': big}}, [32768 + 3, 32768 + 100, 32768 + 1000]),
             ({'gen': 'vmdk', 'params': {'desc_num': 4, 'min_total': big}}, [30, 64, 600, 2000]),
             ({'gen': 'vmdk', 'params': {'desc_num': 4, 'min_total': big, 'footer': True}}, [30, 600]),
             ({'gen': 'vhdx', 'params': {'meta_off': 1024 * 1024, 'tail': big}}, [10, 65536 + 100, 196608 + 40, 1024 * 1024 + 20,
                                                                                    1024 * 1024 + 65536 + 4])]
    for spec, cuts in specs:
        idx += 1
        if not ctx.mine(idx):
            continue
        data, _truth = ig.build(spec)
        n = len(data)
        scheds = [['giant', [], [], False], ['fixed-65536', sl.fixed(n, 65536), [], False]]
        for c in cuts:
            scheds.append(['cut-inside-structure-then-over-4MiB', [c], [], False])
            scheds.append(['cut-inside-structure-then-over-4MiB+bytearray', [c], [], False, {'carrier': 'bytearray'}])
        scheds.append(['two-cuts-then-over-4MiB', [cuts[0], cuts[-1]], [], False])
        ctx.clause('L-large-second-chunk')
        ctx.h('format x stream class', '%s/large-chunks' % spec['gen'])
        eval_stream(ctx, {'kind': 'stream', 'spec': spec, 'inspectors': [ig.INSPECTOR_OF[spec['gen']]], 'schedules': scheds,
                          'wrapper': True, 'structured': True})
    return idx


def run(ctx):
    run_engine(ctx)
    run_chain(ctx, 10 ** 9)
    run_every_cut(ctx, 2 * 10 ** 9)
    run_large_chunks(ctx, 3 * 10 ** 9)
    if ctx.shard == 0:
        for fid, spec, insps, scheds, wrap in CANARIES:
            data, _t = ig.build(spec)
            case = {'kind': 'stream', 'spec': spec, 'inspectors': insps, 'wrapper': wrap, 'structured': True,
                    'schedules': [[k, expand(c, len(data)), e, q] for k, c, e, q in scheds]}
            eval_stream(ctx, case)
        # formerly K11 (repaired): bad-version KDMV through the wrapper, first read 50 vs 64 bytes must agree
        body = b'=\ncreateType="streamOptimized"\nRW 1 SPARSE "x"\n'
        data = (b'KDMV' + b'\x01\x01\x01\x01' + body).ljust(2048, b'\n')
        eval_stream(ctx, {'kind': 'stream', 'data': data, 'inspectors': [], 'wrapper': True, 'structured': True,
                          'schedules': [['first-64', [64], [], False], ['first-50', [50], [], False]]})
    rng_i = ctx.rng('isolation')
    for i in range(ctx.pick(500, 8000)):
        fmt = rng_i.choice(ic.FORMATS)
        sa, sb = ic.wellformed(rng_i, fmt), ic.wellformed(rng_i, fmt)
        if rng_i.random() < 0.6:
            d0, t0 = ig.build(sa)
            sa = ic.mutated(rng_i, sa, len(d0), t0)
        if ctx.mine(10 ** 8 + i):
            eval_isolation(ctx, {'kind': 'isolation', 'inspector': ig.INSPECTOR_OF[fmt], 'spec_a': sa, 'spec_b': sb,
                                 'chunk': rng_i.choice([64, 512, 4096, 1 << 20])})
    rng = ctx.rng('streams')
    nstreams = ctx.pick(900, 8000)
    nsched = ctx.pick(8, 20)
    idx = 0
    for i in range(nstreams):
        idx += 1
        k = rng.random()
        fmt = rng.choice(ic.FORMATS)
        if k < 0.12:
            spec = ic.unstructured(rng)
        elif k > 0.97:
            spec = ic.vhdx_backward(rng)
        elif k > 0.94:
            spec = ic.vhdx_corrupt(rng)
        else:
            spec = ic.wellformed(rng, fmt, small=ctx.quick or rng.random() < 0.8)
        seed_for_case = rng.getrandbits(48)
        if not ctx.mine(idx):
            continue
        crng = ctx.rng('case-%d' % seed_for_case)
        data, truth = ig.build(spec)
        klass = 'wellformed'
        if 0.12 <= k < 0.62:
            spec = ic.mutated(crng, spec, len(data), truth)
            klass = 'mutated:' + spec['mut'][-1][0]
            data, truth = ig.build(spec)
        elif k < 0.12:
            klass = 'unstructured'
        scheds = make_schedules(crng, len(data), truth['bounds'], nsched, max_chunks=ctx.pick(3000, 20000))
        primary = ig.INSPECTOR_OF[spec['gen']]
        insps = [primary]
        other = crng.choice(sorted(sl.fi().ALL_FORMATS))
        if other not in insps and crng.random() < 0.5:
            insps.append(other)
        case = {'kind': 'stream', 'spec': spec, 'inspectors': insps, 'schedules': scheds,
                'wrapper': crng.random() < (0.45 if k <= 0.94 else 0.9), 'structured': spec['gen'] != 'raw'}
        ctx.h('format x stream class', '%s/%s' % (spec['gen'], klass))
        ctx.sample('stream/%s' % spec['gen'], {'spec': spec, 'inspectors': insps,
                                                'schedule_classes': [s[0] for s in scheds]})
        eval_stream(ctx, case)


# a third of the cases runs with the library's loggers at DEBUG and a handler that renders every record (debug=True in a
# service's configuration); what the inspectors conclude may not depend on it
from vlib import envmodes as _envmodes_dbg  # noqa: E402
eval_stream = _envmodes_dbg.with_modes(eval_stream, debug=lambda case: True)
