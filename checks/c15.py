"""C15 EUI-64, host:port and URL helpers round-trip.

Three constructive monitors over oslo_utils.netutils:

* EUI-64: prefix (address int, length, spelling) and MAC (48-bit int, spelling)
  are generated as components, so the expected address is plain integer bit
  arithmetic (masked network | modified EUI-64); the inverse must give the MAC
  back.  IPv4 addresses / malformed prefixes / malformed MACs must raise
  ValueError or TypeError and nothing else.
* host:port: parse_host_port(escape_ipv6(host) + ':' + port) == (host, port)
  for generated names, IPv4, IPv6 with and without scope; absent port gives the
  default.
* urlsplit against urllib.parse.urlsplit on URLs composed from components, and
  params() against the generator's own (name, value) pairs.
"""
import ipaddress
import itertools
from urllib import parse as stdparse

PROPERTY = 'C15'
LEVEL = 'exploration'
ANCHORS = [('oslo_utils.netutils', 'parse_host_port'),
           ('oslo_utils.netutils', 'escape_ipv6'),
           ('oslo_utils.netutils', 'get_ipv6_addr_by_EUI64'),
           ('oslo_utils.netutils', 'get_mac_addr_by_ipv6'),
           ('oslo_utils.netutils', 'urlsplit'),
           ('oslo_utils.netutils', '_ModifiedSplitResult.params')]
RULE = ('EUI-64: literal vectors, then boundary MACs (0, all ones, U/L bit, every single bit and its '
        'complement, ff:fe look-alikes) x directed prefixes x spellings, then seeded (address, length, '
        'host-bits, MAC) draws with quotas per prefix-length class; rejection classes composed by breaking '
        'one component. host:port: directed + seeded hosts of four families x port ends exhaustively '
        '(whole range in thorough) x default-port modes. URLs: grid scheme x netloc x path x query x '
        'fragment x allow_fragments x default scheme, then seeded compositions with generated query pairs. '
        'non-trivial = every EUI/host:port case; a URL with a query, a fragment, userinfo, a port or an '
        'IPv6 literal. distinct by the rendered input text plus call arguments')
REQUIRED_CLAUSES = ['equal-valued-arguments-in-any-order', 'under-warnings-as-errors', 'eui64-result-owned-by-caller', 'under-lazy-translation', 'documented-keyword-call', 'eui64-forward', 'eui64-inverse', 'eui64-inverse-constructed', 'eui64-literal-vector',
                    'eui64-must-raise-ipv4-prefix', 'eui64-must-raise-malformed-prefix',
                    'eui64-must-raise-malformed-mac', 'eui64-dont-care-no-unexpected-exception',
                    'hostport-roundtrip', 'hostport-default-port', 'hostport-documented-forms',
                    'urlsplit-fields', 'urlsplit-netloc-attrs', 'params-last', 'params-all']
ASSUMPTIONS = ['expected EUI-64 address = (address & prefix mask) | ((mac[0:3] ^ 0x020000) << 40 | 0xfffe << 24 | '
               'mac[3:6]) on Python ints; asserted only where the masked network has zero low 64 bits',
               'MAC spellings colon/hyphen in either letter case are MUST-ACCEPT; Cisco dotted and bare 12-hex '
               'spellings are "if accepted then the value must be right"; other lenient netaddr spellings, IPv4 '
               'networks, prefixes longer than /64 with non-zero low bits are DONT-CARE (ValueError/TypeError or '
               'any result)',
               'scope ids are 1..15 characters from [A-Za-z0-9._-] (what escape_ipv6 recognises as IPv6)',
               'urllib.parse.urlsplit / parse_qsl of the running interpreter are the reference for URL fields; '
               'params() is compared with the generator\'s own decoded pairs where no pair has a blank value '
               '(parse_qsl drops those: DONT-CARE) and the query is not polluted by a kept fragment',
               'only str URLs; bytes URLs are outside the quantifier']
INTERPRETER_FLAGS = [[], ['-O'], ['-X', 'dev'], ['-bb']]
SHARDS = {'quick': 4, 'thorough': 16}

M64 = (1 << 64) - 1
M128 = (1 << 128) - 1
M48 = (1 << 48) - 1
OK_EXC = (ValueError, TypeError)

MAC_STYLES_MUST = ['colon-lower', 'colon-upper', 'hyphen-lower', 'hyphen-upper']
MAC_STYLES_ALT = ['cisco', 'bare', 'unix', 'unix-hyphen', 'pgsql', 'bare-upper']      # (other dialects netaddr reads)
V6_STYLES = ['compressed', 'exploded', 'upper', 'short']


# ----------------------------------------------------------------------
# reference arithmetic and renderers (no netaddr here)
# ----------------------------------------------------------------------
def eui64_of(mac):
    """Modified EUI-64 interface identifier of a 48-bit MAC (RFC 4291 app. A)."""
    return ((((mac >> 24) & 0xffffff) ^ 0x020000) << 40) | (0xfffe << 24) | (mac & 0xffffff)


def network_of(addr, plen):
    if plen is None:
        plen = 128
    mask = (M128 >> (128 - plen)) << (128 - plen) if plen else 0
    return addr & mask


def render_mac(mac, style):
    o = [(mac >> (8 * (5 - i))) & 0xff for i in range(6)]
    if style == 'colon-lower':
        return ':'.join('%02x' % b for b in o)
    if style == 'colon-upper':
        return ':'.join('%02X' % b for b in o)
    if style == 'hyphen-lower':
        return '-'.join('%02x' % b for b in o)
    if style == 'hyphen-upper':
        return '-'.join('%02X' % b for b in o)
    if style == 'cisco':
        return '%04x.%04x.%04x' % (mac >> 32, (mac >> 16) & 0xffff, mac & 0xffff)
    if style == 'bare':
        return '%012x' % mac
    if style == 'bare-upper':
        return '%012X' % mac
    if style == 'unix':             # netaddr.mac_unix: octets without zero padding
        return ':'.join('%x' % b for b in o)
    if style == 'unix-hyphen':
        return '-'.join('%x' % b for b in o)
    if style == 'pgsql':
        return '%06x:%06x' % (mac >> 24, mac & 0xffffff)
    raise AssertionError(style)


def render_v6(addr, style):
    g = [(addr >> (16 * (7 - i))) & 0xffff for i in range(8)]
    if style == 'exploded':
        return ':'.join('%04x' % x for x in g)
    if style == 'short':
        return ':'.join('%x' % x for x in g)
    c = ipaddress.IPv6Address(addr).compressed
    return c.upper() if style == 'upper' else c


def render_prefix(addr, plen, style):
    return render_v6(addr, style) + ('' if plen is None else '/%d' % plen)


def plen_class(plen, net):
    if plen is None:
        return 'bare-address'
    if plen == 0:
        return '/0'
    if plen < 64:
        return '/1../63'
    if plen == 64:
        return '/64'
    if plen == 128:
        return '/128'
    return '/65../127'


def mac_class(mac):
    if mac == 0:
        return 'all-zero'
    if mac == M48:
        return 'all-ones'
    if mac == 1 << 41:
        return 'only-U/L-bit'
    if mac & (mac - 1) == 0:
        return 'single-bit'
    inv = mac ^ M48
    if inv & (inv - 1) == 0:
        return 'single-zero-bit'
    if (mac >> 16) & 0xffff == 0xfffe or (mac >> 24) & 0xffff == 0xfffe or (mac >> 8) & 0xffff == 0xfffe:
        return 'fffe-lookalike'
    return 'general'


SAFE = 'ABCDEFGHIJKLMNOPQRSTUVWXYZabcdefghijklmnopqrstuvwxyz0123456789-_.~'


def enc_component(text, rng):
    """Percent-encode one query name/value (own encoder: '+'/%20 for space)."""
    out = []
    for ch in text:
        if ch in SAFE:
            if rng.random() < 0.04:
                out.append(('%%%02X' if rng.random() < 0.5 else '%%%02x') % ord(ch))
            else:
                out.append(ch)
        elif ch == ' ':
            out.append('+' if rng.random() < 0.5 else '%20')
        else:
            up = rng.random() < 0.5
            out.append(''.join(('%%%02X' if up else '%%%02x') % b for b in ch.encode('utf-8')))
    return ''.join(out)


def compose_url(case):
    url = case['scheme'] + ':' if case['scheme'] else ''
    if case['netloc'] is not None:
        url += '//' + case['netloc']
    url += case['path']
    if case['query'] is not None:
        url += '?' + case['query']
    if case['frag'] is not None:
        url += '#' + case['frag']
    return url


def _attr(obj, name):
    try:
        return ('value', getattr(obj, name))
    except BaseException as e:  # noqa
        return ('raises', type(e).__name__)


# ----------------------------------------------------------------------
# evaluate
# ----------------------------------------------------------------------
def _call_eui(prefix, mac):
    from oslo_utils import netutils
    from vlib import callstyle
    netutils = callstyle.proxy(netutils)
    try:
        return netutils.get_ipv6_addr_by_EUI64(prefix, mac), None
    except BaseException as e:  # noqa
        return None, e


def _check_inverse(ctx, case, clause, ipobj, mac):
    from oslo_utils import netutils
    from vlib import callstyle
    netutils = callstyle.proxy(netutils)
    ctx.clause(clause)
    try:
        back = netutils.get_mac_addr_by_ipv6(ipobj)
        back_int = int(back)
    except BaseException as e:  # noqa
        ctx.fail(clause, case, {'ipv6': str(ipobj), 'exc': e, 'want_mac': '%012x' % mac})
        return
    if back_int != mac:
        ctx.fail(clause, case, {'ipv6': str(ipobj), 'got_mac': str(back), 'got_int': back_int,
                                'want_mac': render_mac(mac, 'colon-lower')})


def eval_eui(ctx, case):
    addr, plen, pstyle, mac, mstyle = (case[k] for k in ('addr', 'plen', 'pstyle', 'mac', 'mstyle'))
    prefix = render_prefix(addr, plen, pstyle)
    mactxt = render_mac(mac, mstyle)
    net = network_of(addr, plen)
    must = (net & M64) == 0
    alt = mstyle in MAC_STYLES_ALT
    ctx.case(('eui', prefix, mactxt))
    pc = plen_class(plen, net)
    ctx.h('eui64 prefix class', '%s %s%s' % (pc, 'host-bits' if net != addr else 'network-address',
                                             '' if must else ' low64-nonzero(DONT-CARE)'))
    ctx.h('eui64 mac class', mac_class(mac))
    ctx.h('eui64 spelling', '%s / %s' % (pstyle, mstyle))
    got, exc = _call_eui(prefix, mactxt)
    if not must:
        ctx.clause('eui64-dont-care-no-unexpected-exception')
        if exc is not None and not isinstance(exc, OK_EXC):
            ctx.fail('eui64-unexpected-exception', case, {'prefix': prefix, 'mac': mactxt, 'exc': exc})
        return
    if alt and exc is not None:
        ctx.clause('eui64-alt-spelling-rejected')
        if not isinstance(exc, OK_EXC):
            ctx.fail('eui64-unexpected-exception', case, {'prefix': prefix, 'mac': mactxt, 'exc': exc})
        return
    clause = 'eui64-forward-alt-spelling' if alt else 'eui64-forward'
    ctx.clause(clause)
    if exc is not None:
        ctx.fail(clause, case, {'prefix': prefix, 'mac': mactxt, 'exc': exc})
        return
    want = net | eui64_of(mac)
    try:
        got_int = int(got)
    except BaseException as e:  # noqa
        ctx.fail(clause, case, {'prefix': prefix, 'mac': mactxt, 'got': got, 'exc': e})
        return
    if got_int != want:
        ctx.fail(clause, case, {'prefix': prefix, 'mac': mactxt, 'got': str(got),
                                'want': ipaddress.IPv6Address(want).compressed})
    _check_inverse(ctx, case, 'eui64-inverse', got, mac)
    # the caller owns the result: changing it in place (netaddr addresses allow += and .value = ) does not change what
    # the next call with the same arguments returns
    if got_int == want and want % 3 == 0:
        ctx.clause('eui64-result-owned-by-caller')
        try:
            got += 1
            got.value = 0
        except BaseException:  # noqa  (an immutable result is fine as well)
            pass
        again, exc2 = _call_eui(prefix, mactxt)
        try:
            again_int = int(again) if exc2 is None else None
        except BaseException:  # noqa
            again_int = None
        if again_int != want:
            ctx.fail('eui64-result-owned-by-caller', case,
                     {'prefix': prefix, 'mac': mactxt, 'second_call': str(again), 'exc': exc2,
                      'want': ipaddress.IPv6Address(want).compressed})


def eval_eui_inv(ctx, case):
    import netaddr
    upper, mac = case['upper'], case['mac']
    addr = ((upper & M64) << 64) | eui64_of(mac)
    ctx.case(('eui-inv', addr))
    ctx.h('eui64 mac class', mac_class(mac))
    _check_inverse(ctx, case, 'eui64-inverse-constructed', netaddr.IPAddress(addr, 6), mac)


def eval_eui_lit(ctx, case):
    prefix, mactxt, want_txt = case['prefix'], case['mac'], case['want']
    ctx.case(('eui-lit', prefix, mactxt))
    ctx.clause('eui64-literal-vector')
    got, exc = _call_eui(prefix, mactxt)
    want = int(ipaddress.IPv6Address(want_txt))
    if exc is not None or int(got) != want:
        ctx.fail('eui64-literal-vector', case, {'got': None if got is None else str(got), 'exc': exc})
        return
    mac = int(mactxt.replace(':', '').replace('-', ''), 16)
    _check_inverse(ctx, case, 'eui64-inverse', got, mac)


def eval_eui_bad(ctx, case):
    prefix, mac, cls = case['prefix'], case['mac'], case['cls']
    ctx.case(('eui-bad', repr(prefix), repr(mac)))
    clause = {'ipv4-prefix': 'eui64-must-raise-ipv4-prefix',
              'malformed-prefix': 'eui64-must-raise-malformed-prefix',
              'malformed-mac': 'eui64-must-raise-malformed-mac'}[cls]
    ctx.clause(clause)
    ctx.h('eui64 rejection class', '%s / %s' % (cls, case.get('sub', '-')))
    # what else the caller may have asked the module just before (validators on the same strings, the same prefix with
    # a numerically equal integer MAC) has no bearing on the answer
    from oslo_utils import netutils as _nu
    for f in (_nu.is_valid_cidr, _nu.is_valid_ip, _nu.is_valid_ipv6_cidr, _nu.is_valid_mac):
        for arg in (prefix, mac):
            try:
                f(arg)
            except BaseException:  # noqa
                pass
    if isinstance(mac, float) and mac == int(mac):
        _call_eui(prefix, int(mac))
    got, exc = _call_eui(prefix, mac)
    if exc is None:
        ctx.fail(clause, case, {'prefix': prefix, 'mac': mac, 'returned': str(got)})
    elif not isinstance(exc, OK_EXC):
        ctx.fail(clause, case, {'prefix': prefix, 'mac': mac, 'exc': exc,
                                'note': 'raised, but neither ValueError nor TypeError'})


def eval_eui_dc(ctx, case):
    prefix, mac = case['prefix'], case['mac']
    ctx.case(('eui-dc', repr(prefix), repr(mac)), nontrivial=False)
    ctx.clause('eui64-dont-care-no-unexpected-exception')
    ctx.h('eui64 DONT-CARE class', case['cls'])
    got, exc = _call_eui(prefix, mac)
    if exc is not None and not isinstance(exc, OK_EXC):
        ctx.fail('eui64-unexpected-exception', case, {'prefix': prefix, 'mac': mac, 'exc': exc})


def port_class(port):
    if port is None:
        return 'absent'
    if port in (0, 65535):
        return str(port)
    if port < 1024:
        return '1..1023'
    if port < 49152:
        return '1024..49151'
    return '49152..65534'


def eval_hp(ctx, case):
    from oslo_utils import netutils
    from vlib import callstyle
    netutils = callstyle.proxy(netutils)
    host, fam, port, bracket, dmode, dflt = (case[k] for k in (
        'host', 'family', 'port', 'bracket', 'dmode', 'default'))
    if bracket == 'escape':
        try:
            esc = netutils.escape_ipv6(host)
        except BaseException as e:  # noqa
            ctx.case(('hp-escape', host))
            ctx.fail('escape_ipv6-raised', case, {'host': host, 'exc': e})
            return
        if not isinstance(esc, str):
            ctx.case(('hp-escape', host))
            ctx.fail('escape_ipv6-not-a-string', case, {'host': host, 'got': esc})
            return
    elif bracket == 'manual':
        esc = '[' + host + ']'
    else:
        esc = host
    text = esc + ('' if port is None else ':' + str(port))
    try:
        if dmode == 'omit':
            got = netutils.parse_host_port(text)
        elif dmode == 'positional':
            got = netutils.parse_host_port(text, dflt)
        else:
            got = netutils.parse_host_port(text, default_port=dflt)
        exc = None
    except BaseException as e:  # noqa
        got, exc = None, e
    want_port = port if port is not None else (None if dmode == 'omit' else dflt)
    ctx.case(('hp', text, dmode, dflt))
    if bracket != 'escape':
        clause = 'hostport-documented-forms'
    elif port is None:
        clause = 'hostport-default-port'
    else:
        clause = 'hostport-roundtrip'
    ctx.clause(clause)
    ctx.h('hostport family x port class', '%s / %s' % (fam, port_class(port)))
    ctx.h('hostport default-port mode', '%s%s / port %s' % (
        dmode, '' if dmode == 'omit' else ('(None)' if dflt is None else '(int)'),
        'absent' if port is None else 'present'))
    ctx.h('hostport input form', bracket)
    ok = (exc is None and type(got) is tuple and len(got) == 2 and
          type(got[0]) is str and got[0] == host and
          ((want_port is None and got[1] is None) or
           (want_port is not None and type(got[1]) is int and got[1] == want_port)))
    if not ok:
        ctx.fail(clause, case, {'text': text, 'got': got, 'exc': exc, 'want': [host, want_port]})


FIELDS = ('scheme', 'netloc', 'path', 'query', 'fragment')
ATTRS = ('hostname', 'port', 'username', 'password')


def expected_params(pairs):
    last, every = {}, {}
    for name, value in pairs:
        last[name] = value
        if name in every:
            if isinstance(every[name], list):
                every[name].append(value)
            else:
                every[name] = [every[name], value]
        else:
            every[name] = value
    return last, every


def same_params(got, want):
    """Equality that also distinguishes a list from a single value."""
    if type(got) is not dict or got != want:
        return False
    return all(type(got[k]) is type(want[k]) for k in want)


def eval_url(ctx, case):
    from oslo_utils import netutils
    from vlib import callstyle
    netutils = callstyle.proxy(netutils)
    url = compose_url(case)
    af, dsch = case['allow_fragments'], case['default_scheme']
    args = []
    kwargs = {}
    if dsch is not None:
        args.append(dsch)
    if case.get('af_mode', 'kw') == 'kw' or dsch is None:
        kwargs['allow_fragments'] = af
    else:
        args.append(af)
    try:
        ref, ref_exc = stdparse.urlsplit(url, *args, **kwargs), None
    except BaseException as e:  # noqa
        ref, ref_exc = None, e
    try:
        got, exc = netutils.urlsplit(url, *args, **kwargs), None
    except BaseException as e:  # noqa
        got, exc = None, e
    wellformed = case.get('wellformed', True)
    netloc = case['netloc'] or ''
    nontrivial = bool(case['query'] or case['frag'] or '@' in netloc or '[' in netloc or ':' in netloc)
    ctx.case(('url', url, af, dsch), nontrivial)
    if not wellformed:
        # DONT-CARE: only "nothing unexpected"
        ctx.clause('urlsplit-ill-formed-no-unexpected-exception')
        ctx.h('url class', 'ill-formed (DONT-CARE): stdlib %s' % (
            'raises ' + type(ref_exc).__name__ if ref_exc is not None else 'returns'))
        if exc is not None and not isinstance(exc, ValueError):
            ctx.fail('urlsplit-unexpected-exception', case, {'url': url, 'exc': exc, 'stdlib_exc': ref_exc})
        return
    if ref_exc is not None:
        raise AssertionError('generator produced a URL the stdlib rejects: %r %r' % (url, ref_exc))
    ctx.h('url scheme', case['scheme'] or '(none)')
    ctx.h('url default scheme argument', 'not passed' if dsch is None else repr(dsch))
    ctx.h('url netloc class', case.get('ncls', '-'))
    ctx.h('url query class', case.get('qcls', '-'))
    ctx.h('url fragment class x allow_fragments', '%s / %s' % (case.get('fcls', '-'), af))
    ctx.clause('urlsplit-fields')
    if exc is not None:
        ctx.fail('urlsplit-fields', case, {'url': url, 'exc': exc, 'stdlib': list(ref)})
        return
    bad = None
    if not isinstance(got, tuple) or len(got) != 5:
        bad = {'url': url, 'got': got, 'note': 'not a 5-tuple'}
    else:
        diff = {}
        for i, f in enumerate(FIELDS):
            g_attr, g_idx, w = _attr(got, f), got[i], getattr(ref, f)
            if g_attr != ('value', w) or g_idx != w or type(g_idx) is not type(w):
                diff[f] = {'got': g_attr[1], 'got_by_index': g_idx, 'stdlib': w}
        if diff:
            bad = {'url': url, 'allow_fragments': af, 'default_scheme': dsch, 'fields': diff}
    if bad:
        ctx.fail('urlsplit-fields', case, bad)
    # generator self-knowledge (no verdict): does the stdlib see the components we composed?
    if af:
        comp = ((case['scheme'].lower() or (dsch or '')), netloc, case['path'], case['query'] or '',
                case['frag'] or '')
        ctx.h('url stdlib == generator components (allow_fragments=True)', str(tuple(ref) == comp))
    ctx.clause('urlsplit-netloc-attrs')
    diff = {}
    for a in ATTRS:
        g, w = _attr(got, a), _attr(ref, a)
        if g != w or type(g[1]) is not type(w[1]):
            diff[a] = {'got': g, 'stdlib': w}
    if diff:
        ctx.fail('urlsplit-netloc-attrs', case, {'url': url, 'attrs': diff})
    # ---- params
    pairs = case.get('pairs')
    constructive = (pairs is not None and case.get('qcls', '').startswith('pairs') and
                    (af or case['frag'] is None))
    if constructive:
        if stdparse.parse_qsl(case['query']) != [tuple(p) for p in pairs]:
            raise AssertionError('generator pairs disagree with parse_qsl: %r %r' % (case['query'], pairs))
        src = 'generator pairs'
        plist = [tuple(p) for p in pairs]
    elif case.get('qcls') in ('blank-values', 'valueless-fields'):
        ctx.clause('params-blank-values-dont-care')
        for kw in ({}, {'collapse': False}):
            try:
                r = got.params(**kw)
            except BaseException as e:  # noqa
                ctx.fail('params-unexpected-exception', case, {'url': url, 'exc': e})
                return
            if not isinstance(r, dict):
                ctx.fail('params-not-a-dict', case, {'url': url, 'got': r})
        return
    else:
        src = 'parse_qsl(stdlib query)'
        plist = stdparse.parse_qsl(ref.query)
    want_last, want_all = expected_params(plist)
    ctx.h('params oracle source', src)
    ctx.h('params names repeated', str(any(isinstance(v, list) for v in want_all.values())))
    for clause, kw, want in (('params-last', {}, want_last), ('params-last', {'collapse': True}, want_last),
                             ('params-all', {'collapse': False}, want_all)):
        ctx.clause(clause)
        try:
            r, e = got.params(**kw), None
        except BaseException as ex:  # noqa
            r, e = None, ex
        if e is not None or not same_params(r, want):
            ctx.fail(clause, case, {'url': url, 'query': getattr(ref, 'query', None), 'kwargs': kw,
                                    'got': r, 'exc': e, 'want': want, 'oracle': src})
    # call history: what a caller does to a returned dict must not show in later answers, neither on the
    # same result object nor on a fresh urlsplit() of the same URL
    for kw, want in (({}, want_last), ({'collapse': False}, want_all)):
        ctx.clause('params-history-independent')
        try:
            r1 = got.params(**kw)
            if isinstance(r1, dict):
                for k in list(r1)[:1]:
                    if isinstance(r1[k], list):
                        r1[k].append('edited-by-caller')
                    else:
                        r1.pop(k)
                r1['added-by-caller'] = 'x'
            r2 = got.params(**kw)
            r3 = netutils.urlsplit(url, *args, **kwargs).params(**kw)
            e = None
        except BaseException as ex:  # noqa
            r2, r3, e = None, None, ex
        if e is not None or not same_params(r2, want) or not same_params(r3, want):
            ctx.fail('params-history-independent', case, {'url': url, 'kwargs': kw, 'second_call': r2,
                                                          'fresh_urlsplit': r3, 'exc': e, 'want': want})


EVAL = {'eui': eval_eui, 'eui-inv': eval_eui_inv, 'eui-lit': eval_eui_lit, 'eui-bad': eval_eui_bad,
        'eui-dc': eval_eui_dc, 'hp': eval_hp, 'url': eval_url}


def TWIN_FUNCS():
    from oslo_utils import netutils as nu
    return {'parse_host_port': lambda v: nu.parse_host_port(v), 'urlsplit': lambda v: tuple(nu.urlsplit(v)),
            'urlsplit_params': lambda v: nu.urlsplit(v).params(), 'escape_ipv6': lambda v: nu.escape_ipv6(v),
            'get_ipv6_addr_by_EUI64': lambda v: str(nu.get_ipv6_addr_by_EUI64('2001:db8::', v))}


# (urlsplit goes through urllib.parse.urlsplit, which memoises by the url object itself: the standard library's business)
TWIN_TEXT_FUNCS = ['parse_host_port', 'escape_ipv6', 'get_ipv6_addr_by_EUI64']
TWIN_TEXTS = ['[FE80::1]:80', 'Host.Example:8080', 'HTTP://Ex.Com/Path?Q=1&R=2', 'fe80::AbCd', 'AA:bb:CC:dd:EE:ff',
              'Example.COM', 'rabbit://User:Pw@Host:5672/VHost?A=b', '00:16:3E:33:44:55']
TWIN_NUM_FUNCS = ()
TWIN_NUMBERS = ()


def _evaluate_plain(ctx, case):
    if case.get('kind') == 'twins':
        from vlib import twins as _tw
        return _tw.evaluate_case(ctx, case, TWIN_FUNCS())
    EVAL[case['kind']](ctx, case)


from vlib import envmodes  # noqa: E402
evaluate = envmodes.with_modes(_evaluate_plain, lazy=lambda case: True, warn=lambda case: True, digits=lambda case: True)


# ----------------------------------------------------------------------
# generators
# ----------------------------------------------------------------------
LITERAL_VECTORS = [
    # oslo.utils' own unit tests
    ('2001:db8::', '00:16:3e:33:44:55', '2001:db8::216:3eff:fe33:4455'),
    ('2001:db8::/64', '00:16:3e:33:44:55', '2001:db8::216:3eff:fe33:4455'),
    ('fe80::/64', '52:54:00:42:02:19', 'fe80::5054:ff:fe42:219'),
    ('fe80::/64', '02:00:00:00:00:00', 'fe80::ff:fe00:0'),
    ('fe80::/64', '00:00:00:00:00:00', 'fe80::200:ff:fe00:0'),
    # RFC 4291 appendix A: 34-56-78-9A-BC-DE -> 36-56-78-FF-FE-9A-BC-DE
    ('2001:db8:1:2::/64', '34-56-78-9A-BC-DE', '2001:db8:1:2:3656:78ff:fe9a:bcde'),
    ('fe80::/10', '34:56:78:9a:bc:de', 'fe80::3656:78ff:fe9a:bcde'),
]


def boundary_macs():
    macs = [0, M48, 1 << 41, M48 ^ (1 << 41), (1 << 41) - 1, 1 << 40, 3 << 40,
            0x00fffe000000, 0x0000fffe0000, 0xfffe00000000, 0x000000fffe00, 0xfffefffefffe,
            0x00163e334455, 0x525400420219, 0x020000000000, 0x3456789abcde,
            0x0000ffffffff, 0xffffff000000, 0x000000ffffff, 0x010203040506, 0xa5a5a5a5a5a5, 0x5a5a5a5a5a5a]
    macs += [1 << i for i in range(48)]
    macs += [M48 ^ (1 << i) for i in range(48)]
    out = []
    for m in macs:
        if m not in out:
            out.append(m)
    return out


DIRECTED_PREFIXES = [   # (addr int, plen)
    (0, 0), (0, 64), (M128, 0), (M128, 1), (M128, 63), (M128, 64),
    (0x20010db8 << 96, 64), (0x20010db8 << 96, 32), (0x20010db8 << 96, None), (0x20010db8 << 96, 128),
    (0xfe80 << 112, 64), (0xfe80 << 112, 10), (0xfebf << 112 | 0xffff << 64, 10),
    (M64 << 64, 64), (M64 << 64, 65), (M64 << 64, 127), (M64 << 64, 128), (M64 << 64, None),
    (0x20010db8000100020003000400050006, 64), (0x20010db8000100020003000400050006, 48),
    (0x20010db8000100020003000400050006, 63), (0x20010db8000100020003000400050006, 1),
    (0x20010db8000100020000000000000000, 96), (0x20010db8000100020000000000000000, 65),
    (0x20010db8000100020000000000000001, 64), (1 << 64, 64), (1 << 63, 64), (1 << 127, 1),
]

BAD_MACS = [   # (text or object, sub-class) - unambiguously not a 48-bit MAC
    ('', 'empty'), ('zz', 'non-hex'), (':', 'separators-only'), ('00:16:3e:33:44', '5-groups'),
    ('00:16:3e:33:44:55:66', '7-groups'), ('00:16:3e:33:44:55:66:77:88', '9-groups'),
    ('00:16-3e:33:44:55', 'mixed-separators'), ('00:16:3e:33:44:5g', 'non-hex'),
    ('00:16:3e:33:44:5Z', 'non-hex'), ('g0:16:3e:33:44:55', 'non-hex'), ('00:16:3e:33:44:555', '3-digit-group'),
    ('001:6:3e:33:44:55', '3-digit-group'), ('00:16:3e:33:44:', 'empty-group'), ('00::3e:33:44:55', 'empty-group'),
    ('00:16:3e:33:44:55:', 'trailing-separator'), ('0016.3e33.44555', '5-digit-group'),
    ('00163e3344556', '13-hex-digits'), ('00_16_3e_33_44_55', 'foreign-separator'),
    ('00 16 3e 33 44 55', 'foreign-separator'), ('00.16.3e.33.44.55', 'foreign-separator'),
    ('00:16:3e:33:44:-5', 'sign'), ('0x00163e334455', '0x-prefix'), ('mac', 'word'),
    (None, 'type-None'), (1.5, 'type-float'), ([], 'type-list'), ({}, 'type-dict'),
    ('\u0660\u0660:16:3e:33:44:55', 'non-ascii-digits'), ('\uff10\uff10:16:3e:33:44:5\uff15', 'non-ascii-digits'),
    ('00:16:3e:33:44:5\u0665', 'non-ascii-digits'), (95532827733.0, 'type-float-integral'), (0.0, 'type-float-integral'), (281474976710655.0, 'type-float-integral'),
]
BAD_PREFIXES = [
    ('', 'empty'), ('bogus', 'word'), ('bb', 'word'), ('2001:db8::/129', 'length>128'),
    ('2001:db8::/999', 'length>128'), ('2001:db8::/-1', 'negative-length'), ('2001:db8:::/64', 'triple-colon'),
    ('2001:db8::g/64', 'non-hex'), ('gggg::/64', 'non-hex'), ('1:2:3:4:5:6:7:8:9/64', '9-groups'),
    ('2001:db8::/64/64', 'two-slashes'), ('2001:db8::/abc', 'alphabetic-length'), ('/64', 'no-address'),
    ('2001:db8::/', 'empty-length'), ('12345::/64', '5-digit-group'), ('1::2::3/64', 'two-double-colons'),
    ('2001:db8/64', '2-groups'), ('[2001:db8::]/64', 'brackets'), ('2001:db8::/64.5', 'fractional-length'),
    ('2001:db8::/0x40', 'hex-length'), (':/64', 'lone-colon'), (':::/64', 'triple-colon'),
    ('1:2:3:4:5:6:7/64', '7-groups'), ('1:2:3:4:5:6:7:8:/64', 'trailing-colon'),
    (None, 'type-None'), (64, 'type-int'), (123, 'type-int'), (2.5, 'type-float'), ([], 'type-list'),
    (b'2001:db8::/64', 'type-bytes'),
]
IPV4_PREFIXES = ['10.0.0.1', '0.0.0.0', '255.255.255.255', '127.0.0.1', '192.168.1.254', '1.2.3.4',
                 '10.0.8.0', '224.0.0.1', '169.254.0.1', '100.64.0.0']
DONT_CARE_EUI = [   # (prefix, mac, class)
    ('10.0.0.0/24', '00:16:3e:33:44:55', 'IPv4 network as prefix'),
    ('0.0.0.0/0', '00:16:3e:33:44:55', 'IPv4 network as prefix'),
    ('192.168.0.0/255.255.0.0', '00:16:3e:33:44:55', 'IPv4 network as prefix'),
    ('10.0.8', '00:16:3e:33:44:55', 'IPv4 shorthand'), ('1.2', '00:16:3e:33:44:55', 'IPv4 shorthand'),
    ('1', '00:16:3e:33:44:55', 'IPv4 shorthand'), ('010.1.1.1', '00:16:3e:33:44:55', 'IPv4 shorthand'),
    ('1.2.3.4.5', '00:16:3e:33:44:55', 'IPv4 look-alike'), ('256.1.1.1', '00:16:3e:33:44:55', 'IPv4 look-alike'),
    ('1.2.3.4/33', '00:16:3e:33:44:55', 'IPv4 look-alike'),
    ('2001:db8::1:2:3:4/96', '00:16:3e:33:44:55', 'long prefix, low bits non-zero'),
    ('2001:db8::ffff:ffff:ffff:ffff/128', 'ff:ff:ff:ff:ff:ff', 'long prefix, low bits non-zero'),
    ('2001:db8::1', '00:16:3e:33:44:55', 'long prefix, low bits non-zero'),
    ('2001:db8::/64', '0:16:3e:33:44:55', 'lenient MAC spelling'),
    ('2001:db8::/64', '00163e33445', 'lenient MAC spelling'), ('2001:db8::/64', '0016.3e33.445', 'lenient MAC spelling'),
    ('2001:db8::/64', '00163e-334455', 'lenient MAC spelling'), ('2001:db8::/64', '0016:3e33:4455', 'lenient MAC spelling'),
    ('2001:db8::/64', '00:16:3e:33:44:55\n', 'lenient MAC spelling'), ('2001:db8::/64', ' 00:16:3e:33:44:55', 'lenient MAC spelling'),
    ('2001:db8::/64', '00:16:3e:33:44:55:66:77', 'EUI-64 given as MAC'), ('2001:db8::/64', '00:16:3e:33', 'EUI-64 given as MAC'),
    ('2001:db8::/64', 0x163e334455, 'MAC given as int'), ('2001:db8::/64', 1 << 48, 'MAC given as int'),
    ('2001:db8::/64', -1, 'MAC given as int'), ('2001:db8::/64', True, 'MAC given as int'),
    ('2001:db8::/64', b'00:16:3e:33:44:55', 'MAC given as bytes'),
    ('2001:db8::/64 ', '00:16:3e:33:44:55', 'lenient prefix spelling'), ('2001:db8::/ 64', '00:16:3e:33:44:55', 'lenient prefix spelling'),
    ('2001:db8::/+64', '00:16:3e:33:44:55', 'lenient prefix spelling'),
    ('2001:db8::/٦٤', '00:16:3e:33:44:55', 'lenient prefix spelling'),
    ('2001:db8::/ffff:ffff:ffff:ffff::', '00:16:3e:33:44:55', 'lenient prefix spelling'),
    ('2001:db8::%eth0/64', '00:16:3e:33:44:55', 'scoped prefix'),
    ('::ffff:10.0.0.1/64', '00:16:3e:33:44:55', 'IPv4-mapped prefix'),
]

HOST_NAMES = ['server01', 'localhost', 'a', 'a.b-c.example', 'EXAMPLE.Com', 'my_host', 'x--y', 'host.',
              '123', 'xn--bcher-kva.example', 'node-17.rack4.dc.example.org', 'ipv6', 'h0']
HOST_V4 = ['0.0.0.0', '127.0.0.1', '10.0.0.1', '255.255.255.255', '192.168.1.254', '1.2.3.4']
HOST_V6 = ['::', '::1', '2001:db8::1', '1:2:3:4:5:6:7:8', '2001:db8:85a3::8a2e:370:7334', 'fe80::1',
           '::ffff:1.2.3.4', '2001:DB8::A', 'ffff:ffff:ffff:ffff:ffff:ffff:ffff:ffff',
           '2001:0db8:0000:0000:0000:0000:0000:0001', '1::', '::8', '64:ff9b::192.0.2.33', '1234::1234']
SCOPES = ['eth0', '1', 'lo', 'enp0s31f6', 'br-1234567890a', 'a' * 15, 'vlan.100', 'wlan0_1', '0', 'Eth0',
          '25', '250', '2501', '25eth0', '2525', '3A', '2F',
          # short in characters, long in UTF-8 bytes (the 15 of the scope rule counts characters)
          '\u0438\u043d\u0442\u0435\u0440\u0444\u0435\u0439\u0441', '\u63a5\u53e3' * 3, '\u00e9' * 14, 'eth\u00e9' * 3]
SCOPE_ALPHABET = 'abcdefghijklmnopqrstuvwxyzABCDEFGHIJKLMNOPQRSTUVWXYZ0123456789._-'
FAMILY_REPRESENTATIVES = [('server01.example.org', 'name'), ('192.168.1.254', 'ipv4'),
                          ('2001:db8:85a3::8a2e:370:7334', 'ipv6'), ('fe80::1%eth0', 'ipv6-scoped')]
DEFAULT_MODES = [('omit', None), ('kw', None), ('kw', 1234), ('kw', 0), ('kw', 65535), ('positional', 8080),
                 ('kw', 1)]


def random_host(rng, fam):
    if fam == 'name':
        labels = []
        for _ in range(rng.randrange(1, 5)):
            n = rng.randrange(1, 12)
            labels.append(''.join(rng.choice('abcdefghijklmnopqrstuvwxyzABCXYZ0123456789-_') for _ in range(n)))
        return '.'.join(labels)
    if fam == 'ipv4':
        return '.'.join(str(rng.choice([0, 1, 9, 10, 99, 100, 127, 255, rng.randrange(256)])) for _ in range(4))
    k = rng.randrange(5)
    if k == 0:
        addr = rng.getrandbits(128)
    elif k == 1:
        addr = rng.getrandbits(64) << 64 | rng.getrandbits(16)
    elif k == 2:
        addr = rng.getrandbits(128) & rng.getrandbits(128) & rng.getrandbits(128)   # many zero groups
    elif k == 3:
        addr = (0xfe80 << 112) | rng.getrandbits(64)
    else:
        addr = rng.choice([0, 1, M128, 1 << 127, 0xffff << 32 | rng.getrandbits(32)])
    text = render_v6(addr, rng.choice(V6_STYLES))
    if fam == 'ipv6-scoped':
        scope = rng.choice(SCOPES) if rng.random() < 0.3 else ''.join(
            rng.choice(SCOPE_ALPHABET) for _ in range(rng.choice([1, 2, 4, 8, 14, 15, rng.randrange(1, 16)])))
        text += '%' + scope
    return text


def random_mac(rng):
    k = rng.randrange(8)
    if k == 0:
        return rng.choice(boundary_macs())
    if k == 1:   # ff:fe somewhere, to confuse a search-based inverse
        m = rng.getrandbits(48)
        sh = rng.choice([0, 8, 16, 24, 32])
        return (m & ~(0xffff << sh)) | (0xfffe << sh)
    if k == 2:   # sparse / dense
        m = rng.getrandbits(48)
        return m & rng.getrandbits(48) if rng.random() < 0.5 else (m | rng.getrandbits(48)) & M48
    return rng.getrandbits(48)


def random_prefix(rng, i):
    """Returns (addr, plen); quotas per length class by i."""
    k = i % 10
    if k < 4:
        plen = 64
    elif k < 6:
        plen = rng.randrange(0, 64)
    elif k == 6:
        plen = rng.choice([0, 1, 8, 10, 32, 48, 56, 60, 63])
    elif k == 7:
        plen = rng.randrange(65, 129)
    elif k == 8:
        plen = rng.choice([65, 96, 112, 127, 128])
    else:
        plen = None
    addr = rng.getrandbits(128)
    r = rng.random()
    if plen is None or plen > 64:
        if r < 0.7:
            addr &= ~M64 & M128          # MUST class: low 64 bits zero
        elif r < 0.8 and plen is not None:
            addr &= ~((1 << (128 - plen)) - 1) | (~M64 & M128)   # low bits only below the mask
    else:
        if r < 0.45:
            addr = network_of(addr, plen)     # network address, no host bits
        elif r < 0.6:
            addr = network_of(addr, plen) | rng.getrandbits(64)   # host bits only in the low half
    return addr, plen


def break_mac(rng, mac):
    """One unambiguous defect in an otherwise canonical MAC text."""
    groups = ['%02x' % ((mac >> (8 * (5 - i))) & 0xff) for i in range(6)]
    sep = rng.choice([':', '-'])
    k = rng.randrange(7)
    if k == 0:
        return sep.join(groups[:5]), '5-groups'
    if k == 1:
        return sep.join(groups + [groups[0]]), '7-groups'
    if k == 2:
        return sep.join(groups + groups[:3 + rng.randrange(3)]), '9+-groups'
    if k == 3:
        i = rng.randrange(6)
        g = list(groups[i])
        g[rng.randrange(2)] = rng.choice('ghijklmnopqrstuvwxyzGXZ')
        groups[i] = ''.join(g)
        return sep.join(groups), 'non-hex'
    if k == 4:
        i = rng.randrange(6)
        groups[i] += rng.choice('0123456789abcdef')
        return sep.join(groups), '3-digit-group'
    if k == 5:
        i = rng.randrange(1, 6)
        return ':'.join(groups[:i]) + '-' + ':'.join(groups[i:]), 'mixed-separators'
    i = rng.randrange(6)
    groups[i] = ''
    return sep.join(groups), 'empty-group'


def break_prefix(rng, addr, plen):
    g = ['%x' % ((addr >> (16 * (7 - i))) & 0xffff) for i in range(8)]
    k = rng.randrange(8)
    if k == 0:
        i = rng.randrange(8)
        g[i] = g[i][:-1] + rng.choice('ghijklmnopqrstuvwxyzGXZ')
        return ':'.join(g) + '/%d' % plen, 'non-hex'
    if k == 1:
        i = rng.randrange(8)
        g[i] = '1' + ('%04x' % int(g[i], 16))
        return ':'.join(g) + '/%d' % plen, '5-digit-group'
    if k == 2:
        return ':'.join(g + [g[0]]) + '/%d' % plen, '9-groups'
    if k == 3:
        return ':'.join(g[:rng.randrange(2, 7)]) + '/%d' % plen, 'too-few-groups'
    if k == 4:
        return ':'.join(g) + '/%d' % rng.choice([129, 130, 200, 256, 1000, rng.randrange(129, 10000)]), 'length>128'
    if k == 5:
        return ':'.join(g) + '/-%d' % rng.randrange(1, 129), 'negative-length'
    if k == 6:
        return ':'.join(g) + '/' + rng.choice(['abc', 'x', '6a', 'sixty-four', '/', '64/64', '']), 'bad-length-text'
    return '%s::%s::%s/%d' % (g[0], g[1], g[2], plen), 'two-double-colons'


# ---- URL pools
SCHEMES = ['http', 'https', 'ftp', 'rbd', 'custom', 'custom+x', 'svn+ssh', 'HTTP', 'x-y.z', '']
DEFAULT_SCHEMES = [None, '', 'http', 'custom', 'ftp']
USERINFO = ['', 'user@', 'user:pw@', 'user:@', ':pw@', 'u%40x:p%3Aw@', "a.b-c_d~:p!$&'()*+,;=@"]
URL_HOSTS = [('example.com', 'name'), ('EXAMPLE.Com', 'name'), ('h', 'name'), ('10.0.0.1', 'ipv4'),
             ('[::1]', 'ipv6'), ('[2001:db8::1]', 'ipv6'), ('[2001:DB8::A]', 'ipv6'),
             ('[::ffff:1.2.3.4]', 'ipv6'), ('[fe80::1%25eth0]', 'ipv6-zone')]
PORT_TEXTS = ['', ':', ':0', ':80', ':443', ':8080', ':65535']
PATHS_NETLOC = ['', '/', '/a/b', '/a;p=1', '/a%20b', '/a:b', '/a/../b', '/~u/', '//x', '/a@b', '/v2.0/',
                '/a/b.c;x=1/d', '/%E2%82%AC']
PATHS_NO_NETLOC = ['', '/', '/a/b', 'a/b', 'a', './a:b', '/a:b', 'pool/image', 'pool/image@snap', '/a;p=1']
FRAGS = [(None, 'absent'), ('', 'empty'), ('frag', 'plain'), ('f?x=1', 'with-?'), ('f#g', 'with-#'),
         ('a/b', 'plain'), ('%23', 'plain'), ('sec-1.2', 'plain'), ('a=1&b=2', 'query-like')]
FIXED_QUERIES = [   # (query text, pairs or None, class)
    (None, None, 'absent'), ('', None, 'empty'),
    ('a=1', [['a', '1']], 'pairs-single'),
    ('a=1&a=2&b=3', [['a', '1'], ['a', '2'], ['b', '3']], 'pairs-repeated'),
    ('a=b&a=c&a=d', [['a', 'b'], ['a', 'c'], ['a', 'd']], 'pairs-repeated'),
    ('x=%20y&x=z', [['x', ' y'], ['x', 'z']], 'pairs-repeated-encoded'),
    ('q=a+b&%26=%3D', [['q', 'a b'], ['&', '=']], 'pairs-single-encoded'),
    ('a=1;b=2', [['a', '1;b=2']], 'pairs-single'),
    ('a=&b', None, 'blank-values'), ('a=1&a=', None, 'blank-values'), ('someparam', None, 'valueless-fields'),
    ('a=1&&b=2', None, 'valueless-fields'),
]
GRID_NETLOCS = [(None, 'absent'), ('', 'empty'), ('example.com', 'host'), ('h:1', 'host+port'),
                ('user:pw@example.com:8080', 'userinfo+host+port'), ('[::1]:80', 'ipv6+port'),
                ('[2001:db8::1]', 'ipv6'), ('user:pass@[::1]', 'userinfo+ipv6'), ('myhost', 'host')]
ILL_FORMED_URLS = ['http://[::1', 'http://::1]/', 'http://[zz]/', 'http://[::1]x/', 'http://h:port/',
                   'http://h:70000/', 'http://h:-1/', 'http://u@h:99999/a?b=1#c', 'http://[v1.x]/',
                   'http://[1.2.3.4]/', 'http://a[b/', ' http://h/', 'ht\ttp://h/\n', 'http://h℀/',
                   '//[::1', 'custom://[fe80::1%eth0]:x/']
VALUE_EXTRA = ' &=+#?/;%é€:@,'


def random_pairs(rng):
    """Returns (query text, decoded pairs, class)."""
    n_names = rng.randrange(1, 4)
    names = []
    while len(names) < n_names:
        nm = ''.join(rng.choice(SAFE if rng.random() < 0.9 else VALUE_EXTRA) for _ in range(rng.randrange(1, 6)))
        if nm not in names:
            names.append(nm)
    n = rng.choice([1, 2, 3, 4, 6])
    pairs = []
    for _ in range(n):
        v = ''.join(rng.choice(SAFE if rng.random() < 0.8 else VALUE_EXTRA) for _ in range(rng.randrange(1, 9)))
        pairs.append([rng.choice(names), v])
    text = '&'.join(enc_component(a, rng) + '=' + enc_component(b, rng) for a, b in pairs)
    repeated = len({a for a, _ in pairs}) < len(pairs)
    encoded = '%' in text or '+' in text
    return text, pairs, 'pairs-%s%s' % ('repeated' if repeated else 'single', '-encoded' if encoded else '')


def random_url_case(rng, i):
    scheme = SCHEMES[i % len(SCHEMES)] if rng.random() < 0.8 else rng.choice(
        ['a', 'z9', 'git+https', 'coap+tcp', 'Custom', 's3'])
    k = rng.randrange(8)
    if k == 0:
        netloc, ncls = None, 'absent'
    elif k == 1:
        netloc, ncls = '', 'empty'
    else:
        ui = rng.choice(USERINFO) if rng.random() < 0.5 else ''
        if rng.random() < 0.6:
            host, hcls = rng.choice(URL_HOSTS)
        else:
            fam = rng.choice(['name', 'ipv4', 'ipv6'])
            host, hcls = random_host(rng, fam), fam
            if fam == 'ipv6':
                host = '[' + host + ']'
        r = rng.random()
        port = rng.choice(PORT_TEXTS) if r < 0.6 else (':%d' % rng.randrange(65536) if r < 0.8 else '')
        netloc = ui + host + port
        ncls = '+'.join(x for x in ('userinfo' if ui else '', hcls, 'port' if port else '') if x)
    if netloc is None:
        path = rng.choice(PATHS_NO_NETLOC)
        if not scheme and ':' in path.split('/')[0]:
            path = './' + path
    else:
        path = rng.choice(PATHS_NETLOC)
    r = rng.random()
    if r < 0.55:
        query, pairs, qcls = random_pairs(rng)
    else:
        query, pairs, qcls = rng.choice(FIXED_QUERIES)
    frag, fcls = rng.choice(FRAGS)
    dsch = rng.choice(DEFAULT_SCHEMES)
    return dict(kind='url', scheme=scheme, netloc=netloc, ncls=ncls, path=path, query=query, pairs=pairs,
                qcls=qcls, frag=frag, fcls=fcls, allow_fragments=rng.random() < 0.6, default_scheme=dsch,
                af_mode=rng.choice(['kw', 'positional']))


# ----------------------------------------------------------------------
# run
# ----------------------------------------------------------------------
def run(ctx):
    # ---- the same characters / the same number handed over as other objects, in several orders (vlib/twins.py)
    from vlib import twins as _tw
    for _i, _case in enumerate(_tw.make_cases(ctx.rng('twins'), ctx.pick(160, 8000), TWIN_TEXT_FUNCS, TWIN_TEXTS,
                                              TWIN_NUM_FUNCS, TWIN_NUMBERS)):
        if ctx.mine(_i):
            evaluate(ctx, _case)
    idx = 0

    def emit(case, klass=None):
        nonlocal idx
        idx += 1
        if ctx.mine(idx):
            ctx.sample(klass or case['kind'], case)
            evaluate(ctx, case)

    def blocks(stream, n, size=500):
        """Seeded draws come in blocks with a random stream each, and blocks (not cases) are dealt to the
        workers: a worker generates only its share; the union over workers does not depend on their number."""
        for b in range((n + size - 1) // size):
            if ctx.mine(b):
                yield ctx.rng('%s/%d' % (stream, b)), range(b * size, min(n, (b + 1) * size))

    def take(case, klass=None):
        ctx.sample(klass or case['kind'], case)
        evaluate(ctx, case)

    # ================= EUI-64 =================
    for p, m, w in LITERAL_VECTORS:
        emit(dict(kind='eui-lit', prefix=p, mac=m, want=w))
    bmacs = boundary_macs()
    for mac in bmacs:
        for j, (addr, plen) in enumerate(DIRECTED_PREFIXES):
            emit(dict(kind='eui', addr=addr, plen=plen, pstyle=V6_STYLES[(j + mac) % 4], mac=mac,
                      mstyle=MAC_STYLES_MUST[(j + (mac >> 3)) % 4]))
        for upper in (0, M64, 0xfe80 << 48, 0x20010db800010002):
            emit(dict(kind='eui-inv', upper=upper, mac=mac))
    ctx.exhaustive['every single-bit and single-zero-bit MAC x directed prefixes'] = True
    for mstyle in MAC_STYLES_MUST + MAC_STYLES_ALT:
        for pstyle in V6_STYLES:
            for mac in (0, M48, 1 << 41, 0x00163e334455, 0xabcdef012345):
                emit(dict(kind='eui', addr=0x20010db8000a000b << 64, plen=64, pstyle=pstyle, mac=mac, mstyle=mstyle))
    for rng, span in blocks('eui', ctx.pick(20000, 1600000)):
        for i in span:
            addr, plen = random_prefix(rng, i)
            mac = random_mac(rng)
            mstyle = rng.choice(MAC_STYLES_MUST) if rng.random() < 0.9 else rng.choice(MAC_STYLES_ALT)
            take(dict(kind='eui', addr=addr, plen=plen, pstyle=rng.choice(V6_STYLES), mac=mac, mstyle=mstyle))
            if i % 4 == 0:
                take(dict(kind='eui-inv', upper=rng.getrandbits(64), mac=random_mac(rng)))
    # ---- rejection classes
    good_mac, good_prefix = '00:16:3e:33:44:55', '2001:db8::/64'
    for p in IPV4_PREFIXES:
        emit(dict(kind='eui-bad', prefix=p, mac=good_mac, cls='ipv4-prefix', sub='valid MAC'), 'eui-bad/ipv4')
        emit(dict(kind='eui-bad', prefix=p, mac='00:16:3e:33:44:5g', cls='ipv4-prefix', sub='malformed MAC'))
    for p, sub in BAD_PREFIXES:
        emit(dict(kind='eui-bad', prefix=p, mac=good_mac, cls='malformed-prefix', sub=sub), 'eui-bad/prefix')
    for m, sub in BAD_MACS:
        for p in (good_prefix, 'fe80::/10', '2001:db8::'):
            emit(dict(kind='eui-bad', prefix=p, mac=m, cls='malformed-mac', sub=sub), 'eui-bad/mac')
    for (p, _s), (m, _t) in itertools.product(BAD_PREFIXES[:8], BAD_MACS[:6]):
        emit(dict(kind='eui-bad', prefix=p, mac=m, cls='malformed-prefix', sub='both malformed'))
    for rb, span in blocks('eui-bad', ctx.pick(4000, 60000)):
        for i in span:
            k = i % 3
            mac = random_mac(rb)
            if k == 0:
                p = '.'.join(str(rb.choice([0, 1, 10, 127, 255, rb.randrange(256)])) for _ in range(4))
                if rb.random() < 0.8:
                    m, sub = render_mac(mac, rb.choice(MAC_STYLES_MUST)), 'valid MAC'
                else:
                    m, sub = break_mac(rb, mac)[0], 'malformed MAC'
                take(dict(kind='eui-bad', prefix=p, mac=m, cls='ipv4-prefix', sub=sub))
            elif k == 1:
                addr, plen = random_prefix(rb, i)
                p, sub = break_prefix(rb, addr, 64 if plen is None else plen)
                take(dict(kind='eui-bad', prefix=p, mac=render_mac(mac, rb.choice(MAC_STYLES_MUST)),
                          cls='malformed-prefix', sub=sub))
            else:
                addr, plen = random_prefix(rb, i)
                m, sub = break_mac(rb, mac)
                take(dict(kind='eui-bad', prefix=render_prefix(addr, plen, rb.choice(V6_STYLES)), mac=m,
                          cls='malformed-mac', sub=sub))
    for p, m, cls in DONT_CARE_EUI:
        emit(dict(kind='eui-dc', prefix=p, mac=m, cls=cls), 'eui-dc')

    # ================= host:port =================
    directed_hosts = ([(h, 'name') for h in HOST_NAMES] + [(h, 'ipv4') for h in HOST_V4] +
                      [(h, 'ipv6') for h in HOST_V6] +
                      [(h + '%' + s, 'ipv6-scoped') for h, s in zip(HOST_V6 * 2, SCOPES * 3)])
    directed_ports = [0, 1, 22, 80, 443, 1023, 1024, 8080, 9999, 10000, 32767, 32768, 49151, 49152,
                      65534, 65535]
    for host, fam in directed_hosts:
        for dmode, dflt in DEFAULT_MODES:
            emit(dict(kind='hp', host=host, family=fam, port=None, bracket='escape', dmode=dmode, default=dflt),
                 'hp/default')
            for port in (0, 80, 65535):
                emit(dict(kind='hp', host=host, family=fam, port=port, bracket='escape', dmode=dmode,
                          default=dflt), 'hp/' + fam)
        for port in directed_ports:
            emit(dict(kind='hp', host=host, family=fam, port=port, bracket='escape', dmode='omit', default=None))
        if fam.startswith('ipv6'):
            for dmode, dflt in DEFAULT_MODES[:4]:
                for port in (None, 0, 80, 65535):
                    emit(dict(kind='hp', host=host, family=fam, port=port, bracket='manual', dmode=dmode,
                              default=dflt), 'hp/manual-bracket')
                emit(dict(kind='hp', host=host, family=fam, port=None, bracket='none', dmode=dmode,
                          default=dflt), 'hp/unescaped-ipv6')
    if ctx.quick:
        port_space = list(range(0, 1024)) + list(range(64512, 65536))
        ctx.exhaustive['ports 0..1023 and 64512..65535 x one host per family'] = True
    else:
        port_space = range(65536)
        ctx.exhaustive['ports 0..65535 x one host per family'] = True
    for host, fam in FAMILY_REPRESENTATIVES:
        for port in port_space:
            emit(dict(kind='hp', host=host, family=fam, port=port, bracket='escape',
                      dmode='kw' if port % 2 else 'omit', default=4321 if port % 2 else None))
    fams = ['name', 'ipv4', 'ipv6', 'ipv6-scoped']
    for rh, span in blocks('hostport', ctx.pick(24000, 1900000)):
        for i in span:
            fam = fams[i % 4]
            host = random_host(rh, fam)
            r = rh.random()
            if r < 0.2:
                port = None
            elif r < 0.4:
                port = rh.choice([0, 1, 9, 10, 99, 100, 999, 1000, 1023, 1024, 9999, 10000, 65534, 65535])
            else:
                port = rh.randrange(65536)
            dmode, dflt = rh.choice(DEFAULT_MODES)
            if dmode != 'omit' and rh.random() < 0.5:
                dflt = rh.randrange(65536)
            bracket = 'escape'
            if fam.startswith('ipv6') and rh.random() < 0.15:
                bracket = 'manual' if port is not None or rh.random() < 0.5 else 'none'
            take(dict(kind='hp', host=host, family=fam, port=port, bracket=bracket, dmode=dmode, default=dflt))

    # ================= URLs =================
    grid_paths = ['', '/mypath', '/v2.0/']
    grid_queries = [FIXED_QUERIES[i] for i in (0, 1, 3, 5, 10)]
    grid_frags = [FRAGS[i] for i in (0, 1, 2, 3, 4)]
    for scheme, (netloc, ncls), path, (query, pairs, qcls), (frag, fcls), af, dsch in itertools.product(
            SCHEMES, GRID_NETLOCS, grid_paths, grid_queries, grid_frags, (True, False), (None, 'http', 'custom')):
        emit(dict(kind='url', scheme=scheme, netloc=netloc, ncls=ncls, path=path, query=query, pairs=pairs,
                  qcls=qcls, frag=frag, fcls=fcls, allow_fragments=af, default_scheme=dsch, af_mode='kw'),
             'url/grid')
    ctx.exhaustive['URL grid scheme x netloc x path x query x fragment x allow_fragments x default scheme'] = True
    # queries with very many fields (no limit on their number is documented): last / all values still come out right
    for nf in (999, 1000, 1001, 5000):
        pairs = [['k%d' % (j % 700), 'v%d' % j] for j in range(nf)]
        query = '&'.join('%s=%s' % (k, v) for k, v in pairs)
        emit(dict(kind='url', scheme='http', netloc='example.com', ncls='name', path='/p', query=query, pairs=pairs,
                  qcls='pairs-many-fields', frag=None, fcls='none', allow_fragments=True, default_scheme=None,
                  af_mode='kw'), 'url/many-fields')
    for u in ILL_FORMED_URLS:
        for af in (True, False):
            emit(dict(kind='url', scheme='', netloc=None, path=u, query=None, frag=None, pairs=None,
                      allow_fragments=af, default_scheme=None, wellformed=False), 'url/ill-formed')
    for ru, span in blocks('urls', ctx.pick(90000, 6000000)):
        for i in span:
            take(random_url_case(ru, i), 'url/random')


LEVEL_TEXT = ('Exploration with constructive oracles: EUI-64 inputs are composed from (address int, prefix length, '
              'MAC int, spellings) and the expected address is integer bit arithmetic; host:port texts are composed '
              'from (host, port, default) so the expected pair is the components; URLs are composed from components '
              'and compared field-for-field with urllib.parse, params() with the generator\'s decoded pairs. Every '
              'single-bit MAC pattern, both ends of the port range (whole range in the thorough tier) and a URL '
              'component grid are enumerated; the rest is seeded sampling with quotas per class.')
LEVEL_NOTE = ('Trusted: Python int arithmetic, ipaddress only to render compressed spellings, urllib.parse as the '
              'reference named by the statement. DONT-CARE (only "raises nothing but ValueError/TypeError"): '
              'prefixes longer than /64 with non-zero low 64 bits, IPv4 networks and shorthand, netaddr\'s lenient '
              'MAC/prefix spellings, EUI-64 or int given as MAC, blank-valued query fields, ill-formed and bytes URLs, '
              'scope ids outside 1..15 characters.')
TECHNIQUE = 'reference-model monitor (integer bit arithmetic, component round-trip, stdlib urllib.parse) over constructive generators'
