"""C07 virtual_size equals the disk size the image declares.

Reference-model monitor: the generator wrote the size into the layout, so the
expected value is known by construction.  virtual_size is read after every
chunk (every visited prefix) and after finish():
   position <  lo  => 0          (lo = end of the bytes that carry the size)
   position >= hi  => declared   (hi = end of the inspector's capture region / dependent structure)
   in between      => 0 or declared, nothing else
Streams that never contain the size-carrying structure answer 0 throughout, without raising.
"""
from vlib import imagecases as ic
from vlib import imagegen as ig
from vlib import streamlab as sl

PROPERTY = 'C07'
LEVEL = 'exploration'
FI = 'oslo_utils.imageutils.format_inspector'
ANCHORS = [(FI, 'QcowInspector.region_complete'), (FI, 'QcowInspector.virtual_size'),
           (FI, 'VHDInspector.virtual_size'), (FI, 'VHDXInspector.virtual_size'),
           (FI, 'VHDXInspector._find_meta_region'), (FI, 'VHDXInspector._find_meta_entry'),
           (FI, 'VMDKInspector.virtual_size'), (FI, 'VDIInspector.virtual_size'),
           (FI, 'ISOInspector.virtual_size'), (FI, 'LUKSInspector.header_items'),
           (FI, 'LUKSInspector.virtual_size'), (FI, 'FileInspector.virtual_size')]
RULE = ('well-formed images of ten formats built from layouts with the declared size drawn from boundary pools over '
        'the field width (0, 1, 2^k, 2^k+-1, 2^32+-1, 2^63, 2^64-1, random) x admissible layouts (VHDX padding '
        'entries / region placement / item offsets, VMDK descriptor lengths, ISO block sizes) x chunk schedules; '
        'virtual_size sampled after every chunk. Also streams without the size structure (truncated before it, VMDK '
        'text descriptors, non-primary ISO descriptors). non-trivial = declared size != 0 or a no-structure stream; '
        'distinct by (stream digest, schedule digest)')
REQUIRED_CLAUSES = ['under-debug-logging', 'vhdx-metadata-region-beyond-4GiB', 'under-warnings-as-errors', 'accessor-results-owned-by-caller', 'size-under-carrier-and-constructor-options', 'final-size', 'prefix-before-lo-is-0', 'prefix-after-hi-is-declared', 'prefix-between-0-or-declared',
                    'no-structure-stays-0', 'wrapper-final-size']
ASSUMPTIONS = ['the generator writes layouts from the public format descriptions (no qemu-img available to cross-check)']
INTERPRETER_FLAGS = [[], ['-O'], ['-X', 'dev'], ['-bb']]
SHARDS = {'quick': 8, 'thorough': 16}
MIN_DISTINCT = {'quick': 1500, 'thorough': 20000}
LEVEL_TEXT = ('Exploration with a constructive oracle: the declared size is known because the generator wrote it; '
              'it is compared at every visited prefix (two thresholds per format) and at the end, across boundary-'
              'targeted chunk schedules and size pools covering each field width.')
LEVEL_NOTE = ('Trusted: the layout generators (vlib/imagegen.py). Well-formedness rests on the layout comments of the '
              'module and the public specs; malformed images are out of scope of this property.')
TECHNIQUE = 'reference-model monitor (constructive ground truth) sampled after every eat_chunk over boundary-targeted schedules'

SIX = ('qcow2', 'vhd', 'vhdx', 'vmdk', 'vdi', 'iso')


def eval_case(ctx, case):
    F = sl.fi()
    spec = case['spec']
    data, truth = ig.build(spec)
    name = ig.INSPECTOR_OF[spec['gen']]
    cls = F.ALL_FORMATS[name]
    expect = case['expect']          # 'declared' | 'zero'
    declared = truth['size'] if expect == 'declared' else 0
    lo, hi = truth['lo'], truth['hi']
    n = len(data)
    if case.get('stream_length'):
        declared = n            # (a GPT disk whose boot code holds the two FAT-looking bytes: see run())
    for sched in case['schedules']:
        klass, cuts = sched[:2]
        opt = sched[2] if len(sched) > 2 else {}
        state = {'bad': None, 'evals': [0, 0, 0, 0]}

        def cb(insp, pos):
            try:
                v = insp.virtual_size
            except BaseException as e:  # noqa
                v = 'EXC:' + type(e).__name__
            if expect == 'zero':
                state['evals'][3] += 1
                if v != 0:
                    state['bad'] = state['bad'] or ('no-structure-stays-0', pos, v)
                return
            if name not in SIX:
                return
            if isinstance(v, str):
                state['bad'] = state['bad'] or ('virtual_size-raised', pos, v)
            elif pos < lo:
                state['evals'][0] += 1
                if v != 0:
                    state['bad'] = state['bad'] or ('prefix-before-lo-is-0', pos, v)
            elif pos >= hi:
                state['evals'][1] += 1
                if v != declared:
                    state['bad'] = state['bad'] or ('prefix-after-hi-is-declared', pos, v)
            else:
                state['evals'][2] += 1
                if v != 0 and v != declared:
                    state['bad'] = state['bad'] or ('prefix-between-0-or-declared', pos, v)
        res = sl.feed(cls, data, cuts, monitor=False, per_chunk=cb, carrier=opt.get('carrier', 'bytes'),
                      ctor_kw={'tracing': True} if opt.get('tracing') else None, clone_at=opt.get('clone_at'))
        if opt:
            ctx.clause('size-under-carrier-and-constructor-options')
        ctx.case((spec['gen'], data, tuple(cuts), tuple(sorted(opt.items()))), nontrivial=(declared != 0 or expect == 'zero'))
        ctx.h('format x schedule class', '%s/%s' % (spec['gen'], klass.split('-')[0]))
        ctx.clause('prefix-before-lo-is-0', state['evals'][0])
        ctx.clause('prefix-after-hi-is-declared', state['evals'][1])
        ctx.clause('prefix-between-0-or-declared', state['evals'][2])
        ctx.clause('no-structure-stays-0', state['evals'][3])
        insp = res['inspector']
        try:
            final = insp.virtual_size
        except BaseException as e:  # noqa
            final = 'EXC:' + type(e).__name__
        ctx.clause('final-size')
        detail_case = dict(case, failing=[klass, cuts, opt])
        if state['bad']:
            ctx.fail(state['bad'][0], detail_case, {'pos': state['bad'][1], 'got': state['bad'][2],
                                                     'declared': declared, 'lo': lo, 'hi': hi, 'format': spec['gen']})
        if not res['raised'] and final == declared:
            # what the inspector's read-only accessors (properties) hand out belongs to the caller: editing a returned
            # dict / list in place does not change the size reported afterwards
            edited = []
            for attr in dir(type(insp)):
                if attr.startswith('_') or not isinstance(getattr(type(insp), attr, None), property):
                    continue
                try:
                    v = getattr(insp, attr)
                except BaseException:  # noqa
                    continue
                if isinstance(v, dict) and v:
                    for k in list(v):
                        v[k] = (v[k] * 512 + 1) if isinstance(v[k], int) and not isinstance(v[k], bool) else None
                    edited.append(attr)
                elif isinstance(v, list) and v:
                    del v[:]
                    edited.append(attr)
            if edited:
                ctx.clause('accessor-results-owned-by-caller')
                try:
                    final2 = insp.virtual_size
                except BaseException as e:  # noqa
                    final2 = 'EXC:' + type(e).__name__
                if final2 != declared:
                    ctx.fail('accessor-results-owned-by-caller', detail_case,
                             {'edited_in_place': edited, 'virtual_size_before': final, 'virtual_size_after': final2})
        if res['raised']:
            ctx.fail('eat_chunk-raised-on-wellformed', detail_case, {'raised': res['raised']})
        elif final != declared:
            ctx.fail('final-size' if expect == 'declared' else 'no-structure-stays-0', detail_case,
                     {'got': final, 'declared': declared, 'format': spec['gen'], 'schedule': klass})
    if case.get('wrapper') and expect == 'declared' and ig.sigs(data) <= {name}:
        plain = [sc for sc in case['schedules'] if len(sc) == 2]
        klass, cuts = plain[-1][:2]
        # the same stream through InspectWrapper: plain, with the matching expected_format given, and from a source
        # that returns short reads; the size reported by the selected inspector is the declared one every time
        for how, kw in (('plain', {}), ('expected_format', {'expected': name}), ('short-reads', {'short_reads': True}),
                        ('expected_format+short-reads', {'expected': name, 'short_reads': True}),
                        ('source-error-then-retry', {'source_faults': [1 + (n + len(cuts)) % (len(cuts) + 1)]}),
                        ('first-read-fails-then-retry', {'source_faults': [1]})):
            res = sl.feed_wrapper(data, cuts, monitor=False, **kw)
            ctx.clause('wrapper-final-size')
            ctx.h('wrapper mode x format', '%s/%s' % (how, spec['gen']))
            got = None
            try:
                if res['exc'] is not None:
                    raise res['exc']
                f = res['wrapper'].format
                got = (str(f), f.virtual_size)
            except BaseException as e:  # noqa
                got = 'EXC:' + type(e).__name__
            if got != (name, declared):
                ctx.fail('wrapper-final-size', dict(case, failing=[klass, cuts], wrapper_mode=how),
                         {'got': got, 'want': [name, declared], 'mode': how})


def eval_far(ctx, case):
    """A VHDX whose metadata region lies beyond 4 GiB (every offset field of the format is 64 bits wide): the stream is
    presented as head + zero chunks (one reused 16 MiB bytes object) + metadata region, never held in memory as a whole."""
    import struct
    F = sl.fi()
    small = 1024 * 1024
    spec = {'gen': 'vhdx', 'params': {'meta_off': small, 'tail': 4096, 'size': case['size'], 'n_pad_meta': case.get('n_pad_meta', 0)}}
    data, truth = ig.build(spec)
    head, tail = bytearray(data[:small]), data[small:]
    big = case['meta_off']
    needle, n = struct.pack('<Q', small), 0
    i = head.find(needle, 192 * 1024)
    while i >= 0:
        head[i:i + 8] = struct.pack('<Q', big)
        n += 1
        i = head.find(needle, i + 8)
    if n == 0:
        ctx.inconclusive_because('far-metadata case: region table offset field not found in the generated image')
        return
    insp = F.ALL_FORMATS['vhdx']()
    zero = bytes(16 * 1024 * 1024)
    raised = None
    try:
        for a in range(0, len(head), case['chunk']):
            insp.eat_chunk(bytes(head[a:a + case['chunk']]))
        left = big - len(head)
        while left > 0:
            k = min(left, len(zero))
            insp.eat_chunk(zero if k == len(zero) else zero[:k])
            left -= k
        for a in range(0, len(tail), case['chunk']):
            insp.eat_chunk(tail[a:a + case['chunk']])
        insp.finish()
        got = insp.virtual_size
    except BaseException as e:  # noqa
        raised, got = e, None
    ctx.case(('far', big, case['size'], case['chunk']))
    ctx.clause('vhdx-metadata-region-beyond-4GiB')
    if raised is not None or got != case['size']:
        ctx.fail('vhdx-metadata-region-beyond-4GiB', case, {'got': got, 'declared': case['size'], 'exc': raised,
                                                             'metadata_region_offset': big})


def _dispatch(ctx, case):
    if case.get('kind') == 'far':
        return eval_far(ctx, case)
    return eval_case(ctx, case)


from vlib import envmodes  # noqa: E402
evaluate = envmodes.with_modes(_dispatch, warn=lambda case: case.get('kind') != 'far', share_warn=4,
                               debug=lambda case: case.get('kind') != 'far')


def no_structure_specs(rng):
    """Streams that never contain the size-carrying structure."""
    out = []
    for fmt in ('qcow2', 'vhd', 'vdi', 'iso', 'vmdk', 'vhdx'):
        spec = ic.wellformed(rng, fmt)
        data, truth = ig.build(spec)
        if truth['lo'] > 1:
            cut = rng.choice([0, 1, truth['lo'] - 1, rng.randrange(0, truth['lo'])])
            s = dict(spec)
            s['mut'] = [['trunc', cut]]
            out.append(s)
    # VMDK text descriptors declaring sparse types (no sparse header at all)
    for ctype in ('monolithicSparse', 'streamOptimized', 'monolithicFlat', 'vmfs'):
        out.append({'gen': 'vmdk_text', 'params': {'ctype': ctype, 'total': rng.choice([None, 100, 700, 5000])}})
    # ISO with a non-primary descriptor type
    for dtype in (0, 2, 3, 255):
        out.append({'gen': 'iso', 'params': {'dtype': dtype, 'blocks': rng.getrandbits(32) | 1, 'bs': 2048}})
    return out


def run(ctx):
    rng = ctx.rng('sizes')
    idx = 0
    # directed: design-time witnesses D1 (giant chunk) and D7 (cut just after the item start), D3 (text descriptor)
    directed = [
        ({'gen': 'vhdx', 'params': {'size': 0xaa11223344556677, 'meta_off': 2 * 1024 * 1024, 'item_off': 0x10000, 'tail': 5000}},
         'declared', [['giant', []]] + [['cut-after-item-start+%d' % d, [2 * 1024 * 1024 + 0x10000 + d]] for d in range(0, 9)] +
         [['two-cuts', [2 * 1024 * 1024, 2 * 1024 * 1024 + 0x10000 + 3]], ['fixed-1MiB', sl.fixed(2 * 1024 * 1024 + 0x10000 + 5008, 1 << 20)]]),
        ({'gen': 'vmdk_text', 'params': {'ctype': 'monolithicSparse'}}, 'zero',
         [['giant', []], ['fixed-1', 'ALL1'], ['fixed-64', 'F64'], ['fixed-512', 'F512']]),
    ]
    if ctx.shard == 0:
        for spec, expect, scheds in directed:
            data, _t = ig.build(spec)
            scheds = [[k, (list(range(1, len(data))) if c == 'ALL1' else sl.fixed(len(data), int(c[1:])) if isinstance(c, str) else c)]
                      for k, c in scheds]
            evaluate(ctx, {"spec": spec, "expect": expect, "schedules": scheds, "wrapper": False})
    n_images = ctx.pick(1400, 20000)
    nsched = ctx.pick(6, 14)
    fmts = ['qcow2', 'vhd', 'vdi', 'iso', 'vmdk', 'vhdx', 'vhdx', 'luks', 'gpt', 'mbr', 'raw']
    for i in range(n_images):
        idx += 1
        fmt = fmts[i % len(fmts)]
        spec = ic.wellformed(rng, fmt, small=ctx.quick or rng.random() < 0.85)
        if fmt == 'iso':
            spec['params']['dtype'] = 1
        seed_for_case = rng.getrandbits(48)
        if not ctx.mine(idx):
            continue
        crng = ctx.rng('case-%d' % seed_for_case)
        data, truth = ig.build(spec)
        fat_gpt = fmt == 'gpt' and spec['params'].get('fat') and truth['size'] is not None
        if fat_gpt:
            # a well-formed GPT disk whose free-form boot code happens to hold the byte pair of a FAT boot record: the
            # detector calls it raw rather than gpt - either way the size is the stream length, whichever of the two
            # inspectors is asked
            ctx.h('gpt disk with the FAT byte pair in its boot code', 'asked directly')
        elif not truth['wellformed'] or truth['size'] is None:
            ctx.h('skipped (generator says not well-formed)', fmt)
            continue
        bounds = list(truth['bounds']) + [truth['lo'], truth['hi']]
        scheds = [[k, c] for k, c in sl.schedules(crng, len(data), bounds, nsched, max_chunks=ctx.pick(2500, 20000))]
        if fmt in ('vhdx', 'vmdk', 'iso', 'qcow2') and truth['lo'] < len(data) + 50:
            scheds.append(['window-lo-hi', sl.window_cuts(len(data), [truth['lo'], truth['hi']], 12, coarse=1 << 20)])
        small = [sc for sc in scheds if len(sc[1]) <= 3000]
        for carrier in ('bytearray', 'memoryview'):
            k, c = crng.choice(small)
            scheds.append([k + '+' + carrier, c, {'carrier': carrier}])
        if crng.random() < 0.5:
            k, c = crng.choice(small)
            scheds.append([k + '+tracing', c, {'tracing': True}])
        k, c = crng.choice(small)
        scheds.append([k + '+deepcopy', c, {'clone_at': crng.choice([0, 0, len(c) // 2, len(c), crng.randrange(len(c) + 1)])}])
        case = {'spec': spec, 'expect': 'declared', 'schedules': scheds, 'wrapper': crng.random() < 0.3}
        if fat_gpt:
            case['stream_length'] = True
            case['wrapper'] = False
        ctx.h('declared size class', size_class(truth['size']))
        if fmt == 'vhdx':
            ctx.h('vhdx layout', 'pad_meta=%s pad_region=%s' % (bucket(spec['params']['n_pad_meta']),
                                                                 bucket(spec['params']['n_pad_region'])))
        ctx.sample('wellformed/%s' % fmt, {'spec': spec, 'declared': truth['size'], 'lo': truth['lo'], 'hi': truth['hi'],
                                            'schedule_classes': [s[0] for s in scheds]})
        evaluate(ctx, case)
    for k, (off, size) in enumerate([((4 << 30) + (1 << 20), 0x123456789a), ((4 << 30) + (5 << 20), 1 << 40), ((8 << 30) + (3 << 20), 77777777)]):
        idx += 1
        if (k == 0 or not ctx.quick) and ctx.mine(idx):
            evaluate(ctx, {'kind': 'far', 'meta_off': off, 'size': size, 'chunk': 65536})
    rng2 = ctx.rng('nostructure')
    for rep in range(ctx.pick(12, 300)):
        for spec in no_structure_specs(rng2):
            idx += 1
            seed_for_case = rng2.getrandbits(48)
            if not ctx.mine(idx):
                continue
            crng = ctx.rng('ns-%d' % seed_for_case)
            data, truth = ig.build(spec)
            scheds = [[k, c] for k, c in sl.schedules(crng, len(data), truth['bounds'] + [64, 512], 5, max_chunks=3000)]
            ctx.sample('no-structure/%s' % spec['gen'], {'spec': spec})
            ctx.h('no-structure class', spec['gen'] + ('/trunc' if spec.get('mut') else ''))
            evaluate(ctx, {"spec": spec, "expect": "zero", "schedules": scheds, "wrapper": False})


def bucket(n):
    return '0' if n == 0 else '1-9' if n < 10 else '10-999' if n < 1000 else '>=1000'


def size_class(v):
    if v == 0:
        return '0'
    if v == 1:
        return '1'
    if v & (v - 1) == 0:
        return '2^k'
    if (v + 1) & v == 0:
        return '2^k-1'
    if v >= 1 << 63:
        return '>=2^63'
    if v >= 1 << 32:
        return '>=2^32'
    return 'other'
