"""C06 InspectWrapper is a transparent pipe that isolates inspector faults.

Offline checker over a recorded event log.  Events:
  ('src', k, chunk)           the source produced its k-th chunk
  ('ret', k, chunk)           the wrapper returned a chunk to the reader
  ('feed', name, i, k)        inspector `name` received its i-th eat_chunk call carrying source chunk k
  ('raise', name, i, exc)     that call raised exc (injected at the boundary, injected at a line inside
                              the inspector's own code, or raised naturally by the parser)
  ('state', name, k, complete, format_match)   snapshot of the expected format's inspector after a feed
  ('reader-exc', exc)         an exception reached the reader
Rules
  T1 conservation: returned chunks == produced chunks, same order, none dropped/duplicated/altered
  T2 never-after: no feed event for an inspector after its first raise
  T3 exactly-once: every non-errored inspector saw every produced chunk once, in order
  T4 isolation: without an expected format (or for faults in other inspectors) nothing reaches the reader
  T5 cut-off: with expected format X the reader gets X's own exception object at the chunk where X raised,
     or ImageFormatError at the first chunk after which X is complete and not matching; the source is not
     asked for anything beyond that chunk.
"""
import struct
import sys
import types

from vlib import imagegen as ig
from vlib import streamlab as sl

PROPERTY = 'C06'
LEVEL = 'fault_enumeration'
FI = 'oslo_utils.imageutils.format_inspector'
ANCHORS = [(FI, 'InspectWrapper._process_chunk'), (FI, 'InspectWrapper.read'), (FI, 'InspectWrapper.__next__'),
           (FI, 'InspectWrapper.close'), (FI, 'InspectWrapper._finish')]
RULE = ('source streams (valid images, zeros, random, crafted parser-breaking content) x read-size sequences x file-like '
        'and iterator sources x expected_format (each name, none, unknown) x allowed_formats x fault plans: every single '
        'boundary fault (inspector x chunk index x exception type) exhaustively, multiple faults sampled, line-level '
        'failpoints inside the inspectors\' own code (sys.monitoring), natural parser faults. non-trivial = plan with '
        'at least one fault or an expected format; distinct by (stream, schedule, source kind, expected, allowed, plan)')
REQUIRED_CLAUSES = ['under-debug-logging', 'T7-read-size-handed-to-the-source-unchanged', 'T8-failed-inspectors-stay-unfed-when-the-reader-goes-on', 'T6-finish-only-at-end-of-stream', 'source-error-then-retry', 'expected_format-given-as-str-subclass', 'empty-chunk-midstream', 'T1-conservation', 'T2-never-fed-after-raise', 'T3-exactly-once-in-order', 'T4-isolation',
                    'T5-own-exception-propagates', 'T5-mismatch-abort', 'T5-no-read-beyond-abort', 'line-failpoint-fired',
                    'natural-fault-observed']
ASSUMPTIONS = ['only Exception subclasses are injected (the wrapper does not promise to stop BaseException)',
               'instance-level wrappers around the real eat_chunk record feeds; the real method still runs underneath']
INTERPRETER_FLAGS = [[], ['-O'], ['-X', 'dev'], ['-bb']]
SHARDS = {'quick': 8, 'thorough': 16}
MIN_DISTINCT = {'quick': 5000, 'thorough': 50000}
LEVEL_TEXT = ('Fault enumeration: every single boundary fault placement (10 inspectors x chunk index <= 12 x exception pool '
              'x expected format x source kind) is enumerated; multi-fault plans, line-level failpoints that leave an '
              'inspector half-updated, and natural parser faults are sampled. An offline checker decides conservation, '
              'never-after, exactly-once and cut-off rules over the recorded event log.')
LEVEL_NOTE = ('Trusted: the recording source and the eat_chunk instance wrappers (harness). BaseException faults are out '
              'of scope. Line-level failpoints are armed only while an inspector\'s eat_chunk runs.')
TECHNIQUE = 'offline event-log checker (conservation, never-after, exactly-once, cut-off) + boundary and line-level failpoints'

NAMES = ['raw', 'qcow2', 'vhd', 'vhdx', 'vmdk', 'vdi', 'qed', 'iso', 'gpt', 'luks']
EXC_POOL = ['RecursionError', 'ValueError', 'RuntimeError', 'KeyError', 'struct.error', 'MemoryError', 'ImageFormatError', 'Custom',
            'UnicodeDecodeError', 'Unprintable', 'NoArgs']


class Injected(Exception):
    pass


class SourceHiccup(OSError):
    """Raised by the harness's SOURCE (not by an inspector): the data is still there on the next read."""


class Unprintable(Exception):
    """A parser error whose own rendering fails: the isolation must not depend on being able to print the fault."""

    def __str__(self):
        raise RuntimeError('__str__ of the injected exception raised')
    __repr__ = __str__


class NoArgs(Exception):
    def __init__(self, tag):
        super().__init__()          # str(e) == ''


def make_exc(name, tag):
    F = sl.fi()
    if name == 'Unprintable':
        return Unprintable(tag)
    if name == 'NoArgs':
        return NoArgs(tag)
    if name == 'struct.error':
        return struct.error(tag)
    if name == 'ImageFormatError':
        return F.ImageFormatError(tag)
    if name == 'Custom':
        return Injected(tag)
    if name == 'UnicodeDecodeError':
        return UnicodeDecodeError('ascii', b'\xff', 0, 1, tag)
    return getattr(__import__('builtins'), name)(tag)


# ----------------------------------------------------------------------
# line-level failpoints
# ----------------------------------------------------------------------
_LP = {'installed': False, 'armed': False, 'n': 0, 'k': None, 'fired': None}
LINE_TOOL = 3


def _line_cb(code, line):
    if not _LP['armed']:
        return None
    _LP['n'] += 1
    if _LP['n'] == _LP['k']:
        _LP['fired'] = '%s:%d' % (code.co_qualname, line)
        raise Injected('line-failpoint %s' % _LP['fired'])
    return None


def install_line_failpoints():
    if _LP['installed']:
        return
    F = sl.fi()
    mon = sys.monitoring
    try:
        mon.use_tool_id(LINE_TOOL, 'verif-failpoints')
    except ValueError:
        pass
    mon.register_callback(LINE_TOOL, mon.events.LINE, _line_cb)
    codes = set()
    for cls in [F.CaptureRegion, F.EndCaptureRegion, F.FileInspector] + list(F.ALL_FORMATS.values()):
        for v in cls.__dict__.values():
            f = v.fget if isinstance(v, property) else v.__func__ if isinstance(v, (staticmethod, classmethod)) else v
            if isinstance(f, types.FunctionType):
                codes.add(f.__code__)
    for c in codes:
        mon.set_local_events(LINE_TOOL, c, mon.events.LINE)
    _LP['installed'] = True


# ----------------------------------------------------------------------
# recording run
# ----------------------------------------------------------------------
def content_of(case):
    if 'data' in case:
        return bytes(case['data'])
    data, _t = ig.build(case['spec'])
    return data


def run_recorded(case):
    F = sl.fi()
    data = content_of(case)
    cuts = case['cuts']
    log = []
    produced = []
    chunks = [data[a:b] for a, b in sl.chunks_of(len(data), cuts)]
    for pos in sorted(case.get('empties') or [], reverse=True):
        chunks.insert(min(pos, len(chunks)), b'')          # an empty chunk in the middle of the stream
    if case['source'] == 'iter':
        def gen():
            for c in chunks:
                log.append(('src', len(produced), c))
                produced.append(c)
                yield c
        src = gen()
    elif case['source'] == 'iterobj':
        class IterSrc:
            # an iterator OBJECT (not a generator): after raising once it goes on where it was (a chunk iterator over
            # a connection that retries)
            def __init__(self):
                self.i = 0
                self.ncalls = 0

            def __iter__(self):
                return self

            def __next__(self):
                self.ncalls += 1
                if self.ncalls == case.get('source_fault_at'):
                    raise SourceHiccup('source iterator failed once')
                if self.i >= len(chunks):
                    raise StopIteration
                c = chunks[self.i]
                self.i += 1
                log.append(('src', len(produced), c))
                produced.append(c)
                return c
        src = IterSrc()
    else:
        class Src:
            def __init__(self):
                self.pos = 0
                self.closed = False

            def read(self, n=-1):
                self.ncalls = getattr(self, 'ncalls', 0) + 1
                if self.ncalls == case.get('source_fault_at'):
                    # the source itself reports a transient error once, consuming nothing; the reader will retry
                    raise SourceHiccup('source read failed once')
                c = data[self.pos:] if n is None or n < 0 else data[self.pos:self.pos + n]
                self.pos += len(c)
                log.append(('src', len(produced), c, n))
                produced.append(c)
                return c

            def close(self):
                self.closed = True
        src = Src()
    exp_arg = case.get('expected')
    if exp_arg is not None and case.get('expected_style') == 'strenum':
        import enum
        # a member of class DiskFormat(str, Enum): a str equal to the format name, whose str() is 'DiskFormat.QCOW2'
        exp_arg = enum.Enum('DiskFormat', {exp_arg.upper(): exp_arg}, type=str)[exp_arg.upper()]
    elif exp_arg is not None and case.get('expected_style') == 'strsub':
        exp_arg = type('FormatName', (str,), {})(exp_arg)
    w = F.InspectWrapper(src, expected_format=exp_arg, allowed_formats=case.get('allowed'))
    plan = {k: v for k, v in (case.get('plan') or {}).items()}
    line_k = case.get('line_fault')
    if line_k:
        install_line_failpoints()
        _LP.update(n=0, k=line_k, fired=None)
    calls = {}
    expected = case.get('expected')

    def hook(insp):
        orig = insp.eat_chunk
        name = insp.NAME

        def eat(chunk):
            i = calls.get(name, 0)
            calls[name] = i + 1
            log.append(('feed', name, i, len(produced) - 1, chunk))
            p = plan.get(name)
            if p is not None and p[0] == i:
                e = make_exc(p[1], 'injected into %s at call %d' % (name, i))
                log.append(('raise', name, i, e))
                raise e
            armed = bool(line_k) and (case.get('line_target') in (None, name))
            if armed:
                _LP['armed'] = True
            try:
                try:
                    r = orig(chunk)
                finally:
                    _LP['armed'] = False
            except Exception as e:
                log.append(('raise', name, i, e))
                raise
            if name == expected:
                try:
                    log.append(('state', name, len(produced) - 1, bool(insp.complete), bool(insp.format_match)))
                except Exception as e:  # noqa
                    log.append(('state', name, len(produced) - 1, None, None))
            return r
        insp.eat_chunk = eat
        orig_finish = insp.finish

        def fin():
            log.append(('finish', name, len(produced)))
            return orig_finish()
        insp.finish = fin
    for insp in w._inspectors:
        hook(insp)
    reader_exc = None
    persist_from = None
    sizes = [len(c) for c in chunks] + [1 << 16]           # a size of 0 is a read(0) in mid-stream
    state = {'k': 0, 'si': 0}

    def one_step():
        """One read()/next() by the reader; returns False at the end of the stream."""
        if case['source'] in ('iter', 'iterobj'):
            try:
                try:
                    c = next(w)
                except SourceHiccup:
                    c = next(w)                # the reader retries after the source's own transient error
            except StopIteration:
                return False
        else:
            if state['si'] >= len(sizes):
                return False
            sz = sizes[state['si']]
            state['si'] += 1
            log.append(('ask', state['k'], sz))
            try:
                c = w.read(sz)
            except SourceHiccup:
                c = w.read(sz)              # the reader retries after the source's own transient error
        log.append(('ret', state['k'], c))
        state['k'] += 1
        return True
    try:
        while one_step():
            pass
    except Exception as e:
        reader_exc = e
        log.append(('reader-exc', e))
    if reader_exc is not None and case.get('persist'):
        # a reader that does not give up at the first error: it asks again a few times.  What it gets is its own business
        # (the property says the stream is cut off); what the inspectors that had failed before get is not - nothing.
        persist_from = len(log)
        for _ in range(case['persist']):
            try:
                if not one_step():
                    break
            except Exception as e:  # noqa
                log.append(('reader-exc', e))
    close_exc = None
    try:
        w.close()
    except Exception as e:
        close_exc = e
    _LP['armed'] = False
    return dict(log=log, wrapper=w, reader_exc=reader_exc, close_exc=close_exc, nchunks=len(chunks), persist_from=persist_from,
                inspectors=sorted(i.NAME for i in w._inspectors), fired=_LP['fired'] if line_k else None,
                errored=sorted(i.NAME for i in w._errored_inspectors))


# ----------------------------------------------------------------------
# offline checker
# ----------------------------------------------------------------------
def check_log(rec, case):
    """Returns (list of (rule, detail), dict of rule -> evaluations)."""
    F = sl.fi()
    full_log = rec['log']
    log = full_log if rec.get('persist_from') is None else full_log[:rec['persist_from']]
    bad = []
    ev = {}

    def count(rule, n=1):
        ev[rule] = ev.get(rule, 0) + n
    if rec.get('persist_from') is not None:
        # T8 the reader went on after the error it got: an inspector other than the expected one that had raised is still
        # never fed again (what the expected format's inspector sees after its own failure is not constrained)
        count('T8-failed-inspectors-stay-unfed-when-the-reader-goes-on')
        raised = set()
        for e in full_log:
            if e[0] == 'raise' and e[1] != case.get('expected'):
                raised.add(e[1])
            elif e[0] == 'feed' and e[1] in raised:
                bad.append(('T8-failed-inspectors-stay-unfed-when-the-reader-goes-on',
                            {'inspector': e[1], 'fed_again_at_its_call': e[2]}))
                break
    src = [e for e in log if e[0] == 'src']
    ret = [e for e in log if e[0] == 'ret']
    expected = case.get('expected')
    reader_exc = rec['reader_exc']
    # T6 the wrapper tells an inspector that the stream is over only when it is: no data is produced by the source after an
    # inspector was finished (a source error followed by a successful retry is not the end of the stream)
    count('T6-finish-only-at-end-of-stream')
    fin_at = [i for i, e in enumerate(log) if e[0] == 'finish']
    if fin_at:
        later = [e for e in log[fin_at[0]:] if e[0] == 'src' and len(e[2]) > 0]
        if later:
            bad.append(('T6-finish-only-at-end-of-stream',
                        {'finished': log[fin_at[0]][1], 'after_source_chunks': log[fin_at[0]][2],
                         'bytes_produced_afterwards': sum(len(e[2]) for e in later)}))
    # T7 a transparent pipe: the size the reader asks for is the size the source is asked for (read(0) is a probe that
    # consumes nothing, not a request for everything)
    asked = None
    for e in log:
        if e[0] == 'ask':
            asked = e[2]
        elif e[0] == 'src' and len(e) > 3 and asked is not None:
            count('T7-read-size-handed-to-the-source-unchanged')
            if e[3] != asked:
                bad.append(('T7-read-size-handed-to-the-source-unchanged',
                            {'reader_asked': asked, 'source_was_asked': e[3], 'source_returned_bytes': len(e[2])}))
                break
    # T1 conservation
    count('T1-conservation')
    for k, r in enumerate(ret):
        if k >= len(src) or r[2] != src[k][2]:
            bad.append(('T1-conservation', {'index': k, 'returned': r[2][:16], 'produced': src[k][2][:16] if k < len(src) else None}))
            break
    if reader_exc is None and len(ret) != len(src):
        bad.append(('T1-conservation', {'returned': len(ret), 'produced': len(src)}))
    if reader_exc is not None and len(ret) != len(src) - 1:
        # the chunk being processed when the abort happened is the only one not returned
        bad.append(('T1-conservation', {'returned': len(ret), 'produced': len(src), 'aborted': True}))
    if reader_exc is None:
        data = content_of(case)
        if b''.join(r[2] for r in ret) != data:
            bad.append(('T1-conservation', {'joined_len': sum(len(r[2]) for r in ret), 'want': len(data)}))
    # per-inspector sequences
    first_raise = {}
    for name in rec['inspectors']:
        feeds = [e for e in log if e[0] == 'feed' and e[1] == name]
        raises = [e for e in log if e[0] == 'raise' and e[1] == name]
        count('T2-never-fed-after-raise')
        if raises:
            first_raise[name] = raises[0]
            ri = raises[0][2]
            if any(f[2] > ri for f in feeds):
                bad.append(('T2-never-fed-after-raise', {'inspector': name, 'raised_at_call': ri,
                                                         'fed_calls': [f[2] for f in feeds][-5:]}))
        # T3: call i carries source chunk i, in order, exactly once
        count('T3-exactly-once-in-order')
        for i, f in enumerate(feeds):
            if f[2] != i or f[3] != i or i >= len(src) or f[4] != src[i][2]:
                bad.append(('T3-exactly-once-in-order', {'inspector': name, 'call': f[2], 'source_chunk': f[3], 'position': i}))
                break
        want = len(src)
        if raises:
            if len(feeds) != raises[0][2] + 1:
                bad.append(('T3-exactly-once-in-order', {'inspector': name, 'feeds': len(feeds), 'raised_at': raises[0][2]}))
        elif reader_exc is not None:
            if len(feeds) not in (want, want - 1):
                bad.append(('T3-exactly-once-in-order', {'inspector': name, 'feeds': len(feeds), 'produced': want, 'aborted': True}))
        elif len(feeds) != want:
            bad.append(('T3-exactly-once-in-order', {'inspector': name, 'feeds': len(feeds), 'produced': want}))
        if raises and name not in rec['errored'] and name != expected:
            bad.append(('errored-set', {'inspector': name}))
    # T4 / T5
    x_raise = first_raise.get(expected) if expected else None
    states = [e for e in log if e[0] == 'state']
    mismatch_at = None
    for s in states:
        if s[3] is True and s[4] is False:
            mismatch_at = s[2]
            break
    if x_raise is not None and (mismatch_at is None or x_raise[2] <= mismatch_at):
        count('T5-own-exception-propagates')
        if reader_exc is not x_raise[3]:
            bad.append(('T5-own-exception-propagates', {'reader_got': reader_exc, 'inspector_raised': x_raise[3]}))
        count('T5-no-read-beyond-abort')
        if len(src) != x_raise[2] + 1:
            bad.append(('T5-no-read-beyond-abort', {'produced': len(src), 'raised_at_chunk': x_raise[2]}))
    elif mismatch_at is not None:
        count('T5-mismatch-abort')
        if not isinstance(reader_exc, F.ImageFormatError):
            bad.append(('T5-mismatch-abort', {'reader_got': reader_exc, 'complete_not_matching_after_chunk': mismatch_at}))
        count('T5-no-read-beyond-abort')
        if len(src) != mismatch_at + 1:
            bad.append(('T5-no-read-beyond-abort', {'produced': len(src), 'mismatch_at_chunk': mismatch_at}))
    else:
        count('T4-isolation')
        if reader_exc is not None:
            bad.append(('T4-isolation', {'reader_got': reader_exc, 'expected_format': expected,
                                         'raised_in': sorted(first_raise)}))
    if rec['close_exc'] is not None:
        bad.append(('close-raised', {'exc': rec['close_exc']}))
    return bad, ev


def _evaluate_no_debug(ctx, case):
    rec = run_recorded(case)
    bad, ev = check_log(rec, case)
    plan = case.get('plan') or {}
    key = (repr(case.get('spec') or case.get('data')), tuple(case['cuts']), case['source'], case.get('expected'),
           tuple(case.get('allowed') or ()), tuple(sorted((k, tuple(v)) for k, v in plan.items())), case.get('line_fault'),
           case.get('line_target'), tuple(case.get('empties') or ()), case.get('expected_style'), case.get('source_fault_at'), case.get('persist'))
    if case.get('source_fault_at'):
        ctx.clause('source-error-then-retry')
    if case.get('expected_style'):
        ctx.clause('expected_format-given-as-str-subclass')
    ctx.case(key, nontrivial=bool(plan) or bool(case.get('expected')) or bool(case.get('line_fault')))
    for rule, n in ev.items():
        ctx.clause(rule, n)
    if case.get('empties'):
        ctx.clause('empty-chunk-midstream')
    if case.get('line_fault'):
        if rec['fired']:
            ctx.clause('line-failpoint-fired')
            ctx.h('line failpoint site', rec['fired'])
    nat = [e for e in rec['log'] if e[0] == 'raise' and not isinstance(e[3], (Injected, Unprintable, NoArgs)) and
           'injected into' not in str(e[3])]
    if nat:
        ctx.clause('natural-fault-observed')
        ctx.h('natural fault', '%s: %s' % (nat[0][1], type(nat[0][3]).__name__))
    ctx.h('expected x outcome', '%s/%s' % ('set' if case.get('expected') else 'none',
                                           type(rec['reader_exc']).__name__ if rec['reader_exc'] else 'clean'))
    for rule, detail in bad[:3]:
        ctx.fail(rule, case, detail)


# ----------------------------------------------------------------------
STREAMS = None


def streams():
    global STREAMS
    if STREAMS is None:
        junk = ig._rand_bytes('c06-junk', 5000)
        bad_vhdx = {'gen': 'vhdx', 'params': {'meta_off': 256 * 1024, 'regi': 0x12345678, 'tail': 100}}
        STREAMS = [
            {'spec': {'gen': 'qcow2', 'params': {'total': 3000}}},
            {'spec': {'gen': 'vmdk', 'params': {'desc_num': 2, 'min_total': 3000}}},
            {'spec': {'gen': 'vmdk', 'params': {'desc_num': 2, 'min_total': 0, 'footer': True}}},
            {'spec': {'gen': 'vmdk', 'params': {'ver': 9, 'desc_num': 2, 'min_total': 3000}}},       # natural: bad version
            {'spec': {'gen': 'vmdk', 'params': {'desc_sec': 7, 'desc_num': 2, 'min_total': 3000}}},  # natural: descriptor location
            {'spec': {'gen': 'gpt', 'params': {'total': 3000}}},
            {'spec': {'gen': 'luks', 'params': {'payload': 2, 'total': 3000}}},
            {'spec': {'gen': 'vhd', 'params': {'total': 3000}}},
            {'spec': {'gen': 'vdi', 'params': {'total': 3000}}},
            {'spec': {'gen': 'qed', 'params': {'total': 3000}}},
            {'spec': {'gen': 'raw', 'params': {'kind': 'zero', 'total': 3000}}},
            {'spec': {'gen': 'raw', 'params': {'kind': 'text', 'total': 3000}}},
            {'data': junk},
            # text for more than the first 512 bytes (what the VMDK inspector takes for a text descriptor), then bytes that
            # do not decode as ASCII - in one chunk when the schedule has no early cut: whatever an inspector makes of it
            {'data': (b'# Disk DescriptorFile\nversion=1\ncreateType="monolithicSparse"\n' + b'# padding line of text\n' * 40)[:700] + b'\xff\xfe caf\xc3\xa9 \x80' * 20 + b'x' * 2000},
            {'data': (b'just some readable text, line after line\n' * 40)[:600] + bytes(range(128, 256)) * 4 + b'y' * 2000},
            {'data': (b'createType="vmfs"\n' + b'RW 1 FLAT "a" 0\n' * 60)[:513] + b'\xe9' + b'z' * 2500},
            {'spec': {'gen': 'iso', 'params': {'total': 36000}}},
            {'spec': bad_vhdx},                                                                       # natural: region signature
            {'spec': {'gen': 'vhdx', 'params': {'meta_off': 256 * 1024, 'region_count': 2048, 'tail': 100}}},
            {'spec': {'gen': 'vhdx', 'params': {'meta_off': 256 * 1024, 'meta_sig': 'metadatx', 'tail': 100}}},
            {'spec': {'gen': 'vhdx', 'params': {'meta_off': 256 * 1024, 'tail': 100}}},
            # every eat_chunk accepts these, but what the inspectors derive from them does not compute: a virtual-disk-size
            # item of 0 / 4 / 16 bytes (VHDX virtual_size), a LUKS header with an absurd payload offset
            {'spec': {'gen': 'vhdx', 'params': {'meta_off': 256 * 1024, 'item_len': 4, 'tail': 100}}},
            {'spec': {'gen': 'vhdx', 'params': {'meta_off': 256 * 1024, 'item_len': 0, 'tail': 100}}},
            {'spec': {'gen': 'vhdx', 'params': {'meta_off': 256 * 1024, 'item_len': 16, 'tail': 100}}},
            {'spec': {'gen': 'luks', 'params': {'payload': (1 << 32) - 1, 'total': 3000}}},
            {'spec': {'gen': 'raw', 'params': {'kind': 'random', 'total': 2 * 1024 * 1024 + 4097, 'seed': 6}}},   # chunks > 1 MiB
        ]
    return STREAMS


def cuts_for(rng, n, k=None):
    if n <= 1:
        return []
    k = k if k is not None else rng.randrange(0, 12)
    if n > 100000:
        base = sorted(rng.sample(range(1, n), min(k, 6)))
        return base
    pool = [1, 17, 64, 100, 512, 513, 592, 700, 1024, 1536, 2048] + [rng.randrange(1, n) for _ in range(6)]
    return sorted(set(c for c in rng.sample(pool, min(k, len(pool))) if 0 < c < n))


def run(ctx):
    idx = 0
    rng = ctx.rng('plans')

    def emit(case, klass):
        nonlocal idx
        idx += 1
        if case.get('expected') in NAMES and idx % 5 in (0, 1):
            case = dict(case, expected_style='strenum' if idx % 5 == 0 else 'strsub')
        if case.get('source') == 'file' and idx % 6 == 3 and not case.get('line_fault'):
            case = dict(case, source_fault_at=1 + (idx // 6) % (len(case['cuts']) + 2))
        if case.get('source') == 'iter' and idx % 6 == 4 and not case.get('line_fault'):
            case = dict(case, source='iterobj', source_fault_at=1 + (idx // 6) % (len(case['cuts']) + 2))
        if idx % 4 == 1 and case.get('expected') in NAMES and not case.get('line_fault'):
            case = dict(case, persist=3)
        if ctx.mine(idx):
            ctx.sample(klass, {k: v for k, v in case.items() if k != 'data'})
            evaluate(ctx, case)

    small = [s for s in streams() if 'data' in s or s['spec']['gen'] not in ('iso', 'vhdx')]
    # ---- (a) single boundary faults, exhaustively: inspector x chunk index x exception x expected x source
    base = small[0]
    fixed_cuts = [64, 100, 512, 600, 700, 1024, 1500, 2000, 2500, 2800, 2900]       # 12 chunks (+ EOF read)
    expected_pool = [None] + NAMES + ['nosuchformat']
    for name in NAMES:
        for ci in range(0, 13):
            for exc in EXC_POOL:
                for expected in expected_pool:
                    for source in ('file', 'iter'):
                        emit(dict(base, cuts=fixed_cuts, source=source, expected=expected, allowed=None,
                                  plan={name: [ci, exc]}), 'single-boundary-fault')
    ctx.exhaustive['single boundary faults: 10 inspectors x 13 chunk indices x exception pool x 12 expected formats x 2 source kinds'] = True
    # ---- single faults on every stream family (sampled chunk index)
    for s in streams():
        n = len(content_of(s))
        for name in NAMES:
            for expected in (None, name, rng.choice(NAMES)):
                cuts = cuts_for(rng, n)
                emit(dict(s, cuts=cuts, source=rng.choice(['file', 'iter']), expected=expected, allowed=None,
                          plan={name: [rng.randrange(0, len(cuts) + 2), rng.choice(EXC_POOL)]}), 'single-fault-any-stream')
    # ---- no faults: expected-format cut-off on every stream x every expected name (natural faults + mismatch abort)
    for s in streams():
        n = len(content_of(s))
        for expected in expected_pool:
            for rep in range(ctx.pick(2, 8)):
                allowed = None if rng.random() < 0.7 else sorted(set(rng.sample(NAMES, rng.randrange(1, 6)) + ([expected] if expected in NAMES and rng.random() < 0.7 else [])))
                cuts = cuts_for(rng, n)
                empties = sorted(rng.sample(range(len(cuts) + 2), rng.randrange(1, 3))) if rng.random() < 0.35 else []
                emit(dict(s, cuts=cuts, source=rng.choice(['file', 'iter']), expected=expected, allowed=allowed,
                          plan={}, empties=empties), 'no-injection')
    # ---- on ONE chunk: a fault in another inspector and a fault in the expected format's inspector, and a reader that
    # reads on after the error (which of the two the wrapper visits first is its own business)
    for expected in NAMES:
        for other in NAMES:
            if other == expected:
                continue
            for ci in (0, 1, 3):
                emit(dict(base, cuts=fixed_cuts, source=('file', 'iter')[(ci + len(other)) % 2], expected=expected, allowed=None,
                          plan={other: [ci, EXC_POOL[(ci + len(expected)) % len(EXC_POOL)]], expected: [ci, 'ValueError']},
                          persist=3), 'same-chunk-fault-with-expected')
    # ---- multiple faults, sampled
    for i in range(ctx.pick(8000, 1000000)):
        s = rng.choice(small if rng.random() < 0.9 else streams())
        n = len(content_of(s))
        cuts = cuts_for(rng, n)
        plan = {}
        for _ in range(rng.choice([2, 2, 3, 4, 10])):
            plan[rng.choice(NAMES)] = [rng.randrange(0, len(cuts) + 2), rng.choice(EXC_POOL)]
        allowed = None if rng.random() < 0.7 else sorted(rng.sample(NAMES, rng.randrange(1, 8)))
        empties = sorted(rng.sample(range(len(cuts) + 2), rng.randrange(1, 3))) if rng.random() < 0.25 else []
        emit(dict(s, cuts=cuts, source=rng.choice(['file', 'iter']), expected=rng.choice(expected_pool), allowed=allowed,
                  plan=plan, empties=empties), 'multi-fault')
    # ---- (b) line-level failpoints inside the inspectors' own code
    kmax = ctx.pick(120, 400)
    for s in streams():
        if 'spec' in s and s['spec']['gen'] in ('iso',):
            continue
        n = len(content_of(s))
        for target in NAMES:
            if target == 'raw':
                continue
            ks = list(range(1, kmax + 1, ctx.pick(7, 1)))
            for k in ks:
                if ctx.quick and (k + len(target)) % 3:
                    continue
                emit(dict(s, cuts=cuts_for(rng, n, k=4), source='file', expected=rng.choice([None, None, target, rng.choice(NAMES)]),
                          allowed=None, plan={}, line_fault=k, line_target=target), 'line-failpoint')


def _debug_ok(case):
    return True


# a third of the cases runs with the library's loggers at DEBUG and a handler that renders every record (debug=True in a
# service's configuration); what the inspectors conclude may not depend on it
from vlib import envmodes as _envmodes_dbg  # noqa: E402
evaluate = _envmodes_dbg.with_modes(_evaluate_no_debug, debug=_debug_ok)
