"""C11 address validators accept exactly well-formed values and never raise.

Three-valued oracle (MUST-ACCEPT / MUST-REJECT / DONT-CARE) per validator.

Two independent sources of truth, neither of which calls the code under test:

* a *constructive* grammar model: every text is assembled from components
  (octet tokens, hextet tokens, '::' position, scope id, prefix token, MAC
  groups, separator, decorations), so its class is known from the components;
* the standard library (`ipaddress.IPv4Address`, `IPv6Address`,
  `ip_network(strict=False)`) plus trivial splitting, usable for *any* string
  (random printable strings, mutated grammar strings).

Where both give a definite class they must agree; a disagreement between the
two oracles is recorded ('oracle self-check') and the case is downgraded to
DONT-CARE - it is never turned into a verdict about the code.

"Answers rather than raises" is asserted for every generated str on every
validator, DONT-CARE included.
"""
import ipaddress
import re

PROPERTY = 'C11'
LEVEL = 'exploration'
ANCHORS = [('oslo_utils.netutils', 'is_valid_ipv4'),
           ('oslo_utils.netutils', 'is_valid_ipv6'),
           ('oslo_utils.netutils', 'is_valid_ip'),
           ('oslo_utils.netutils', 'is_valid_cidr'),
           ('oslo_utils.netutils', 'is_valid_ipv6_cidr'),
           ('oslo_utils.netutils', 'is_valid_mac'),
           ('oslo_utils.netutils', 'is_valid_port'),
           ('oslo_utils.netutils', 'is_valid_icmp_type'),
           ('oslo_utils.netutils', 'is_valid_icmp_code'),
           ('oslo_utils.netutils', '_is_int_in_range')]
RULE = ('directed corpus (documented examples, D6/D8 witnesses) + exhaustive sub-grids (octet -1..300 in each '
        'position; IPv6 group count 0..9 x "::" position x IPv4 tail; scope length 0..17; prefix -1..129 x family '
        'x slash shape; MAC groups 5..7 x separator x case x suffix; integers around each range end as int and '
        'str, whole port range in thorough) + seeded stratified generation per family with quotas per sub-class '
        '+ mutated grammar strings + arbitrary printable/NUL/non-ASCII/very long strings. Every text goes to all '
        'validators. distinct by text (or int value); non-trivial = grammar-family, mutated or range-end case, or '
        'an arbitrary string for which some validator is not MUST-REJECT')
VALIDATORS = ['ipv4', 'ipv4s', 'ipv6', 'ip', 'cidr', 'cidr6', 'mac', 'port', 'icmp_type', 'icmp_code']
FUNC_NAME = {'ipv4': 'is_valid_ipv4', 'ipv4s': 'is_valid_ipv4(strict=True)', 'ipv6': 'is_valid_ipv6',
             'ip': 'is_valid_ip', 'cidr': 'is_valid_cidr', 'cidr6': 'is_valid_ipv6_cidr',
             'mac': 'is_valid_mac', 'port': 'is_valid_port', 'icmp_type': 'is_valid_icmp_type',
             'icmp_code': 'is_valid_icmp_code'}
REQUIRED_CLAUSES = (['equal-valued-arguments-in-any-order', 'valid-calls-after-rejected-calls-answer-as-before', 'under-unlimited-int-digits', 'under-warnings-as-errors', 'concurrent-calls-answer-as-alone', 'documented-keyword-call', 'subclass-of-int-or-str-argument', 'answers-rather-than-raises', 'stdlib-agreement', 'scope-length-limit',
                     'range-end-int', 'range-end-str', 'oracle-self-check'] +
                    ['must-accept:' + FUNC_NAME[v] for v in VALIDATORS] +
                    ['must-reject:' + FUNC_NAME[v] for v in VALIDATORS])
ASSUMPTIONS = [
    'is_valid_ipv4 is exercised in its default mode and with strict=True explicitly (same oracle)',
    'a CIDR is address/prefix in the ip_network(strict=False) sense: host bits may be set (the '
    'repository\'s own tests accept 10.0.0.1/32 and ...:0001/32)',
    'is_valid_mac: the kind is "six two-digit hex octets separated by colons" as its docstring says; other '
    'separators are MUST-REJECT, one-digit groups DONT-CARE',
    'DONT-CARE zones (DESIGN section 8): non-canonical integer spellings reaching int() (ports, ICMP, CIDR '
    'prefix incl. trailing whitespace/newline and non-ASCII digits), dotted/colon netmask prefixes, characters '
    'other than [A-Za-z0-9_.-] inside a scope id, any address with a scope id in the CIDR validators, a bare '
    'IPv6 address given to is_valid_ipv6_cidr, inet_aton spellings (1..3 parts, hex/octal/leading-zero parts, '
    'anything after whitespace) in is_valid_ip and as the address of a CIDR, one-digit MAC groups, every '
    'non-ASCII string',
    'a scope id is over-long above 15 characters (IFNAMSIZ-1), the limit the statement refers to',
]
INTERPRETER_FLAGS = [[], ['-O'], ['-X', 'dev'], ['-bb']]
CONCURRENT = lambda case: case.get('kind') != 'twins' and (True)          # pure functions of their arguments; see vlib/concurrent.py
SHARDS = {'quick': 4, 'thorough': 16}
MIN_DISTINCT = {'quick': 20000, 'thorough': 400000}

# --------------------------------------------------------------------------
# tiny lexical helpers (ASCII only: [0-9] in a str pattern is ASCII)
# --------------------------------------------------------------------------
CANON = re.compile(r'(?:0|[1-9][0-9]*)\Z')
CANON_NEG = re.compile(r'-[1-9][0-9]*\Z')
LEADZ = re.compile(r'0[0-9]+\Z')
HEXNUM = re.compile(r'0[xX][0-9a-fA-F]+\Z')
HEXTET = re.compile(r'[0-9a-fA-F]{1,4}\Z')
PLAIN_SCOPE = re.compile(r'[A-Za-z0-9_.\-]*\Z')
# what inet_aton may take: numbers (dec/hex/octal) and dots, then optionally whitespace + anything
LOOSE_V4 = re.compile(r'[0-9a-fA-FxX.]+(?:[ \t\n\r\f\v][\s\S]*)?\Z')
LOOSE_V4_BARE = re.compile(r'[0-9a-fA-FxX.]+\Z')
INT_SPELLING = re.compile(r'[+-]?[0-9_]+\Z')
PREFIX_ZONE = set('0123456789abcdefABCDEF:._+- \t\n\r\f\v')
HEXDIGITS = set('0123456789abcdefABCDEF')
RANGES = {'port': (0, 65535), 'icmp_type': (0, 255), 'icmp_code': (0, 255)}
CLASS_NAME = {'A': 'MUST-ACCEPT', 'R': 'MUST-REJECT', 'D': 'DONT-CARE'}


def canon_int(s):
    """Value of a canonical decimal; anything longer than 12 digits is just 'huge'."""
    return int(s) if len(s) <= 12 else 10 ** 12


def std_v4(s):
    try:
        ipaddress.IPv4Address(s)
        return True
    except ValueError:
        return False


def std_v6(s):
    try:
        ipaddress.IPv6Address(s)
        return True
    except ValueError:
        return False


def std_net(s):
    """0 when ip_network(strict=False) refuses, else the IP version."""
    try:
        return ipaddress.ip_network(s, strict=False).version
    except ValueError:
        return 0


# --------------------------------------------------------------------------
# oracle 1: standard library + splitting, for any string
# --------------------------------------------------------------------------
def loose_ip_class(s):
    """is_valid_ip on a string that is neither a strict IPv4 nor an IPv6."""
    if not LOOSE_V4.match(s):
        return 'R'
    if not LOOSE_V4_BARE.match(s):
        return 'D'                      # whitespace + tail: inet_aton stops there
    parts = s.split('.')
    if len(parts) > 4:
        return 'R'
    if len(parts) == 4 and all(CANON.match(p) for p in parts) and any(canon_int(p) > 255 for p in parts):
        return 'R'
    return 'D'


def prefix_kind(p):
    if p == '':
        return 'empty'
    if CANON.match(p):
        return 'canon'
    if CANON_NEG.match(p):
        return 'neg'
    if re.fullmatch(r'[0-9]{1,3}(?:\.[0-9]{1,3}){3}', p):
        return 'mask'                   # dotted netmask / hostmask ('/255.255.255.0'): the standard library defines the answer
    if p.isascii() and p.isdigit():
        return 'lz'                     # ASCII digits with leading zeros ('08', '064'): the standard library reads them as 8, 64
    if not p.isascii() or all(ch in PREFIX_ZONE for ch in p):
        return 'spelling'
    return 'junk'


def generic_cidr(s, six, v4):
    n = s.count('/')
    if n == 0:
        if not six:
            return 'R'                  # missing prefix
        if v4 or (':' not in s and '%' not in s):
            return 'R'                  # an IPv4 address / a text without any colon is not an IPv6 CIDR
        if '%' in s or std_v6(s) or LOOSE_V4.match(s):
            return 'D'                  # bare IPv6 address is taken as /128
        return 'R'
    if n > 1:
        return 'R'
    addr, p = s.split('/')
    if addr == '' or p == '':
        return 'R'
    if '%' in addr:
        return 'D'
    kind = prefix_kind(p)
    a4, a6 = std_v4(addr), std_v6(addr)
    if not (a4 or a6):
        return 'D' if LOOSE_V4.match(addr) else 'R'
    if kind in ('neg', 'junk'):
        return 'R'
    if kind == 'spelling':
        return 'D'
    ver = std_net(s)                    # the standard library defines the answer
    if ver == 0:
        return 'R'
    if six and ver == 4:
        return 'R'
    return 'A'


def generic_mac(s):
    parts = s.split(':')
    if len(parts) != 6:
        return 'R'
    if not all(1 <= len(p) <= 2 and all(ch in HEXDIGITS for ch in p) for p in parts):
        return 'R'
    if all(len(p) == 2 for p in parts):
        return 'A'
    return 'D'                          # lenient one-digit groups


def generic_range(s, lo, hi):
    if CANON.match(s):
        return 'A' if lo <= canon_int(s) <= hi else 'R'
    if CANON_NEG.match(s):
        return 'R'
    if INT_SPELLING.match(s.strip()):
        return 'D'                      # ' 80', '+80', '8_0', '080', '80\n', '-0'
    return 'R'


def generic(s):
    """Class of every validator for an arbitrary string, from the stdlib."""
    if not s.isascii():
        # non-ASCII: Python's int() and the address parsers have their own ideas about Unicode digits, so nothing is
        # claimed - except for MAC addresses, whose alphabet is the ASCII hex digits and nothing else
        return dict(dict.fromkeys(VALIDATORS, 'D'), mac='R')
    c = {}
    v4 = std_v4(s)
    c['ipv4'] = c['ipv4s'] = 'A' if v4 else 'R'
    if '%' not in s:
        v6 = 'A' if std_v6(s) else 'R'
    else:
        base, scope = s.split('%', 1)
        if PLAIN_SCOPE.match(scope):
            v6 = 'A' if (std_v6(base) and 1 <= len(scope) <= 15) else 'R'
        elif '%' in scope:
            v6 = 'R'                    # a second '%': the standard library rejects it, so the answer is defined
        else:
            v6 = 'D'
    c['ipv6'] = v6
    if v4 or v6 == 'A':
        c['ip'] = 'A'
    elif v6 == 'D':
        c['ip'] = 'D'
    else:
        c['ip'] = loose_ip_class(s)
    c['cidr'] = generic_cidr(s, False, v4)
    c['cidr6'] = generic_cidr(s, True, v4)
    c['mac'] = generic_mac(s)
    for name, (lo, hi) in RANGES.items():
        c[name] = generic_range(s, lo, hi)
    return c


# --------------------------------------------------------------------------
# oracle 2: constructive grammar model (components -> text, class)
# --------------------------------------------------------------------------
def octet_kind(tok):
    if CANON.match(tok):
        return 'ok' if canon_int(tok) <= 255 else 'big'
    if LEADZ.match(tok) or HEXNUM.match(tok):
        return 'loose'
    if tok == '':
        return 'empty'
    return 'bad'


def v4_text(c):
    return c.get('pre', '') + '.'.join(c['parts']) + c.get('suf', '')


def v4_state(c):
    """'valid' | 'loose' (inet_aton zone) | 'bad' for a dotted-quad case."""
    kinds = [octet_kind(p) for p in c['parts']]
    n = len(kinds)
    if c.get('pre') or c.get('suf') or any(ch in ' \t\n\r\f\v' for p in c['parts'] for ch in p):
        return 'decor'                 # inet_aton ignores whatever follows whitespace
    if n == 4 and all(k == 'ok' for k in kinds):
        return 'valid'
    if n > 4 or 'bad' in kinds:
        return 'bad'
    if 'empty' in kinds:
        return 'loose'
    if n == 4 and 'big' in kinds and all(k in ('ok', 'big') for k in kinds):
        return 'bad'
    return 'loose'


def v4_classes(c):
    st = v4_state(c)
    text = v4_text(c)
    out = {}
    out['ipv4'] = out['ipv4s'] = 'A' if st == 'valid' else 'R'
    out['ip'] = {'valid': 'A', 'bad': 'R', 'loose': 'D', 'decor': 'D'}[st]
    if ':' not in text and '%' not in text:
        out['ipv6'] = 'R'
        out['mac'] = 'R'
    if '/' not in text:
        out['cidr'] = 'R'
        if st == 'valid':
            out['cidr6'] = 'R'
    return out


def strict_quad(tok):
    parts = tok.split('.')
    return len(parts) == 4 and all(octet_kind(p) == 'ok' for p in parts)


def v6_base_text(c):
    groups = c['groups']
    cuts = sorted(x for x in (c.get('dc'), c.get('dc2')) if x is not None)
    segs, prev = [], 0
    for cut in cuts:
        segs.append(groups[prev:cut])
        prev = cut
    segs.append(groups[prev:])
    text = '::'.join(':'.join(seg) for seg in segs)
    return (':' if c.get('lead') else '') + text + (':' if c.get('trail') else '')


def v6_text(c):
    text = c.get('pre', '') + v6_base_text(c)
    if c.get('scope') is not None:
        text += '%' + c['scope']
    return text + c.get('suf', '')


def v6_base_valid(c):
    groups = c['groups']
    if c.get('lead') or c.get('trail') or c.get('dc2') is not None:
        return False
    n = 0
    for i, g in enumerate(groups):
        if '.' in g:
            if i != len(groups) - 1 or c.get('dc') == len(groups) or not strict_quad(g):
                return False
            n += 2
        elif HEXTET.match(g):
            n += 1
        else:
            return False
    if c.get('dc') is None:
        return n == 8
    return n <= 7


def v6_state(c):
    """'valid' | 'bad' | 'odd' (decorated / odd scope characters)."""
    if any(g == '' for g in c['groups']):
        return 'odd'                   # would fuse into an accidental '::'
    if c.get('pre') or c.get('suf'):
        return 'decor'
    return 'valid' if v6_base_valid(c) else 'bad'


def v6_classes(c):
    st = v6_state(c)
    text = v6_text(c)
    if ':' not in v6_base_text(c) or st == 'odd':
        return {}
    out = {'ipv4': 'R', 'ipv4s': 'R'}
    scope = c.get('scope')
    if st == 'decor':
        # a suffix after a scope id becomes part of the scope id (odd characters)
        k = 'D' if (scope is not None and (c.get('suf') or not PLAIN_SCOPE.match(scope))) else 'R'
    elif scope is None:
        k = 'A' if st == 'valid' else 'R'
    elif not PLAIN_SCOPE.match(scope):
        k = 'D'
    elif st == 'valid':
        k = 'A' if 1 <= len(scope) <= 15 else 'R'
    else:
        k = 'R'
    out['ipv6'] = out['ip'] = k
    if '/' not in text:
        out['cidr'] = 'R'
        if scope is None and st == 'bad':
            out['cidr6'] = 'R'
        elif scope is None and st == 'valid':
            out['cidr6'] = 'D'
    return out


def addr_text_state(a):
    if a['kind'] == 'v4':
        return v4_text(a), 4, v4_state(a)
    st = v6_state(a)
    if a.get('scope') is not None or st in ('odd', 'decor'):
        st = 'loose'
    if ':' not in v6_base_text(a):
        st = 'unknown'                 # a lone quad or nothing: not an IPv6-shaped text at all
    return v6_text(a), 6, st


def cidr_text(c):
    a, _fam, _st = addr_text_state(c['addr'])
    p1, p2 = c.get('p1', ''), c.get('p2', '')
    return {'plain': a, 'one': a + '/' + p1, 'two': a + '/' + p1 + '/' + p2,
            'dslash': a + '//' + p1, 'trail': a + '/' + p1 + '/', 'lead': '/' + a + '/' + p1,
            'noaddr': '/' + p1}[c['shape']]


def cidr_classes(c):
    a, fam, st = addr_text_state(c['addr'])
    shape = c['shape']
    if '/' in a or st == 'unknown':
        return {}
    out = {}
    if shape == 'plain':
        out['cidr'] = 'R'
        if fam == 4 and st == 'valid':
            out['cidr6'] = 'R'
        return out
    if shape != 'one':
        out['cidr'] = out['cidr6'] = 'R'
        return out
    p = c.get('p1', '')
    if '/' in p:
        return {}
    kind = prefix_kind(p)
    mx = 32 if fam == 4 else 128
    if kind == 'empty' or st == 'bad' or kind in ('neg', 'junk'):
        k = 'R'
    elif st in ('loose', 'decor'):
        k = 'D'
    elif kind == 'spelling':
        k = 'D'
    elif kind == 'mask':
        v = std_net(a + '/' + p)
        k = 'A' if v else 'R'
    elif kind == 'lz':
        k = 'A' if (len(p) <= 12 and int(p) <= mx) else ('R' if len(p) <= 12 else 'D')
    else:
        k = 'A' if canon_int(p) <= mx else 'R'
    out['cidr'] = k
    out['cidr6'] = k if fam == 6 else ('R' if k in ('A', 'R') else 'D')
    return out


def mac_text(c):
    return c.get('pre', '') + c['sep'].join(c['groups']) + c.get('suf', '')


def mac_classes(c):
    groups = c['groups']
    hexish = all(1 <= len(g) <= 2 and all(ch in HEXDIGITS for ch in g) for g in groups)
    if c.get('pre') or c.get('suf') or c['sep'] != ':' or len(groups) != 6 or not hexish:
        return {'mac': 'R'}
    if all(len(g) == 2 for g in groups):
        return {'mac': 'A'}
    return {'mac': 'D'}


def num_classes(c):
    v = c['value']
    return {name: ('A' if lo <= v <= hi else 'R') for name, (lo, hi) in RANGES.items()}


def compose(case):
    """(text, constructive classes) of a string case."""
    kind = case['kind']
    if kind == 'v4':
        return v4_text(case), v4_classes(case)
    if kind == 'v6':
        return v6_text(case), v6_classes(case)
    if kind == 'cidr':
        return cidr_text(case), cidr_classes(case)
    if kind == 'mac':
        return mac_text(case), mac_classes(case)
    if kind == 'num':
        return str(case['value']), num_classes(case)
    if kind == 'long':
        return case.get('pre', '') + case['unit'] * case['n'] + case.get('suf', ''), {}
    if kind == 'raw':
        return case['text'], {}
    raise ValueError('unknown case kind %r' % (kind,))


# --------------------------------------------------------------------------
# the monitor
# --------------------------------------------------------------------------
_FUNCS = None


def _functions():
    global _FUNCS
    if _FUNCS is None:
        _FUNCS = _load_functions()
    return _FUNCS


def _load_functions():
    from oslo_utils import netutils as nu
    from vlib import callstyle
    nu = callstyle.proxy(nu, share=5)
    return {'ipv4': nu.is_valid_ipv4,
            'ipv4s': lambda s: nu.is_valid_ipv4(s, strict=True),
            'ipv6': nu.is_valid_ipv6, 'ip': nu.is_valid_ip,
            'cidr': nu.is_valid_cidr, 'cidr6': nu.is_valid_ipv6_cidr,
            'mac': nu.is_valid_mac, 'port': nu.is_valid_port,
            'icmp_type': nu.is_valid_icmp_type, 'icmp_code': nu.is_valid_icmp_code}


def violation_shape(v, text):
    """Input-only description used to group violations in the evidence."""
    if '\x00' in text:
        return 'contains NUL'
    if any('\ud800' <= ch <= '\udfff' for ch in text):
        return 'lone surrogate'
    if v in ('cidr', 'cidr6') and text.count('/') > 1:
        return 'more than one slash'
    if v == 'mac' and text.endswith('\n'):
        return 'MAC + trailing newline'
    return 'other'


class TaggedStr(str):
    """A str subclass (configuration values, translated or tainted strings are such things)."""
    __slots__ = ()


class TaggedInt(int):
    __slots__ = ()


def wrap_int(v, how):
    if how == 'intsub':
        return TaggedInt(v)
    if how == 'intenum':
        import enum
        return enum.IntEnum('Number', {'MEMBER': v}).MEMBER
    return v


def TWIN_FUNCS():
    from oslo_utils import netutils as nu
    return {n: getattr(nu, n) for n in ('is_valid_ip', 'is_valid_ipv4', 'is_valid_ipv6', 'is_valid_cidr', 'is_valid_mac',
                                        'is_valid_port', 'is_valid_icmp_type', 'is_valid_icmp_code', 'is_valid_ipv6_cidr')}


TWIN_TEXT_FUNCS = ['is_valid_ip', 'is_valid_ipv4', 'is_valid_ipv6', 'is_valid_cidr', 'is_valid_mac', 'is_valid_port',
                   'is_valid_ipv6_cidr']
TWIN_TEXTS = ['fe80::AbCd', '10.0.0.1', 'AA:bb:CC:dd:EE:ff', '::FFFF:1.2.3.4', '2001:DB8::/32', '80', 'Fe80::1%Eth0',
              '10.0.0.0/8', 'aB:cD:eF:01:23:45', '2001:db8::A/64', '65535', 'not an address']
TWIN_NUM_FUNCS = ['is_valid_port', 'is_valid_icmp_type', 'is_valid_icmp_code']
TWIN_NUMBERS = [0, 1, 80, 255, 256, 65535, 65536, -1, 8080]


def _evaluate_nomodes(ctx, case):
    if case.get('kind') == 'twins':
        from vlib import twins as _tw
        return _tw.evaluate_case(ctx, case, TWIN_FUNCS())
    funcs = _functions()
    kind = case['kind']
    if kind == 'int':
        v = case['value']
        want = num_classes(case)
        ctx.case(('int', v, case.get('wrap')), True, n=len(want))
        arg = wrap_int(v, case.get('wrap'))
        if case.get('wrap'):
            ctx.clause('subclass-of-int-or-str-argument')
        for name, k in want.items():
            try:
                got, exc = funcs[name](arg), None
            except BaseException as e:  # noqa
                got, exc = None, e
            ctx.clause('range-end-int')
            ctx.h('validator x oracle class', '%s(int)/%s' % (FUNC_NAME[name], CLASS_NAME[k]))
            if exc is not None:
                ctx.fail('int-argument-raised', case, {'validator': FUNC_NAME[name], 'exc': exc})
            elif bool(got) != (k == 'A'):
                ctx.fail('range-end-int', case, {'validator': FUNC_NAME[name], 'value': v,
                                                 'got': bool(got), 'want': CLASS_NAME[k]})
        return

    text, built = compose(case)
    gen = generic(text)
    family = case.get('cls') or kind
    final = {}
    ascii_text = text.isascii()
    for v in VALIDATORS:
        g, b = gen[v], built.get(v)
        if not ascii_text:
            k = 'R' if v == 'mac' else 'D'          # non-ASCII: only "does not raise" is claimed (MAC: never well-formed)
        elif b is None:
            k = g
        elif g == 'D' or g == b:
            k = b
        elif b == 'D':
            k = 'D'
        else:                                   # the two oracles contradict each other
            k = 'D'
            ctx.h('oracle self-check', 'DISAGREE %s grammar=%s stdlib=%s' % (v, b, g))
            ctx.note('oracle self-check: grammar model and stdlib disagree on %r for %s' % (
                text[:80], FUNC_NAME[v]))
        if b is not None and g != 'D' and b != 'D':
            ctx.clause('oracle-self-check')
            if g == b:
                ctx.h('oracle self-check', 'agree')
        final[v] = k
    nontrivial = kind not in ('raw', 'long') or case.get('origin') == 'mutated' or \
        any(k != 'R' for k in final.values())
    ctx.case(('s', text, case.get('wrap')) if len(text) < 2000 else ('long', case.get('unit'), case.get('n'),
                                                                      case.get('pre'), case.get('suf')),
             nontrivial, n=len(VALIDATORS))
    arg = text
    if case.get('wrap') == 'strsub':
        arg = TaggedStr(text)
        ctx.clause('subclass-of-int-or-str-argument')
    ctx.h('family/sub-class', family)
    is_range_case = kind == 'num'
    has_scope = kind == 'v6' and case.get('scope') is not None and built.get('ipv6') in ('A', 'R')
    for v in VALIDATORS:
        k = final[v]
        try:
            got, exc = funcs[v](arg), None
        except BaseException as e:  # noqa
            got, exc = None, e
        ctx.clause('answers-rather-than-raises')
        ctx.h('validator x oracle class', '%s/%s' % (FUNC_NAME[v], CLASS_NAME[k]))
        if exc is not None:
            ctx.h('violations by input shape', '%s: %s' % (FUNC_NAME[v], violation_shape(v, text)))
            ctx.fail('answers-rather-than-raises (%s)' % violation_shape(v, text), case,
                     {'validator': FUNC_NAME[v], 'text': text[:200], 'exc': exc,
                      'shape': violation_shape(v, text)})
            continue
        if k == 'D':
            ctx.h('DONT-CARE observed', '%s/%s/%s' % (FUNC_NAME[v], family, 'true' if got else 'false'))
            continue
        if v in ('ipv4', 'ipv4s', 'ipv6', 'ip', 'cidr', 'cidr6'):
            ctx.clause('stdlib-agreement')
        if is_range_case and v in RANGES:
            ctx.clause('range-end-str')
        if has_scope and v == 'ipv6':
            ctx.clause('scope-length-limit')
        if k == 'A':
            ctx.clause('must-accept:' + FUNC_NAME[v])
            if not got:
                ctx.fail('must-accept:' + FUNC_NAME[v], case,
                         {'validator': FUNC_NAME[v], 'text': text[:200], 'got': bool(got)})
        else:
            ctx.clause('must-reject:' + FUNC_NAME[v])
            if got:
                ctx.h('violations by input shape', '%s: %s' % (FUNC_NAME[v], violation_shape(v, text)))
                ctx.fail('must-reject:' + FUNC_NAME[v], case,
                         {'validator': FUNC_NAME[v], 'text': text[:200], 'got': True,
                          'shape': violation_shape(v, text)})


from vlib import envmodes  # noqa: E402
evaluate = envmodes.with_modes(_evaluate_nomodes, warn=lambda case: True, digits=lambda case: True, debug=lambda case: True)


# --------------------------------------------------------------------------
# generators
# --------------------------------------------------------------------------
OCT_EDGE = [0, 1, 9, 10, 99, 100, 127, 128, 199, 200, 249, 250, 254, 255]
OCT_BIG = [256, 257, 260, 299, 300, 999, 1000, 65535, 65536]
OCT_LZ = ['00', '01', '001', '010', '0001', '0255', '08', '09', '0377', '000']
OCT_HEX = ['0x0', '0x10', '0X1f', '0xff', '0xFF', '0x100', '0x1', '0xa']
OCT_JUNK = ['a', '1a', '+1', '-1', '-0', ' 1', '1 ', 'x', '1e1', '0x', '１', '-255', '~', '1_0']
V4_DECOR = [('', ' '), ('', '\n'), ('', '\x00'), ('', '\t'), ('', '.'), ('', ' x'), (' ', ''), ('\n', ''),
            ('.', ''), ('', '\r\n'), ('\x00', ''), ('', '\x0b'), ('', '\x1c'), ('', '%eth0'), ('', ':')]
HEX_EDGE = ['0', '1', 'f', 'F', 'ff', '00', 'fff', '0000', 'ffff', 'FFFF', 'fe80', '2001', 'db8', 'DB8', 'a', 'AbCd']
HEX_BAD = ['10000', '00000', 'fffff', 'g', 'G0', '-1', 'x', '12345', ' 1', '1 ', '+1', '0x1', 'ｆ', '_', '1_']
SCOPE_ALPHA = 'abcdefghijklmnopqrstuvwxyzABCDEFGHIJKLMNOPQRSTUVWXYZ0123456789'
SCOPE_ODD = ['eth0/64', 'a%b', 'eth 0', 'e\x00', 'eth0\n', '%', '/', 'é', 'a/b/c', '1%', ' ', 'eth0:1', 'e#', '\x00']
V6_DECOR = [('', ' '), ('', '\n'), ('', '\x00'), (' ', ''), ('\n', ''), ('', '\t'), ('[', ']'), ('', '.'),
            ('\x00', ''), ('', '\r')]
PFX_SPELL = [' 8', '+8', '08', '8 ', '8\n', '٨', '1_0', '008', '\t8', '8\r\n', '+0', '-0', '٣٢', '8\x0b',
             '255.0.0.0', '255.255.255.0', '0.0.0.255', '255.255.255.255', '0.0.0.0', 'ffff::', 'ffff:ffff::',
             '::', '1e1', 'e', '--1', '8.', '.8', '8:', '+', '-', '_', ' ']
PFX_JUNK = ['x', '8x', 'x8', '0x8', '8%', '8\x00', '\x00', 'eight', '8,', '8;', '(8)', '8/']
MAC_SEPS = [':', '-', '.', ' ', '', ';', '::', ',', '_', ':\n', '\t']
MAC_SUFS = ['\n', ' ', '\x00', '\r\n', ':', '\t', '\n\n', '\r', ':0', '\x0b', '\x0c', '\x1c', 'g', '0']
MAC_PRES = [' ', '\n', ':', '\x00', '0', '\t']
MAC_BADGRP = ['0', 'f', '000', 'abc', 'g0', '0g', 'G1', '', ' 1', '1 ', '-1', '0x', 'ａｂ', '٣٣', 'zz', '+1', '1\n']
INT_SPELL = [' 80', '80 ', '+80', '8_0', '080', '٨٠', '80\n', '\n80', '-0', '+0', '00', '0_0', '١', '８０',
             '\t255', '255\r\n', '+65535', '065535', '65_535', '6553_5', '+255', '0255', '2_55', '\x1c80',
             '80\x1f', '+256', '65536 ', ' 65536', '0256', '+65536', '25_6', '-00', '- 1', '+-1', '8__0', '_80',
             '80_']
INT_JUNK = ['', ' ', 'abc', '1.5', '1.0', '80.0', '0x10', '0b1', '0o7', '1e3', '1E3', 'inf', 'nan', 'None', 'True',
            '80\x00', '\x0080', '8 0', '8,0', '80L', '80l', '80j', '²', '½', '0x', 'x', '--80', '++80', '80-',
            '80+', '٨٠a', '-', '+', '.', '1.', '.1', '１.５', 'port', '80/tcp', ':80', '[80]', '80%']
NARROW = '0123456789abcdefABCDEFxX.:/%- +\n\x00_gG'
ARBITRARY = ('0123456789abcdefghijklmnopqrstuvwxyzABCDEFGHIJKLMNOPQRSTUVWXYZ!"#$%&\'()*+,-./:;<=>?@[\\]^_`{|}~ '
             '\t\n\r\x0b\x0c\x00é٣%/:.\ud800')


def rand_octet(rng):
    return str(rng.choice(OCT_EDGE) if rng.random() < 0.4 else rng.randrange(256))


def gen_v4(rng, cls):
    if cls == 'valid':
        return dict(kind='v4', cls='v4/valid', parts=[rand_octet(rng) for _ in range(4)])
    if cls == 'range':
        parts = [rand_octet(rng) for _ in range(4)]
        for i in rng.sample(range(4), rng.choice([1, 1, 1, 2, 4])):
            parts[i] = str(rng.choice([-1] + OCT_BIG) if rng.random() < 0.6 else rng.randrange(256, 301))
        return dict(kind='v4', cls='v4/octet-out-of-range', parts=parts)
    if cls == 'count':
        n = rng.choice([1, 2, 3, 5, 5, 3, 0, 6])
        parts = [rand_octet(rng) for _ in range(n)]
        if parts and rng.random() < 0.3:
            parts[-1] = str(rng.choice([256, 65535, 65536, 16777215, 16777216, 4294967295, 4294967296]))
        return dict(kind='v4', cls='v4/wrong-part-count', parts=parts)
    if cls == 'lz':
        parts = [rand_octet(rng) for _ in range(rng.choice([4, 4, 4, 3, 5]))]
        for i in rng.sample(range(len(parts)), rng.choice([1, 1, 2])):
            parts[i] = rng.choice(OCT_LZ) if rng.random() < 0.6 else '0' * rng.randrange(1, 3) + rand_octet(rng)
        return dict(kind='v4', cls='v4/leading-zeros', parts=parts)
    if cls == 'hexoct':
        parts = [rand_octet(rng) for _ in range(rng.choice([4, 4, 4, 2, 1]))]
        for i in rng.sample(range(len(parts)), 1):
            parts[i] = rng.choice(OCT_HEX) if rng.random() < 0.7 else '0%o' % rng.randrange(8, 256)
        return dict(kind='v4', cls='v4/hex-octal', parts=parts)
    if cls == 'junk':
        parts = [rand_octet(rng) for _ in range(rng.choice([4, 4, 4, 3, 2]))]
        parts[rng.randrange(len(parts))] = rng.choice(OCT_JUNK + ['', ''])
        return dict(kind='v4', cls='v4/junk-or-empty-part', parts=parts)
    pre, suf = rng.choice(V4_DECOR)
    return dict(kind='v4', cls='v4/decorated', parts=[rand_octet(rng) for _ in range(4)], pre=pre, suf=suf)


def rand_hextet(rng):
    r = rng.random()
    if r < 0.3:
        return rng.choice(HEX_EDGE)
    s = '%x' % rng.getrandbits(rng.choice([4, 8, 12, 16]))
    if r < 0.5:
        s = s.upper()
    elif r < 0.6:
        s = s.zfill(4)
    return s


def valid_quad(rng):
    return '.'.join(rand_octet(rng) for _ in range(4))


def valid_v6(rng):
    shape = rng.random()
    tail = rng.random() < 0.25
    if shape < 0.3:
        n, dc = 8, None
    else:
        n = rng.randrange(0, 8)
        dc = None
    if tail and n < 2:
        tail = False
    ng = n - 2 if tail else n
    groups = [rand_hextet(rng) for _ in range(ng)]
    if tail:
        groups.append(valid_quad(rng))
    if n != 8:
        dc = rng.randrange(0, ng + 1)
    return dict(kind='v6', cls='v6/valid', groups=groups, dc=dc)


def rand_scope(rng, n):
    s = ''.join(rng.choice(SCOPE_ALPHA) for _ in range(n))
    if n >= 4 and rng.random() < 0.3:
        s = ('eth' + s)[:n]
    return s


def gen_v6(rng, cls):
    if cls == 'valid':
        return valid_v6(rng)
    if cls == 'scope':
        c = valid_v6(rng)
        n = rng.choice([0, 1, 2, 4, 8, 14, 15, 15, 16, 16, 17, rng.randrange(0, 18), 30])
        c['scope'] = rand_scope(rng, n)
        if rng.random() < 0.15 and n:
            c['scope'] = (rng.choice(['-', '_', '.']) + c['scope'])[:n]
        c['cls'] = 'v6/scope-len-%s' % (n if n <= 17 else '18+')
        return c
    if cls == 'scope-odd':
        c = valid_v6(rng)
        c['scope'] = rng.choice(SCOPE_ODD)
        c['cls'] = 'v6/scope-odd-characters'
        return c
    if cls == 'scope-badbase':
        c = gen_v6(rng, rng.choice(['count', 'badgroup', 'colons']))
        c['scope'] = rand_scope(rng, rng.choice([1, 4, 15, 16, 0]))
        c['cls'] = 'v6/invalid-base+scope'
        return c
    if cls == 'count':
        tail = rng.random() < 0.25
        if rng.random() < 0.6:
            n, dc = rng.choice([1, 2, 3, 4, 5, 6, 7, 7, 9, 9]), None
        else:
            n, dc = rng.choice([8, 8, 9]), 0
        if n < 3:
            tail = False
        ng = max(0, n - 2) if tail else n
        groups = [rand_hextet(rng) for _ in range(ng)]
        if tail:
            groups.append(valid_quad(rng))
        if dc is not None:
            dc = rng.randrange(0, len(groups) + 1)
        return dict(kind='v6', cls='v6/wrong-group-count', groups=groups, dc=dc)
    if cls == 'badgroup':
        c = valid_v6(rng)
        hexpos = [i for i, g in enumerate(c['groups']) if '.' not in g]
        if not hexpos:
            c['groups'].insert(0, '1')
            c['dc'] = 1
            hexpos = [0]
        c['groups'][rng.choice(hexpos)] = rng.choice(HEX_BAD)
        c['cls'] = 'v6/bad-group'
        return c
    if cls == 'colons':
        c = valid_v6(rng)
        r = rng.random()
        if r < 0.35 and c['dc'] is not None:
            c['dc2'] = rng.randrange(c['dc'], len(c['groups']) + 1)
        elif r < 0.7:
            c['lead'] = True
        else:
            c['trail'] = True
        if rng.random() < 0.2:
            c['lead'] = c['trail'] = True
        c['cls'] = 'v6/stray-or-double-colons'
        return c
    if cls == 'v4tail-bad':
        c = valid_v6(rng)
        groups = [g for g in c['groups'] if '.' not in g][:5]
        bad = rng.choice(['1.2.3', '1.2.3.4.5', '256.1.1.1', '1.2.3.256', '01.2.3.4', '1.2.3.04', '1.2.3.',
                          '.1.2.3', '1..2.3', '1.2.3.-1', '0x1.2.3.4', '1.2.3.4 ', '1.2', '300.300.300.300'])
        r = rng.random()
        if r < 0.6:
            groups.append(bad)
        elif r < 0.8 and groups:
            groups.insert(rng.randrange(0, len(groups)), valid_quad(rng))      # quad not in last place
        else:
            groups = [rand_hextet(rng) for _ in range(7)] + [valid_quad(rng)]  # 7 + quad = 9 units
            return dict(kind='v6', cls='v6/bad-embedded-ipv4', groups=groups, dc=None)
        return dict(kind='v6', cls='v6/bad-embedded-ipv4', groups=groups, dc=rng.randrange(0, len(groups)))
    c = valid_v6(rng)
    c['pre'], c['suf'] = rng.choice(V6_DECOR)
    c['cls'] = 'v6/decorated'
    return c


def rand_prefix(rng, mx):
    r = rng.random()
    if r < 0.45:
        return str(rng.choice([0, 1, mx - 1, mx, mx // 2, 8, 24]))
    return str(rng.randrange(0, mx + 1))


def gen_cidr(rng, cls):
    fam = rng.choice([4, 6])
    mx = 32 if fam == 4 else 128
    good = gen_v4(rng, 'valid') if fam == 4 else valid_v6(rng)
    if cls == 'valid':
        return dict(kind='cidr', cls='cidr/valid-v%d' % fam, addr=good, shape='one', p1=rand_prefix(rng, mx))
    if cls == 'range':
        p = rng.choice([-1, -2, mx + 1, mx + 2, 129, 130, 256, 1000, 33, 2 ** 32, -128])
        if p <= mx and p >= 0:
            p = mx + 1
        return dict(kind='cidr', cls='cidr/prefix-out-of-range-v%d' % fam, addr=good, shape='one', p1=str(p))
    if cls == 'missing':
        return dict(kind='cidr', cls='cidr/missing-prefix-v%d' % fam, addr=good, shape='plain')
    if cls == 'empty':
        return dict(kind='cidr', cls='cidr/empty-prefix', addr=good, shape='one', p1='')
    if cls == 'slashes':
        shape = rng.choice(['two', 'two', 'dslash', 'trail', 'lead', 'noaddr'])
        return dict(kind='cidr', cls='cidr/extra-slashes-' + shape, addr=good, shape=shape,
                    p1=rand_prefix(rng, mx) if rng.random() < 0.8 else rng.choice(['', '-1', str(mx + 1), 'x']),
                    p2=rand_prefix(rng, mx) if rng.random() < 0.8 else rng.choice(['', '-1', 'x', '0']))
    if cls == 'spelling':
        return dict(kind='cidr', cls='cidr/prefix-spelling', addr=good, shape='one', p1=rng.choice(PFX_SPELL))
    if cls == 'junk':
        return dict(kind='cidr', cls='cidr/junk-prefix', addr=good, shape='one', p1=rng.choice(PFX_JUNK[:-1]))
    # bad address part
    if fam == 4:
        addr = gen_v4(rng, rng.choice(['range', 'count', 'lz', 'hexoct', 'junk', 'decor']))
    else:
        addr = gen_v6(rng, rng.choice(['count', 'badgroup', 'colons', 'v4tail-bad', 'decor', 'scope']))
    return dict(kind='cidr', cls='cidr/bad-address-v%d' % fam, addr=addr, shape='one', p1=rand_prefix(rng, mx))


def rand_mac_group(rng):
    s = '%02x' % rng.getrandbits(8)
    r = rng.random()
    if r < 0.3:
        s = s.upper()
    elif r < 0.4:
        s = s[0].upper() + s[1]
    return s


def gen_mac(rng, cls):
    groups = [rand_mac_group(rng) for _ in range(6)]
    if cls == 'valid':
        r = rng.random()
        if r < 0.25:
            groups = [g.lower() for g in groups]
        elif r < 0.5:
            groups = [g.upper() for g in groups]
        return dict(kind='mac', cls='mac/valid', groups=groups, sep=':')
    if cls == 'count':
        n = rng.choice([5, 7, 5, 7, 4, 8, 1, 12])
        return dict(kind='mac', cls='mac/wrong-group-count', groups=[rand_mac_group(rng) for _ in range(n)], sep=':')
    if cls == 'sep':
        n = rng.choice([6, 6, 6, 5, 7])
        return dict(kind='mac', cls='mac/other-separator', groups=[rand_mac_group(rng) for _ in range(n)],
                    sep=rng.choice(MAC_SEPS[1:]))
    if cls == 'suffix':
        return dict(kind='mac', cls='mac/trailing-characters', groups=groups, sep=':', suf=rng.choice(MAC_SUFS))
    if cls == 'prefix':
        return dict(kind='mac', cls='mac/leading-characters', groups=groups, sep=':', pre=rng.choice(MAC_PRES))
    if cls == 'onedigit':
        for i in rng.sample(range(6), rng.choice([1, 2, 6])):
            groups[i] = rng.choice('0123456789abcdefABCDEF')
        return dict(kind='mac', cls='mac/one-digit-groups', groups=groups, sep=':')
    if cls == 'unidigit':
        # exact MAC shape, but one or more digits come from another script (all are str.isdigit() / match \\d)
        groups = ['%02d' % rng.randrange(100) if rng.random() < 0.6 else g for g in groups]
        digits = [(i, j) for i, g in enumerate(groups) for j, ch in enumerate(g) if ch in '0123456789']
        if not digits:
            groups[0] = '42'
            digits = [(0, 0), (0, 1)]
        base = rng.choice([0x0660, 0x06F0, 0x0966, 0x09E6, 0xFF10, 0x1D7CE, 0x0E50])
        for i, j in rng.sample(digits, rng.choice([1, 1, 2, len(digits)])):
            g = groups[i]
            groups[i] = g[:j] + chr(base + int(g[j])) + g[j + 1:]
        return dict(kind='mac', cls='mac/unicode-digits', groups=groups, sep=':')
    if cls == 'alike':
        # exact MAC shape after some normalisation only: a group (or a digit) is a code point whose casefold(), lower(),
        # upper() or NFKC/NFKD form spells hex digits (U+FB00 LATIN SMALL LIGATURE FF casefolds to 'ff', full-width
        # and mathematical letters and digits normalise to ASCII)
        one, two = _hex_impostors()
        for i in rng.sample(range(6), rng.choice([1, 1, 2, 6])):
            if two and rng.random() < 0.6:
                groups[i] = rng.choice(two)
            else:
                j = rng.randrange(2)
                groups[i] = groups[i][:j] + rng.choice(one) + groups[i][j + 1:]
        return dict(kind='mac', cls='mac/hex-look-alikes', groups=groups, sep=':')
    groups[rng.randrange(6)] = rng.choice(MAC_BADGRP[2:])
    return dict(kind='mac', cls='mac/bad-group', groups=groups, sep=':')


_HEX_IMPOSTORS = []


def _hex_impostors():
    if not _HEX_IMPOSTORS:
        import sys
        import unicodedata
        one, two = [], []
        hexd = set('0123456789abcdefABCDEF')
        for cp in range(0x80, sys.maxunicode + 1):
            ch = chr(cp)
            if unicodedata.category(ch) in ('Cs', 'Cn'):
                continue
            for form in (ch.casefold(), ch.lower(), ch.upper(), unicodedata.normalize('NFKC', ch), unicodedata.normalize('NFKD', ch)):
                if form != ch and 1 <= len(form) <= 2 and set(form) <= hexd:
                    (one if len(form) == 1 else two).append(ch)
                    break
        _HEX_IMPOSTORS.extend([one, two])
    return _HEX_IMPOSTORS


QUOTA_V4 = [('valid', 35), ('range', 15), ('count', 15), ('lz', 10), ('hexoct', 8), ('junk', 9), ('decor', 8)]
QUOTA_V6 = [('valid', 30), ('scope', 22), ('scope-odd', 4), ('scope-badbase', 4), ('count', 12), ('badgroup', 9),
            ('colons', 8), ('v4tail-bad', 6), ('decor', 5)]
QUOTA_CIDR = [('valid', 35), ('range', 14), ('missing', 8), ('empty', 6), ('slashes', 14), ('spelling', 8),
              ('junk', 5), ('badaddr', 10)]
QUOTA_MAC = [('valid', 33), ('count', 14), ('sep', 12), ('suffix', 9), ('prefix', 6), ('onedigit', 6), ('bad', 8), ('unidigit', 6), ('alike', 6)]


def pick_quota(rng, quota):
    r = rng.randrange(100)
    for name, w in quota:
        if r < w:
            return name
        r -= w
    return quota[0][0]


def mutate(rng, s):
    for _ in range(rng.choice([1, 1, 1, 2, 3])):
        op = rng.randrange(5)
        pos = rng.randrange(len(s) + 1)
        if op == 0 and s:
            pos = min(pos, len(s) - 1)
            s = s[:pos] + s[pos + 1:]
        elif op == 1:
            s = s[:pos] + rng.choice(NARROW) + s[pos:]
        elif op == 2 and s:
            pos = min(pos, len(s) - 1)
            s = s[:pos] + rng.choice(NARROW) + s[pos + 1:]
        elif op == 3 and s:
            pos = min(pos, len(s) - 1)
            s = s[:pos] + s[pos] + s[pos:]
        elif op == 4 and len(s) > 1:
            a = rng.randrange(len(s) - 1)
            s = s[:a] + s[a + 1] + s[a] + s[a + 2:]
    return s


# the longest well-formed spellings (every group four digits, an embedded quad with three-digit octets, a three-digit prefix,
# a 15-character scope) and one character more: a length guard must count every part
LONGEST = []
for _a in ('1111:2222:3333:4444:5555:6666:123.123.123.123', 'ffff:ffff:ffff:ffff:ffff:ffff:255.255.255.255',
           '1111:2222:3333:4444:5555:6666:7777:8888', 'ABCD:EF01:2345:6789:abcd:ef01:2345:6789', '255.255.255.255',
           '123.123.123.123', '0000:0000:0000:0000:0000:ffff:192.168.100.200'):
    LONGEST.append(_a)
    for _p in ('/128', '/100', '/127', '/32', '/8', '/129', '/1000', '/0128'):
        LONGEST.append(_a + _p)
    if ':' in _a:
        LONGEST.append(_a + '%' + 'e' * 15)
        LONGEST.append(_a + '%' + 'e' * 16)
        LONGEST.append(_a + '%' + 'e' * 15 + '/128')

DIRECTED_RAW = LONGEST + [
    # D6 / D8 witnesses and the repository's documented examples
    '10.0.0.0/8/8', '::/0/0', '1.2.3.4\x00', 'aa:bb:cc:dd:ee:ff\n', '10.0.0.0//8', '10.0.0.0/8/', '\x00',
    '::1\x00', '::%\x00', '10.0.0.0/8\x00', '\x0010.0.0.0/8', 'aa:bb:cc:dd:ee:ff\x00', '80\x00', '/', '//', '///',
    '42.42.42.42', '-1.11.11.11', '', '10', '10.10', '10.10.10', '10.10.10.10',
    '2001:db8::ff00:42:8329', '1fff::a88:85a3::172.31.128.1', 'fe80::1%eth0', 'fe80::1%eth0eth0eth0eth0eth0',
    'fe%80::1%eth0', '127.0.0.1', '256.0.0.0', '::1.2.3.', '52:54:00:cf:2d:31', '52:54:00:CF:2D:31',
    '127.0.0.1', 'not:a:mac:address', '52-54-00-cf-2d-31', 'aa bb cc dd ee ff', 'AA:BB:CC:DD:EE:FF',
    'AA BB CC DD EE FF', 'AA-BB-CC-DD-EE-FF', '10.0.0.0/24', '10.0.0.1/32', '0.0.0.0/0', '2600::/64',
    '0000:0000:0000:0000:0000:0000:0000:0001/32', '10.0.0.1', '10.0.0.1/33',
    'abcd:ef01:2345:6789:abcd:ef01:192.168.254.254/48', '0000:0000:0000:0000:0000:0000:0000:0001', 'foo',
    '::1%eth0/64', 'fe80::1%eth0/64', '::ffff:1.2.3.4/96', '::/ffff::', '10/8', '10.0.0/8', '1.2.3.4/32',
    '1.2.3.4/33', '::/128', '::/129', '::', '::/', '::1', '1::', '::1:2:3:4:5:6:7', '1:2:3:4:5:6:7::',
    '1:2:3:4:5:6:7::8', '::1:2:3:4:5:6:7:8', '1:2:3:4:5:6:7:8', '1:2:3:4:5:6:7', '1:2:3:4:5:6:7:8:9', ':::',
    ':', ':1', '1:', '::ffff:1.2.3.4', '1:2:3:4:5:6:1.2.3.4', '1:2:3:4:5:6:7:1.2.3.4', '::1.2.3.4.5',
    'aabb.ccdd.eeff', 'aabbccddeeff', 'aa:bb:cc:dd:ee', 'aa:bb:cc:dd:ee:ff:00', 'a:b:c:d:e:f', 'aa:bb:cc:dd:ee:fg',
    '1.2.3.4 ', ' 1.2.3.4', '1.2.3.4\n', '1.2.3.4 x', '01.2.3.4', '1.2.3.04', '0x1.2.3.4', '010.1.1.1',
    '١.٢.٣.٤', '1.2.3.４', '::١', '１０.0.0.0/8', 'İ', 'ß', '\ud800', '\U0001f600', '1.2.3.4\udcff', '::1\ud800', '10.0.0.0/8\ud800', '::/\udc80',
    'aa:bb:cc:dd:ee:ff\ud800', '80\ud800', '0', '255', '256', '65535',
    '65536', '-1', '%', '%eth0', '::1%', '::1%%', '%%', '::1%a%b', 'fe80::1%eth0%1', 'fe80::1%%', '::%x%', 'fe80::1%e%th0', '1.2.3.4%eth0', '1.2.3.4/8/8', '/8', '8/', '/10.0.0.0/8',
    'localhost', 'example.com', '1.2.3.4:80', '[::1]', '[::1]:80', '::1/64\n', '10.0.0.0/8\n', '10.0.0.0/ 8',
    '10.0.0.0/+8', '10.0.0.0/255.0.0.0', '10.0.0.0/٨', 'None', 'True',
]
LONGS = [('x', 100000), ('1', 5000), ('1.', 3000), (':', 10000), ('a:', 5000), ('9', 4300), ('9', 4301),
         ('1/', 2000), ('%', 500), ('0', 70000), ('ff:', 6), ('ff:', 4000), ('\n', 3000), ('\x00', 100),
         (' ', 5000), ('٣', 3000), ('é', 9000), ('/', 9000), ('1.2.3.4/', 500), ('::', 4000), ('0:', 8),
         ('_1', 3000), ('+', 2000), ('-', 2000), ('e', 16), ('e', 4000)]



def REJECTED_FUNCS(ctx):
    from oslo_utils import netutils as nu
    return [nu.is_valid_ip, nu.is_valid_ipv4, nu.is_valid_ipv6, nu.is_valid_cidr, nu.is_valid_mac, nu.is_valid_port,
            nu.is_valid_ipv6_cidr, nu.is_valid_icmp_type, nu.is_valid_icmp_code]


def HAMMER(ctx):
    from oslo_utils import netutils as nu
    out = []
    for f, vals in ((nu.is_valid_ipv4, ('10.0.0.1', '256.1.1.1', '1.2.3', '0.0.0.0')), (nu.is_valid_ipv6, ('::1', 'fe80::1%eth0', '1::2::3', 'fe80::1%' + 'e' * 16)),
                    (nu.is_valid_cidr, ('10.0.0.0/8', '10.0.0.0/33', '::/0', '10.0.0.0')), (nu.is_valid_mac, ('52:54:00:cf:2d:31', '52:54:00:cf:2d', 'zz:54:00:cf:2d:31')),
                    (nu.is_valid_port, ('0', '65535', '65536', 80, -1))):
        for v in vals:
            out.append(('%s(%r)' % (f.__name__, v), lambda g=f, t=v: g(t)))
    return out

def run(ctx):
    # ---- the same characters / the same number handed over as other objects, in several orders (vlib/twins.py)
    from vlib import twins as _tw
    for _i, _case in enumerate(_tw.make_cases(ctx.rng('twins'), ctx.pick(160, 8000), TWIN_TEXT_FUNCS, TWIN_TEXTS,
                                              TWIN_NUM_FUNCS, TWIN_NUMBERS)):
        if ctx.mine(_i):
            evaluate(ctx, _case)
    idx = 0

    def emit(case):
        nonlocal idx
        idx += 1
        if idx % 41 == 0 and case['kind'] not in ('int', 'long') and 'wrap' not in case:
            case = dict(case, wrap='strsub')        # every 41st text is handed over as an instance of a str subclass
        if ctx.mine(idx):
            ctx.sample(case.get('cls') or case['kind'], case)
            evaluate(ctx, case)

    # ---- directed ------------------------------------------------------
    for s in DIRECTED_RAW:
        emit(dict(kind='raw', cls='directed', origin='directed', text=s))
    for unit, n in LONGS:
        for pre, suf in (('', ''), ('1.2.3.4', ''), ('::1%', ''), ('10.0.0.0/', ''), ('', ':ff'), ('8', '')):
            emit(dict(kind='long', cls='very-long', unit=unit, n=n, pre=pre, suf=suf))

    # ---- exhaustive sub-grids -----------------------------------------
    for pos in range(4):
        for v in range(-1, 301):
            parts = ['10', '20', '30', '40']
            parts[pos] = str(v)
            emit(dict(kind='v4', cls='v4/grid-octet', parts=parts))
    for v in range(-1, 301):
        emit(dict(kind='v4', cls='v4/grid-octet', parts=[str(v)] * 4))
    ctx.exhaustive['dotted quad: octet -1..300 in each position'] = True
    for n in range(0, 6):
        for toks in (['1'], ['255'], ['0'], ['7', '256'], ['010'], ['0x1']):
            emit(dict(kind='v4', cls='v4/grid-count', parts=[toks[i % len(toks)] for i in range(n)]))
    for toks in OCT_LZ + OCT_HEX + OCT_JUNK + ['']:
        for pos in range(4):
            parts = ['1', '2', '3', '4']
            parts[pos] = toks
            emit(dict(kind='v4', cls='v4/grid-spelling', parts=parts))
    for pre, suf in V4_DECOR:
        emit(dict(kind='v4', cls='v4/decorated', parts=['192', '168', '0', '1'], pre=pre, suf=suf))

    fills = [lambda i: '1', lambda i: 'ffff', lambda i: HEX_EDGE[i % len(HEX_EDGE)], lambda i: '0']
    for n in range(0, 10):
        for tail in (None, '1.2.3.4', '255.255.255.255', '1.2.3.256'):
            for fill in fills[:2 if ctx.quick else 4]:
                groups = [fill(i) for i in range(n)] + ([tail] if tail else [])
                for dc in [None] + list(range(0, len(groups) + 1)):
                    emit(dict(kind='v6', cls='v6/grid-structure', groups=groups, dc=dc))
    ctx.exhaustive['IPv6: 0..9 groups x "::" position x embedded IPv4 tail'] = True
    bases = [dict(groups=[], dc=0), dict(groups=['1'], dc=0), dict(groups=['fe80', '1'], dc=1),
             dict(groups=['1', '2', '3', '4', '5', '6', '7', '8'], dc=None),
             dict(groups=['ffff', '1.2.3.4'], dc=0), dict(groups=['2001', 'DB8', 'A'], dc=2),
             dict(groups=['1', '2', '3', '4', '5', '6', '7'], dc=None), dict(groups=['g', '1'], dc=1),
             dict(groups=['1', '2', '3', '4', '5', '6', '7', '8', '9'], dc=None), dict(groups=['1'], dc=0, lead=True)]
    for n in range(0, 19):
        for b in bases:
            for ch in ('e', '0', 'Z', '-'):
                c = dict(kind='v6', cls='v6/scope-len-%s' % (n if n <= 17 else '18+'), scope=ch * n)
                c.update(b)
                emit(c)
    ctx.exhaustive['scope id length 0..18 x 10 base addresses'] = True
    for b in bases[:6]:
        for sc in SCOPE_ODD:
            c = dict(kind='v6', cls='v6/scope-odd-characters', scope=sc)
            c.update(b)
            emit(c)
        for pre, suf in V6_DECOR:
            c = dict(kind='v6', cls='v6/decorated', pre=pre, suf=suf)
            c.update(b)
            emit(c)
    for bad in HEX_BAD:
        for pos in range(3):
            groups = ['1', '2', '3']
            groups[pos] = bad
            emit(dict(kind='v6', cls='v6/bad-group', groups=groups, dc=3))

    addrs4 = [dict(kind='v4', parts=p.split('.')) for p in
              ('10.0.0.0', '0.0.0.0', '255.255.255.255', '192.168.1.1', '10.0.0.1')]
    addrs6 = [dict(kind='v6', groups=[], dc=0), dict(kind='v6', groups=['1'], dc=0),
              dict(kind='v6', groups=['2001', 'db8'], dc=2), dict(kind='v6', groups=['ffff', '1.2.3.4'], dc=0),
              dict(kind='v6', groups=['1', '2', '3', '4', '5', '6', '7', '8'], dc=None)]
    bad4 = [dict(kind='v4', parts=p.split('.')) for p in ('256.0.0.0', '1.2.3', '1.2.3.4.5', '01.2.3.4', 'a.b.c.d')]
    bad6 = [dict(kind='v6', groups=['1', '2', '3'], dc=None), dict(kind='v6', groups=['g'], dc=0),
            dict(kind='v6', groups=['1', '2'], dc=1, dc2=1)]
    for a in addrs4 + addrs6 + bad4 + bad6:
        for p in range(-1, 130):
            emit(dict(kind='cidr', cls='cidr/grid-prefix', addr=a, shape='one', p1=str(p)))
        for shape in ('plain', 'two', 'dslash', 'trail', 'lead', 'noaddr'):
            for p1 in ('0', '8', '32', '33', '128', '129', '', '-1', 'x'):
                for p2 in ('0', '8', '', 'x'):
                    emit(dict(kind='cidr', cls='cidr/grid-slashes-' + shape, addr=a, shape=shape, p1=p1, p2=p2))
        for p in [''] + PFX_SPELL + PFX_JUNK:
            emit(dict(kind='cidr', cls='cidr/grid-prefix-spelling', addr=a, shape='one', p1=p))
    ctx.exhaustive['CIDR: prefix -1..129 x 18 addresses; 7 slash shapes x 9 x 4 prefix tokens'] = True

    mac_groups = {'lower': ['aa', 'bb', 'cc', 'dd', 'ee', 'ff', '0a'], 'upper': ['AA', 'BB', 'CC', 'DD', 'EE', 'FF', '0A'],
                  'mixed': ['aA', 'Bb', '0c', 'D1', '9e', 'fF', 'Ab'], 'digits': ['00', '11', '22', '33', '44', '55', '66']}
    for n in (5, 6, 7):
        for sep in MAC_SEPS:
            for gs in mac_groups.values():
                for suf in [''] + MAC_SUFS:
                    emit(dict(kind='mac', cls='mac/grid', groups=gs[:n], sep=sep, suf=suf))
                for pre in MAC_PRES:
                    emit(dict(kind='mac', cls='mac/grid', groups=gs[:n], sep=sep, pre=pre))
    for bad in MAC_BADGRP:
        for pos in range(6):
            groups = ['aa', 'bb', 'cc', 'dd', 'ee', 'ff']
            groups[pos] = bad
            emit(dict(kind='mac', cls='mac/grid-bad-group', groups=groups, sep=':'))
    for n in range(0, 14):
        emit(dict(kind='mac', cls='mac/grid-count', groups=['0a'] * n, sep=':'))
    ctx.exhaustive['MAC: 5..7 groups x 11 separators x 4 case styles x 15 suffixes / 6 prefixes'] = True

    # ---- integers around each range end -------------------------------
    spans = [range(-300, 700), range(65535 - 400, 65535 + 400)]
    if not ctx.quick:
        spans = [range(-1000, 66600)]
    seen = set()
    for span in spans:
        for v in span:
            if v in seen:
                continue
            seen.add(v)
            emit(dict(kind='int', value=v))
            emit(dict(kind='num', cls='range/canonical-str', value=v))
            if min(abs(v - e) for e in (0, 255, 65535)) <= 3 or v % 97 == 0:
                for how in ('intsub', 'intenum'):
                    emit(dict(kind='int', value=v, wrap=how))
                emit(dict(kind='num', cls='range/canonical-str-subclass', value=v, wrap='strsub'))
    if not ctx.quick:
        ctx.exhaustive['ports/ICMP numbers: every integer -1000..66599 as int and as canonical str'] = True
    ctx.exhaustive['ports/ICMP numbers: every integer within 300 of each range end as int and as canonical str'] = True
    for v in (10 ** 6, -10 ** 6, 2 ** 16, 2 ** 31, 2 ** 32, 2 ** 63, 2 ** 64, 10 ** 30, -10 ** 30, 10 ** 4000,
              -10 ** 4000, 2 ** 16 - 1, 2 ** 8, 2 ** 8 - 1, 65535 * 2, 65535 + 65536, 255 + 256, 256 * 256 + 255):
        emit(dict(kind='int', value=v))
        emit(dict(kind='num', cls='range/canonical-str', value=v))
    for s in INT_SPELL:
        emit(dict(kind='raw', cls='range/int-spelling', origin='directed', text=s))
    for s in INT_JUNK:
        emit(dict(kind='raw', cls='range/junk', origin='directed', text=s))

    # ---- seeded, stratified (block-sharded: a block is generated only by its owner) ----
    BLOCK = 500

    def blocks(stream, total, make):
        nblocks = (total + BLOCK - 1) // BLOCK
        for b in range(nblocks):
            if not ctx.mine(b):
                continue
            rng = ctx.rng('%s/%d' % (stream, b))
            for _ in range(BLOCK):
                case = make(rng)
                ctx.sample(case.get('cls') or case['kind'], case)
                evaluate(ctx, case)

    scale = ctx.pick(1, 100)
    blocks('v4', 22000 * scale, lambda rng: gen_v4(rng, pick_quota(rng, QUOTA_V4)))
    blocks('v6', 30000 * scale, lambda rng: gen_v6(rng, pick_quota(rng, QUOTA_V6)))
    blocks('cidr', 24000 * scale, lambda rng: gen_cidr(rng, pick_quota(rng, QUOTA_CIDR)))
    blocks('mac', 12000 * scale, lambda rng: gen_mac(rng, pick_quota(rng, QUOTA_MAC)))

    def make_num(rng):
        r = rng.random()
        if r < 0.5:
            v = rng.randrange(0, 65536)
        elif r < 0.8:
            v = rng.choice([0, 255, 256, 65535, 65536]) + rng.randrange(-40, 41)
        else:
            v = rng.randrange(-10 ** 6, 10 ** 7)
        if rng.random() < 0.5:
            return dict(kind='int', value=v)
        return dict(kind='num', cls='range/canonical-str', value=v)
    blocks('num', 6000 * scale, make_num)

    def make_mutated(rng):
        fam = rng.randrange(4)
        if fam == 0:
            base = gen_v4(rng, 'valid')
        elif fam == 1:
            base = gen_v6(rng, rng.choice(['valid', 'valid', 'scope']))
        elif fam == 2:
            base = gen_cidr(rng, 'valid')
        else:
            base = gen_mac(rng, 'valid')
        text, _ = compose(base)
        return dict(kind='raw', cls='mutated-' + base['kind'], origin='mutated', text=mutate(rng, text))
    blocks('mutated', 20000 * scale, make_mutated)

    def make_arbitrary(rng):
        r = rng.random()
        if r < 0.5:
            alpha, n = ARBITRARY, rng.randint(0, 12)
        elif r < 0.9:
            alpha, n = NARROW, rng.randint(0, 20)
        else:
            alpha, n = '0123456789.', rng.randint(1, 15)
        return dict(kind='raw', cls='arbitrary', origin='arbitrary',
                    text=''.join(rng.choice(alpha) for _ in range(n)))
    blocks('arbitrary', 14000 * scale, make_arbitrary)


LEVEL_TEXT = ('Exploration with a three-valued oracle: each text is assembled from grammar components so its class '
              '(MUST-ACCEPT / MUST-REJECT / DONT-CARE) is known constructively, and independently from the standard '
              'library\'s ipaddress parser; sub-grids around every boundary named in the statement are enumerated '
              'completely, the rest is seeded stratified sampling. Absence of exceptions is asserted on every str.')
LEVEL_NOTE = ('Trusted: ipaddress (CPython 3.12) and the small grammar model in this file; the two are cross-checked '
              'on every case where both are definite (histogram "oracle self-check"). Not claimed: the DONT-CARE '
              'zones listed in the assumptions; non-str arguments other than int for the numeric validators.')
TECHNIQUE = 'reference-model monitor (constructive grammar classes + stdlib ipaddress) over stratified generators'
