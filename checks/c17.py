"""C17 version helpers preserve ordering and PEP 440 semantics.

Three monitors over oslo_utils.versionutils:

* int/str conversion: the generator owns the component tuple, so the round
  trip, the order of two equal-length versions and the effect of a suffix are
  known constructively (tuple oracle);
* is_compatible and VersionPredicate: the generator owns a *structured*
  PEP 440 version (epoch, release, pre, post, dev), renders it to text for the
  code under test and asks vlib/models/pep440.py - which never parses text and
  never calls `packaging` - for the ordering;
* malformed predicate strings must raise ValueError.

The clause 'model-vs-packaging-selfcheck' validates the harness (model and
renderer against packaging.version.Version and against the ordered example
list printed in PEP 440); a disagreement there makes the run inconclusive, it
is not a verdict on the property.
"""
import itertools

from vlib.models import pep440 as M

PROPERTY = 'C17'
LEVEL = 'exploration'
ANCHORS = [('oslo_utils.versionutils', 'is_compatible'),
           ('oslo_utils.versionutils', 'convert_version_to_int'),
           ('oslo_utils.versionutils', 'convert_version_to_str'),
           ('oslo_utils.versionutils', 'convert_version_to_tuple'),
           ('oslo_utils.versionutils', 'VersionPredicate.__init__'),
           ('oslo_utils.versionutils', 'VersionPredicate._parse_predicate'),
           ('oslo_utils.versionutils', 'VersionPredicate.satisfied_by')]
RULE = ('conversions: every component tuple of length 1..5 over {0,1,9,10,99,100,999} with a non-zero head '
        '(exhaustive) + seeded tuples with random components 0..999; all ordered pairs of per-length pools that '
        'contain both sides of every 999/1000 carry; documented suffix spellings (a|alpha|b|beta|rc)+digits on '
        'the last component; non-numeric components at every position. is_compatible: pairs of structured '
        'PEP 440 versions by class (identical, equal with other trailing zeros/spelling, one-field neighbour, '
        'same major, other major, other epoch) x both argument orders x same_major in {True, False}. '
        'VersionPredicate: conjunctions of 1..3 comparisons over the six operators (all-true, exactly-one-false, '
        'range, random) x candidates on and around every bound; malformed strings. non-trivial = more than one '
        'component / two different texts / any predicate; distinct by the texts handed to the code under test')
REQUIRED_CLAUSES = ['equal-valued-arguments-in-any-order', 'valid-calls-after-rejected-calls-answer-as-before', 'under-warnings-as-errors', 'concurrent-calls-answer-as-alone', 'predicate-copy-answers-the-same', 'under-lazy-translation', 'documented-keyword-call', 'roundtrip', 'str-vs-tuple-input', 'int-order', 'suffix-ignored',
                    'non-numeric-ValueError', 'compat', 'predicate-parses', 'satisfied_by',
                    'malformed-predicate-ValueError', 'model-vs-packaging-selfcheck']
ASSUMPTIONS = ['"major number" is the first number of the release segment (epochs are not part of it)',
               'the PEP 440 order is the one of vlib/models/pep440.py, cross-checked in every run against '
               'packaging.version.Version and against the ordered example list of PEP 440; local version labels '
               'are not generated',
               'non-canonical spellings are limited to those PEP 440 "Normalization" declares equivalent',
               'the accepted predicate syntax is the implemented one: comma-separated "<op> <version>" items '
               'with optional blanks; distutils-style "name (...)" strings, "~=", "===", tabs are DONT-CARE',
               'suffix spellings other than (a|alpha|b|beta|rc)<digits>, components above 999, signs, blanks, '
               'leading zeros, empty components and non-ASCII digits are DONT-CARE (only: no exception other than '
               'ValueError)']
INTERPRETER_FLAGS = [[], ['-O'], ['-X', 'dev'], ['-bb']]
CONCURRENT = lambda case: case.get('kind') != 'twins' and (True)          # pure functions of their arguments; see vlib/concurrent.py
SHARDS = {'quick': 4, 'thorough': 16}

GRID = [0, 1, 9, 10, 99, 100, 999]
SUFFIX_NAMES = ['a', 'alpha', 'b', 'beta', 'rc']
SUFFIX_NUMBERS = ['0', '1', '2', '10', '999', '01', '1000', '20240101', '4294967296', '0000']      # the suffix number is not a component: no 0..999 bound
SUFFIX_DONTCARE = ['rc', 'a', 'alpha', 'b', 'beta', 'RC1', 'A1', 'Beta2', 'c1', 'pre1', 'preview1', 'dev1',
                   '.dev1', 'post1', '.post1', '-rc1', '.rc1', '_rc1', 'rc1 ', ' rc1', 'rc1\n', 'a1b2', 'rc-1',
                   'rc.1', 'alpha1.', 'rcx']
BAD_COMPONENTS = ['x', 'abc', 'x1', '1x', 'one', '1-2', '1/2', '0x10', '1e3', '$', '*', '1,2', '1:2', 'v1', '#',
                  'None', '1;x', 'é']
TEXT_DONTCARE = ['', '.', '1.', '.1', '1..2', ' 1.2', '1.2 ', '1. 2', '+1.2', '-1.2', '1.-2', '1_0.2', '01.2',
                 '1.02', '١.٢', '1.2\n', '0', '0.1', '0.0.0']
BIG = [[1000], [1, 1000], [1, 99999, 3], [999, 1000], [2 ** 40, 5], [1, 1001, 0, 0, 7]]

BAD_OPERATORS = ['=>', '=<', '<>', '=', '><', '!', '!==', '=!', '~', '>>', '<<', '<==', '=>=', 'ge', '≥']
BAD_OPERANDS = ['abc', 'x.y', '1.0.', '1..2', '.1', '1.0foo', '1.0.x', '*', '1!', 'a1']
MALFORMED_DIRECTED = [
    # from the task/statement classes: empty, blanks, empty comparison, missing operator / operand
    '', ' ', '   ', ',', ' , ', '>=1.0,', ',>=1.0', '>=1.0,,<2.0', '>=1.0, ,<2.0', '>=1.0 ,', ', <2',
    '3.0.0', 'foo', '1.0, 2.0', '>=', '>= ', '<', ' == ', '!=,>=1', '>=1.0,<',
    '>= 1.0 2.0', '>=1.0 <2.0', '>=1.0;<2.0', '>=1.0 and <2.0', '>=1.0,2.0', '>=1.0|<2.0',
    # unbalanced parentheses
    '(>=1.0', '>=1.0)', 'name (>=1.0', 'name >=1.0)', '(>=1.0, <2.0', '>=1.0, <2.0)', 'name (>=1.0, <2.0',
    '((>=1.0)', 'name (', 'name )', '(', ')',
    # the repository's own negative examples
    '<> 3.0.0', '>abc',
]
PREDICATE_DONTCARE = ['name (>=1.0, <2.0)', 'name (>=1.0)', '(>=1.0)', '(>=1.0, <2.0)', 'name', 'name ()', '()',
                      '~=1.0', '===1.0', '>=1.0\t', '\n>=1.0', '>=\t1.0', '>=1.0,\t<2.0', '>=1.0+local',
                      '== 1.0.*', '>=1.0 \n']

BLOCK = 500


# ----------------------------------------------------------------------
# helpers
# ----------------------------------------------------------------------
def call(f, *a, **kw):
    try:
        return f(*a, **kw), None
    except BaseException as e:  # noqa
        return None, e


def dotted(v):
    return '.'.join(str(c) for c in v)


def sign(x):
    return (x > 0) - (x < 0)


def is_int(x):
    return isinstance(x, int) and not isinstance(x, bool)


# ----------------------------------------------------------------------
# monitors
# ----------------------------------------------------------------------
def eval_rt(ctx, case, vu):
    v = tuple(case['v'])
    s = dotted(v)
    ctx.case(('rt', s), nontrivial=len(v) > 1)
    ctx.h('conversion length', len(v))
    i_s, e_s = call(vu.convert_version_to_int, s)
    i_t, e_t = call(vu.convert_version_to_int, v)
    ctx.clause('str-vs-tuple-input')
    if e_s is not None or e_t is not None or not is_int(i_s) or not is_int(i_t):
        ctx.fail('valid-version-must-convert-to-int', case,
                 {'text': s, 'from_str': i_s, 'from_tuple': i_t, 'exc_str': e_s, 'exc_tuple': e_t})
        return
    if i_s != i_t:
        ctx.fail('str-vs-tuple-input', case, {'text': s, 'from_str': i_s, 'from_tuple': i_t})
    ctx.clause('roundtrip')
    back, e = call(vu.convert_version_to_str, i_s)
    if e is not None or back != s:
        ctx.fail('roundtrip', case, {'text': s, 'int': i_s, 'back': back, 'exc': e})
    if i_t != i_s:
        back, e = call(vu.convert_version_to_str, i_t)
        if e is not None or back != s:
            ctx.fail('roundtrip', case, {'tuple': v, 'int': i_t, 'back': back, 'exc': e})
    ctx.clause('tuple-of-plain-version')
    t, e = call(vu.convert_version_to_tuple, s)
    if e is not None or not isinstance(t, tuple) or t != v:
        ctx.fail('tuple-of-plain-version', case, {'text': s, 'got': t, 'exc': e})


def eval_order(ctx, case, vu):
    a, b, form = tuple(case['a']), tuple(case['b']), case['form']
    arg_a = dotted(a) if form in ('str', 'str-tuple') else a
    arg_b = dotted(b) if form in ('str', 'tuple-str') else b
    ctx.case(('order', a, b, form), nontrivial=a != b)
    ctx.clause('int-order')
    ia, ea = call(vu.convert_version_to_int, arg_a)
    ib, eb = call(vu.convert_version_to_int, arg_b)
    want = sign((a > b) - (a < b))
    ctx.h('int order', {-1: 'a<b', 0: 'a=b', 1: 'a>b'}[want])
    if ea is not None or eb is not None or not is_int(ia) or not is_int(ib):
        ctx.fail('valid-version-must-convert-to-int', case, {'ia': ia, 'ib': ib, 'exc_a': ea, 'exc_b': eb})
        return
    if sign(ia - ib) != want:
        ctx.fail('int-order', case, {'a': arg_a, 'b': arg_b, 'ia': ia, 'ib': ib, 'tuple_order': want})


def eval_suffix(ctx, case, vu):
    v, suffix, cls = tuple(case['v']), case['suffix'], case['cls']
    text = dotted(v) + suffix
    ctx.case(('suffix', text))
    ctx.h('suffix class', cls if cls != 'documented' else 'documented/' + suffix.rstrip('0123456789'))
    t, e_t = call(vu.convert_version_to_tuple, text)
    i, e_i = call(vu.convert_version_to_int, text)
    if cls == 'documented':
        ctx.clause('suffix-ignored')
        if e_t is not None or not isinstance(t, tuple) or t != v:
            ctx.fail('suffix-ignored', case, {'text': text, 'tuple': t, 'exc': e_t, 'want': v})
        if e_i is not None or not is_int(i):
            ctx.fail('suffix-ignored', case, {'text': text, 'int': i, 'exc': e_i})
        elif all(0 <= c <= 999 for c in v) and v[0] != 0:
            back, e = call(vu.convert_version_to_str, i)
            if e is not None or back != dotted(v):
                ctx.fail('suffix-ignored', case, {'text': text, 'int': i, 'back': back, 'exc': e,
                                                  'want': dotted(v)})
    else:
        ctx.clause('suffix-dontcare-no-unexpected-exception')
        for e in (e_t, e_i):
            if e is not None and not isinstance(e, ValueError):
                ctx.fail('unexpected-exception-type', case, {'text': text, 'exc': e})


def eval_bad(ctx, case, vu):
    text, cls = case['text'], case['cls']
    ctx.case(('bad', text))
    ctx.h('non-version text class', cls)
    t, e_t = call(vu.convert_version_to_tuple, text)
    i, e_i = call(vu.convert_version_to_int, text)
    if cls == 'must-reject':
        ctx.clause('non-numeric-ValueError')
        if not isinstance(e_t, ValueError):
            ctx.fail('non-numeric-component-must-raise-ValueError', case,
                     {'function': 'convert_version_to_tuple', 'text': text, 'got': t, 'exc': e_t})
        if not isinstance(e_i, ValueError):
            ctx.fail('non-numeric-component-must-raise-ValueError', case,
                     {'function': 'convert_version_to_int', 'text': text, 'got': i, 'exc': e_i})
    else:
        ctx.clause('text-dontcare-no-unexpected-exception')
        for e in (e_t, e_i):
            if e is not None and not isinstance(e, ValueError):
                ctx.fail('unexpected-exception-type', case, {'text': text, 'exc': e})


def eval_big(ctx, case, vu):
    v = tuple(case['v'])
    ctx.case(('big', v))
    ctx.clause('component-above-999-dontcare')
    i, e = call(vu.convert_version_to_int, dotted(v))
    if e is not None and not isinstance(e, ValueError):
        ctx.fail('unexpected-exception-type', case, {'exc': e})
    if is_int(i):
        back, e = call(vu.convert_version_to_str, i)
        if e is not None and not isinstance(e, ValueError):
            ctx.fail('unexpected-exception-type', case, {'int': i, 'exc': e})


def eval_compat(ctx, case, vu):
    req, cur = M.from_json(case['req']), M.from_json(case['cur'])
    req_s, cur_s = case['req_s'], case['cur_s']
    c = M.compare(cur, req)
    same = M.major(req) == M.major(cur)
    rel = {-1: 'cur<req', 0: 'cur=req', 1: 'cur>req'}[c]
    for sm in (True, False):
        want = c >= 0 and (same or not sm)
        ctx.case(('compat', req_s, cur_s, sm), nontrivial=req_s != cur_s)
        ctx.clause('compat')
        ctx.h('compat outcome', '%s/major-%s/same_major=%s -> %s' % (
            rel, 'same' if same else 'differs', sm, want))
        ctx.h('compat generator class', case.get('gen', '?'))
        if case.get('kw'):
            got, e = call(vu.is_compatible, req_s, cur_s, same_major=sm)
        else:
            got, e = call(vu.is_compatible, req_s, cur_s, sm)
        if e is not None:
            ctx.fail('is_compatible-must-not-raise-on-valid-versions', case,
                     {'requested': req_s, 'current': cur_s, 'same_major': sm, 'exc': e})
        elif bool(got) != want:
            ctx.fail('compat', case, {'requested': req_s, 'current': cur_s, 'same_major': sm,
                                      'got': got, 'want': want, 'model_order_cur_vs_req': c,
                                      'majors': [M.major(req), M.major(cur)]})


def eval_pred(ctx, case, vu):
    comps = [(op, M.from_json(vj)) for op, vj in case['comps']]
    pred_s = case['pred_s']
    ctx.clause('predicate-parses')
    pred, e = call(vu.VersionPredicate, pred_s)
    if e is not None:
        ctx.case(('pred', pred_s))
        ctx.fail('wellformed-predicate-must-parse', case, {'predicate': pred_s, 'exc': e})
        return
    # the predicate object may be copied (copy / deepcopy / pickle round trip) before it is asked
    import copy
    import pickle
    import zlib
    how = ('plain', 'copy', 'deepcopy', 'pickle')[zlib.crc32(pred_s.encode()) % 4]
    if how != 'plain':
        ctx.clause('predicate-copy-answers-the-same')
        cp, e = call({'copy': copy.copy, 'deepcopy': copy.deepcopy,
                      'pickle': lambda o: pickle.loads(pickle.dumps(o))}[how], pred)
        if e is not None:
            ctx.case(('pred', pred_s))
            ctx.fail('predicate-copy-answers-the-same', case, {'predicate': pred_s, 'how': how, 'exc': e})
            return
        pred = cp
    for vj, text in case['cands']:
        cand = M.from_json(vj)
        truths = [M.holds(op, cand, bound) for op, bound in comps]
        want = all(truths)
        ctx.case(('pred', pred_s, text))
        ctx.clause('satisfied_by')
        for (op, _b), t in zip(comps, truths):
            ctx.h('operator x outcome', '%s/%s' % (op, 'true' if t else 'false'))
        nfalse = len(truths) - sum(truths)
        ctx.h('predicate outcome', 'n=%d/%s' % (len(comps), 'satisfied' if want else
                                                 '%d-false' % nfalse if nfalse < len(comps) else 'all-false'))
        got, e = call(pred.satisfied_by, text)
        if e is not None:
            ctx.fail('satisfied_by-must-not-raise-on-valid-version', case,
                     {'predicate': pred_s, 'version': text, 'exc': e})
        elif bool(got) != want:
            ctx.fail('satisfied_by', case, {'predicate': pred_s, 'version': text, 'got': got, 'want': want,
                                            'per_comparison': [[op, M.render(b), t] for (op, b), t
                                                               in zip(comps, truths)]})


def eval_malformed(ctx, case, vu):
    text, cls = case['text'], case['cls']
    ctx.case(('malformed', text))
    ctx.h('malformed predicate class', case.get('why', cls))
    if cls == 'must-reject':
        # whatever was parsed earlier in this process - in particular the same text without its blanks, which may be
        # a well-formed predicate - does not make a malformed one acceptable
        call(vu.VersionPredicate, ''.join(text.split()))
    got, e = call(vu.VersionPredicate, text)
    if cls == 'must-reject':
        ctx.clause('malformed-predicate-ValueError')
        if not isinstance(e, ValueError):
            ctx.fail('malformed-predicate-must-raise-ValueError', case,
                     {'predicate': text, 'exc': e, 'accepted': e is None,
                      'parsed': getattr(got, 'pred', None) if e is None else None})
    else:
        ctx.clause('predicate-dontcare-no-unexpected-exception')
        if e is not None and not isinstance(e, ValueError):
            ctx.fail('unexpected-exception-type', case, {'predicate': text, 'exc': e})


EVAL = {'rt': eval_rt, 'order': eval_order, 'suffix': eval_suffix, 'bad': eval_bad, 'big': eval_big,
        'compat': eval_compat, 'pred': eval_pred, 'malformed': eval_malformed}


def TWIN_FUNCS():
    from oslo_utils import versionutils as vu
    return {'is_compatible_requested': lambda v: vu.is_compatible(v, '1.5.0'),
            'is_compatible_current': lambda v: vu.is_compatible('1.0', v, same_major=False),
            'convert_version_to_int': lambda v: vu.convert_version_to_int(v),
            'convert_version_to_tuple': lambda v: vu.convert_version_to_tuple(v),
            'convert_version_to_str': lambda v: vu.convert_version_to_str(v),
            'VersionPredicate': lambda v: vu.VersionPredicate(v).satisfied_by('1.2.0')}


TWIN_TEXT_FUNCS = ['is_compatible_requested', 'is_compatible_current', 'convert_version_to_int', 'convert_version_to_tuple',
                   'VersionPredicate']
TWIN_TEXTS = ['1.2.3', '1.0RC1', '2.0b1', '1.0A1', 'V1.0', '1.5.0.Dev3', '>=1.0RC1,<2.0', '!=1.2.0', '1.2.3B2', '==1.2.0.Post0']
TWIN_NUM_FUNCS = ['convert_version_to_str']
TWIN_NUMBERS = [0, 1000, 1002003, 2000000, 999999999]


def _evaluate_plain(ctx, case):
    if case.get('kind') == 'twins':
        from vlib import twins as _tw
        return _tw.evaluate_case(ctx, case, TWIN_FUNCS())
    from oslo_utils import versionutils as vu
    from vlib import callstyle
    vu = callstyle.proxy(vu)
    EVAL[case['kind']](ctx, case, vu)


from vlib import envmodes  # noqa: E402
evaluate = envmodes.with_modes(_evaluate_plain, lazy=lambda case: True, warn=lambda case: True, digits=lambda case: True)


# ----------------------------------------------------------------------
# generators: conversions
# ----------------------------------------------------------------------
def grid_tuples():
    for n in range(1, 6):
        for v in itertools.product(GRID, repeat=n):
            if v[0] != 0:
                yield v


def random_tuple(rng, n=None):
    n = n or rng.randint(1, 5)
    v = [rng.choice(GRID) if rng.random() < 0.5 else rng.randrange(1000) for _ in range(n)]
    if v[0] == 0:
        v[0] = rng.choice(GRID[1:]) if rng.random() < 0.5 else rng.randrange(1, 1000)
    return tuple(v)


def order_pool(rng, n, nrandom):
    """Equal-length tuples with both sides of every carry at the 999 boundary."""
    pool = set()
    for head in (1, 9, 99, 998):
        for k in range(1, n + 1):          # k leading components, the rest at the extremes
            lead = (head,) + (0,) * (k - 1)
            pool.add(lead + (999,) * (n - k))
            pool.add(lead[:-1] + (lead[-1] + 1,) + (0,) * (n - k))
            pool.add(lead + (0,) * (n - k))
            pool.add(lead + (998,) * (n - k))
    pool.add((999,) * n)
    pool.add((999,) * (n - 1) + (998,))
    pool.add((1,) + (0,) * (n - 1))
    pool.add((1,) * n)
    for x, y in ((9, 10), (10, 9), (99, 100), (100, 99), (999, 1), (1, 999), (100, 999), (999, 100)):
        pool.add(tuple((x, y)[i % 2] for i in range(n)))
    if n <= 3:
        for v in itertools.product((0, 1, 998, 999), repeat=n):
            if v[0]:
                pool.add(v)
    for _ in range(nrandom):
        v = random_tuple(rng, n)
        pool.add(v)
        i = rng.randrange(n)                # and a neighbour differing by one in one component
        d = v[i] + rng.choice((-1, 1))
        if 0 <= d <= 999 and (i or d):
            pool.add(v[:i] + (d,) + v[i + 1:])
        if n > 1:                           # and one that trades a high-order +1 for a low-order drop
            j = rng.randrange(n - 1)
            if v[j] < 999:
                pool.add(v[:j] + (v[j] + 1,) + tuple(rng.choice((0, 1)) for _ in range(n - j - 1)))
    return sorted(v for v in pool if v[0] != 0 and all(0 <= c <= 999 for c in v))


# ----------------------------------------------------------------------
# generators: PEP 440 versions
# ----------------------------------------------------------------------
REL_POOL = [0, 0, 1, 1, 2, 3, 9, 10, 11, 99, 100, 2024]


def gen_version(rng):
    rel = tuple(rng.choice(REL_POOL) if rng.random() < 0.8 else rng.randrange(60)
                for _ in range(rng.choice((1, 2, 2, 3, 3, 3, 4))))
    pre = post = dev = None
    if rng.random() < 0.45:
        pre = (rng.choice(M.PRE_LETTERS), rng.choice((0, 1, 1, 2, 3, 10, rng.randrange(20))))
    if rng.random() < 0.3:
        post = rng.choice((0, 1, 2, 10, rng.randrange(20)))
    if rng.random() < 0.3:
        dev = rng.choice((0, 1, 2, 10, rng.randrange(500)))
    epoch = rng.choice((0, 0, 0, 0, 0, 0, 1, 2))
    return M.make(epoch, rel, pre, post, dev)


def neighbours(v):
    """Versions one structural edit away (smaller, equal and greater ones)."""
    out = []
    rel = v.release
    for i in range(len(rel)):
        out.append(v._replace(release=rel[:i] + (rel[i] + 1,) + rel[i + 1:]))
        if rel[i] > 0:
            out.append(v._replace(release=rel[:i] + (rel[i] - 1,) + rel[i + 1:]))
    out.append(v._replace(release=rel + (0,)))
    out.append(v._replace(release=rel + (0, 0)))
    out.append(v._replace(release=rel + (1,)))
    out.append(v._replace(release=rel + (0, 1)))
    if len(rel) > 1:
        out.append(v._replace(release=rel[:-1]))
    for letter in M.PRE_LETTERS:
        for n in (0, 1):
            out.append(v._replace(pre=(letter, n)))
    if v.pre is not None:
        out.append(v._replace(pre=None))
        out.append(v._replace(pre=(v.pre[0], v.pre[1] + 1)))
        if v.pre[1] > 0:
            out.append(v._replace(pre=(v.pre[0], v.pre[1] - 1)))
    for field in ('post', 'dev'):
        n = getattr(v, field)
        if n is None:
            out.append(v._replace(**{field: 0}))
            out.append(v._replace(**{field: 1}))
        else:
            out.append(v._replace(**{field: None}))
            out.append(v._replace(**{field: n + 1}))
            if n > 0:
                out.append(v._replace(**{field: n - 1}))
    out.append(v._replace(epoch=v.epoch + 1))
    if v.epoch > 0:
        out.append(v._replace(epoch=v.epoch - 1))
    return out


def other_zeros(rng, v):
    """Same version, different number of trailing zeros in the release."""
    rel = v.release
    if len(rel) > 1 and rel[-1] == 0 and rng.random() < 0.5:
        return v._replace(release=rel[:-1])
    return v._replace(release=rel + (0,) * rng.randint(1, 2))


def random_style(rng):
    return {name: rng.randrange(n) for name, n in M.STYLE_FIELDS}


def text_of(rng, v, p_alt=0.3):
    if rng.random() < p_alt:
        return M.render_alt(v, random_style(rng))
    return M.render(v)


def with_major(v, m):
    return v._replace(release=(m,) + v.release[1:])


def gen_pair(rng, k):
    a = gen_version(rng)
    if k == 0:
        return 'identical', a, a
    if k == 1:
        return 'equal-other-zeros', a, other_zeros(rng, a)
    if k in (2, 3, 4):
        return 'one-field-neighbour', a, rng.choice(neighbours(a))
    if k == 5:
        b = gen_version(rng)
        return 'random-same-major-same-epoch', a, with_major(b, M.major(a))._replace(epoch=a.epoch)
    if k == 6:
        b = gen_version(rng)._replace(epoch=a.epoch)
        if M.major(b) == M.major(a):
            b = with_major(b, M.major(a) + rng.choice((1, 2, 10)))
        return 'random-other-major-same-epoch', a, b
    if k == 7:
        b = with_major(gen_version(rng), M.major(a))._replace(epoch=a.epoch + rng.choice((1, 2)))
        return 'other-epoch-same-major', a, b
    if k == 8:
        b = rng.choice(neighbours(a) + [a, a])
        return 'major-off-by-one-else-neighbour', a, with_major(b, M.major(a) + 1)
    return 'random', a, gen_version(rng)


def pep440_example_chain():
    """The ordered example list of PEP 440 (without the local-version lines)."""
    mk = M.make
    return [mk(0, (1,), dev=0), mk(0, (1, 0), dev=456), mk(0, (1, 0), ('a', 1)),
            mk(0, (1, 0), ('a', 2), dev=456), mk(0, (1, 0), ('a', 12), dev=456), mk(0, (1, 0), ('a', 12)),
            mk(0, (1, 0), ('b', 1), dev=456), mk(0, (1, 0), ('b', 2)),
            mk(0, (1, 0), ('b', 2), post=345, dev=456), mk(0, (1, 0), ('b', 2), post=345),
            mk(0, (1, 0), ('rc', 1), dev=456), mk(0, (1, 0), ('rc', 1)), mk(0, (1, 0)),
            mk(0, (1, 0), post=456, dev=34), mk(0, (1, 0), post=456), mk(0, (1, 0, 15)),
            mk(0, (1, 1), dev=1),
            # "Version epochs": 2013.10 < 2014.04 < 1!1.0 < 1!1.1 < 1!2.0
            mk(0, (2013, 10)), mk(0, (2014, 4)), mk(1, (1, 0)), mk(1, (1, 1)), mk(1, (2, 0))]


# ----------------------------------------------------------------------
# generators: predicates
# ----------------------------------------------------------------------
def ops_with_truth(cand, bound, truth):
    return [op for op in M.OPERATORS if M.holds(op, cand, bound) == truth]


def gen_predicate(rng, mode):
    ncomp = rng.choice((1, 2, 2, 3, 3))
    c = gen_version(rng)
    around = neighbours(c) + [c, c, other_zeros(rng, c)]
    comps = []
    if mode in ('all-true', 'one-false'):
        bounds = [rng.choice(around) if rng.random() < 0.8 else gen_version(rng) for _ in range(ncomp)]
        wrong = rng.randrange(ncomp) if mode == 'one-false' else -1
        for i, b in enumerate(bounds):
            comps.append((rng.choice(ops_with_truth(c, b, i != wrong)), b))
    elif mode == 'range':
        lo, hi = c, rng.choice(around)
        if M.compare(lo, hi) > 0:
            lo, hi = hi, lo
        comps = [(rng.choice(('>=', '>')), lo), (rng.choice(('<', '<=')), hi)]
        if ncomp == 3:
            comps.append((rng.choice(('!=', '==')), rng.choice((lo, hi, rng.choice(neighbours(lo))))))
        elif ncomp == 1:
            comps = comps[:1] if rng.random() < 0.5 else comps[1:]
        rng.shuffle(comps)
    else:
        comps = [(rng.choice(M.OPERATORS), rng.choice(around) if rng.random() < 0.6 else gen_version(rng))
                 for _ in range(ncomp)]
    items = []
    for op, b in comps:
        items.append(rng.choice(('', '', ' ', '  ')) + op + rng.choice(('', '', ' ', '  ')) +
                     text_of(rng, b, 0.2) + rng.choice(('', '', ' ')))
    cands = [c]
    for _op, b in comps:
        cands.append(b)
        cands.append(other_zeros(rng, b))
        cands.append(rng.choice(neighbours(b)))
    cands.append(gen_version(rng))
    return {'kind': 'pred', 'gen': mode, 'pred_s': ','.join(items),
            'comps': [[op, M.to_json(b)] for op, b in comps],
            'cands': [[M.to_json(x), text_of(rng, x, 0.2)] for x in cands]}


def broken_predicates(rng, n):
    """Well-formed conjunctions with exactly one defect."""
    out = []
    for i in range(n):
        ncomp = rng.randint(1, 3)
        items = ['%s%s%s' % (rng.choice(M.OPERATORS), rng.choice(('', ' ')), M.render(gen_version(rng)))
                 for _ in range(ncomp)]
        j = rng.randrange(ncomp)
        op = next(o for o in ('<=', '>=', '!=', '==', '<', '>') if items[j].startswith(o))
        rest = items[j][len(op):]
        k = i % 8
        if k == 0:
            why, items[j] = 'bad-operator', rng.choice(BAD_OPERATORS) + rest
        elif k == 1:
            why, items[j] = 'missing-operator', rest.strip()
        elif k == 2:
            why, items[j] = 'missing-version', op + rng.choice(('', ' '))
        elif k == 3:
            why = 'empty-comparison'
            items.insert(rng.randint(0, ncomp), rng.choice(('', ' ', '  ')))
        elif k == 4:
            why, items[j] = 'non-version-operand', op + rng.choice(('', ' ')) + rng.choice(BAD_OPERANDS)
        elif k == 5:
            why, items[j] = 'two-operands', items[j] + ' ' + M.render(gen_version(rng))
        elif k == 6:
            why = 'unbalanced-parenthesis'
            if rng.random() < 0.5:
                items[0] = rng.choice(('(', 'name (', 'pkg(')) + items[0]
            else:
                items[-1] = items[-1] + rng.choice((')', ' )'))
        else:
            why = 'wrong-separator'
            if ncomp == 1:
                items.append('<' + M.render(gen_version(rng)))
            text = rng.choice((';', ' ', ' and ', '|', '&&')).join(items)
            out.append({'kind': 'malformed', 'cls': 'must-reject', 'why': why, 'text': text})
            continue
        out.append({'kind': 'malformed', 'cls': 'must-reject', 'why': why, 'text': ','.join(items)})
    return out


# ----------------------------------------------------------------------
# harness validation
# ----------------------------------------------------------------------
def selfcheck(ctx, n):
    """Model and renderer against packaging and against PEP 440's own list."""
    import packaging.version
    P = packaging.version.Version
    ctx.clause('model-vs-packaging-selfcheck')
    chain = pep440_example_chain()
    for i, j in itertools.combinations(range(len(chain)), 2):
        if M.compare(chain[i], chain[j]) != -1 or M.compare(chain[j], chain[i]) != 1:
            ctx.inconclusive_because('model contradicts the PEP 440 example order: %s !< %s' % (
                M.render(chain[i]), M.render(chain[j])))
    rng = ctx.rng('selfcheck/%d' % ctx.shard)

    def parsed_ok(v, text):
        try:
            p = P(text)
        except Exception as e:  # noqa
            ctx.inconclusive_because('renderer produced %r for %r, rejected by packaging: %r' % (text, v, e))
            return None
        if (p.epoch, tuple(p.release), p.pre, p.post, p.dev, p.local) != (
                v.epoch, v.release, v.pre, v.post, v.dev, None):
            ctx.inconclusive_because('renderer: %r is read by packaging as %r, built from %r' % (text, p, v))
            return None
        return p

    for i in range(n):
        _cls, a, b = gen_pair(rng, i % 10)
        pa = parsed_ok(a, text_of(rng, a, 0.5))
        pb = parsed_ok(b, text_of(rng, b, 0.5))
        if pa is None or pb is None:
            return
        ctx.clause('model-vs-packaging-selfcheck')
        if M.compare(a, b) != (pa > pb) - (pa < pb) or (M.compare(a, b) == 0) != (pa == pb):
            ctx.inconclusive_because('model order of %s vs %s is %d, packaging disagrees' % (
                M.render(a), M.render(b), M.compare(a, b)))
            return
        for op in M.OPERATORS:
            py = {'<': pa < pb, '<=': pa <= pb, '==': pa == pb, '!=': pa != pb, '>=': pa >= pb, '>': pa > pb}[op]
            if M.holds(op, a, b) != py:
                ctx.inconclusive_because('model: %s %s %s disagrees with packaging' % (
                    M.render(a), op, M.render(b)))
                return


# ----------------------------------------------------------------------
# workload
# ----------------------------------------------------------------------

def REJECTED_FUNCS(ctx):
    from oslo_utils import versionutils as vu
    return [vu.is_compatible, vu.convert_version_to_int, vu.convert_version_to_str, vu.convert_version_to_tuple,
            vu.VersionPredicate]


def HAMMER(ctx):
    from oslo_utils import versionutils as vu
    out = []
    for req, cur, sm in (('1.0', '1.1', True), ('2.0', '1.9', True), ('1.2.3', '1.2.3', False), ('3.1', '4.0', True),
                         ('3.1', '4.0', False), ('1.0rc1', '1.0', True), ('1.0.post1', '1.0', True), ('0.9', '0.10', True),
                         ('2!1.0', '1!9.0', False), ('1.0', '1.0.dev1', True)):
        out.append(('is_compatible(%r, %r, %r)' % (req, cur, sm), lambda a=req, b=cur, c=sm: vu.is_compatible(a, b, same_major=c)))
    for v in ('1.2.3', '10.20.30', '0.0.1', '999.999.999', '1.2.3rc1', '7.1', '1.x'):
        out.append(('convert_version_to_int(%r)' % v, lambda t=v: vu.convert_version_to_int(t)))
        out.append(('convert_version_to_tuple(%r)' % v, lambda t=v: vu.convert_version_to_tuple(t)))
    for p, v in (('>=1.0,<2.0', '1.5'), ('>=1.0,<2.0', '2.0'), ('!=1.3', '1.3'), ('<=2.0rc1', '2.0b1'), ('>1.0', '1.0.post1')):
        out.append(('VersionPredicate(%r).satisfied_by(%r)' % (p, v), lambda a=p, b=v: vu.VersionPredicate(a).satisfied_by(b)))
    return out

def run(ctx):
    # ---- the same characters / the same number handed over as other objects, in several orders (vlib/twins.py)
    from vlib import twins as _tw
    for _i, _case in enumerate(_tw.make_cases(ctx.rng('twins'), ctx.pick(160, 8000), TWIN_TEXT_FUNCS, TWIN_TEXTS,
                                              TWIN_NUM_FUNCS, TWIN_NUMBERS)):
        if ctx.mine(_i):
            evaluate(ctx, _case)
    idx = 0

    def emit(case, klass=None):
        nonlocal idx
        idx += 1
        if ctx.mine(idx):
            ctx.sample(klass or case['kind'], case)
            evaluate(ctx, case)

    def blocks(stream, total):
        """Seeded generation in blocks; a worker generates only its own blocks."""
        for blk in range((total + BLOCK - 1) // BLOCK):
            if ctx.mine(blk):
                yield blk, ctx.rng('%s/%d' % (stream, blk)), min(BLOCK, total - blk * BLOCK)

    selfcheck(ctx, ctx.pick(4000, 1500))

    # informative only: the statement fixes round trip and order, not the radix of the encoding
    from oslo_utils import versionutils as vu
    from vlib import callstyle
    vu = callstyle.proxy(vu)
    radix, _e = call(vu.convert_version_to_int, '1.0')
    if is_int(radix):
        ctx.extra['convert_version_to_int("1.0") (radix of the encoding; recorded, not asserted)'] = radix

    # ---- conversions --------------------------------------------------
    for v in [(6, 2, 0), (1, 2, 3), (1, 0, 0), (1,), (999,), (1, 999), (2, 0), (999, 999, 999, 999, 999)]:
        emit({'kind': 'rt', 'v': list(v)})
    for v in grid_tuples():
        emit({'kind': 'rt', 'v': list(v)})
    ctx.exhaustive['component tuples of length 1..5 over {0,1,9,10,99,100,999}, head non-zero'] = True
    for _blk, rng, n in blocks('rt', ctx.pick(8000, 1600000)):
        for _ in range(n):
            evaluate(ctx, {'kind': 'rt', 'v': list(random_tuple(rng))})

    forms = ('str', 'tuple', 'str-tuple', 'tuple-str')
    prng = ctx.rng('order-pool')
    for n in range(1, 6):
        pool = order_pool(prng, n, ctx.pick(14, 90))
        ctx.extra['order pool size, length %d' % n] = len(pool)
        for a, b in itertools.product(pool, repeat=2):
            emit({'kind': 'order', 'a': list(a), 'b': list(b), 'form': forms[idx % 4]})

    bases = [(1,), (5,), (999,), (1, 2, 3), (1, 2), (10, 0), (1, 0, 0), (2, 999), (1, 2, 3, 4), (9, 10, 99, 100, 999),
             (1, 0), (7, 0, 0, 0, 0), (100, 10, 1)]
    for v, name, num in itertools.product(bases, SUFFIX_NAMES, SUFFIX_NUMBERS):
        emit({'kind': 'suffix', 'v': list(v), 'suffix': name + num, 'cls': 'documented'}, 'suffix/documented')
    for v, suffix in itertools.product(bases[:6], SUFFIX_DONTCARE):
        emit({'kind': 'suffix', 'v': list(v), 'suffix': suffix, 'cls': 'dontcare'}, 'suffix/dontcare')
    for _blk, rng, n in blocks('suffix', ctx.pick(3000, 60000)):
        for _ in range(n):
            evaluate(ctx, {'kind': 'suffix', 'v': list(random_tuple(rng)), 'cls': 'documented',
                           'suffix': rng.choice(SUFFIX_NAMES) + str(rng.choice((0, 1, 2, rng.randrange(1000), rng.randrange(1000, 10 ** 9))))})
    # a suffix anywhere but on the last component is a non-numeric component
    for v, name, pos in itertools.product([(1, 2, 3), (1, 2), (9, 10, 99, 100, 999)], SUFFIX_NAMES, range(4)):
        if pos < len(v) - 1:
            parts = [str(c) for c in v]
            parts[pos] += name + '1'
            emit({'kind': 'bad', 'text': '.'.join(parts), 'cls': 'must-reject'}, 'bad/must-reject')
    # a last component that merely ENDS like a documented suffix: digits, extra letters, then name+digits
    import re as _re
    documented = _re.compile(r'^[0-9]+(a|alpha|b|beta|rc)[0-9]+$')
    rj = ctx.rng('suffix-junk')
    junk_last = set()
    for name in SUFFIX_NAMES:
        for junk in ['a', 'b', 'r', 'c', 'rc', 'h', 't', 'l', 'e', 'x', name[0], name[-1], name, name[::-1], 'p', 'al', 'ph', 'et']:
            for num in ('1', '2', '10'):
                for head in ('3', '0', '10'):
                    junk_last.add(head + junk + name + num)
                junk_last.add(junk + name + num)                    # no number at all in front
    for _ in range(ctx.pick(300, 5000)):
        name = rj.choice(SUFFIX_NAMES)
        junk = ''.join(rj.choice('abcehlprt' + name) for _ in range(rj.randrange(1, 4)))
        junk_last.add(str(rj.randrange(0, 1000)) + junk + name + str(rj.randrange(0, 100)))
    for last in sorted(junk_last):
        if documented.match(last):
            continue
        for front in ('1.2.', '7.', ''):
            emit({'kind': 'bad', 'text': front + last, 'cls': 'must-reject'}, 'bad/junk-before-suffix')
    # incomplete suffixes: the marker without its number, or the number with text after it ("a complete alpha/beta/rc suffix"
    # is marker + digits at the very end of the last component)
    for name in SUFFIX_NAMES:
        for head in ('0', '3', '10', '999'):
            for front in ('1.2.', '7.', '', '1.2.3.4.'):
                for tail in ('', 'x', '.', '-', ' ', '1x', '1.', '1 ', '1-1', '_1'):
                    emit({'kind': 'bad', 'text': front + head + name + tail, 'cls': 'must-reject'}, 'bad/incomplete-suffix')
                emit({'kind': 'bad', 'text': front + head + name.upper(), 'cls': 'must-reject'}, 'bad/incomplete-suffix')
    for comp in BAD_COMPONENTS:
        for n in range(1, 6):
            for pos in range(n):
                parts = [str(c) for c in (1, 2, 3, 4, 5)[:n]]
                parts[pos] = comp
                emit({'kind': 'bad', 'text': '.'.join(parts), 'cls': 'must-reject'}, 'bad/must-reject')
    for text in TEXT_DONTCARE:
        emit({'kind': 'bad', 'text': text, 'cls': 'dontcare'}, 'bad/dontcare')
    for v in BIG:
        emit({'kind': 'big', 'v': v})

    # ---- is_compatible ------------------------------------------------
    chain = pep440_example_chain()
    for a, b in itertools.product(chain, repeat=2):
        emit({'kind': 'compat', 'gen': 'PEP 440 example list', 'kw': bool(idx % 2),
              'req': M.to_json(a), 'cur': M.to_json(b), 'req_s': M.render(a), 'cur_s': M.render(b)})
    # the repository's documented reading of same_major: "1.x" vs "2.x"
    for rs, cs, rv, cv in [('2.0', '2.0', (2, 0), (2, 0)), ('1.9', '2.0', (1, 9), (2, 0)),
                           ('2.0', '1.9', (2, 0), (1, 9)), ('1.0', '1.0.0', (1, 0), (1, 0, 0)),
                           ('1', '1.0', (1,), (1, 0)), ('1.2.3', '1.2.4', (1, 2, 3), (1, 2, 4))]:
        emit({'kind': 'compat', 'gen': 'directed', 'kw': True, 'req': M.to_json(M.make(0, rv)),
              'cur': M.to_json(M.make(0, cv)), 'req_s': rs, 'cur_s': cs})
    for blk, rng, n in blocks('compat', ctx.pick(60000, 5000000)):
        for i in range(n):
            gen, a, b = gen_pair(rng, (blk * BLOCK + i) % 10)
            if rng.random() < 0.5:
                a, b = b, a
            evaluate(ctx, {'kind': 'compat', 'gen': gen, 'kw': rng.random() < 0.5,
                           'req': M.to_json(a), 'cur': M.to_json(b),
                           'req_s': text_of(rng, a), 'cur_s': text_of(rng, b)})

    # ---- VersionPredicate ---------------------------------------------
    two, two1, one9, one10, three = (M.make(0, r) for r in ((2, 0, 0), (2, 1, 0), (1, 9, 9), (1, 10, 0), (3, 0, 0)))
    for op in M.OPERATORS:
        for lead, mid in (('', ''), ('', ' '), (' ', ' ')):
            emit({'kind': 'pred', 'gen': 'directed', 'pred_s': lead + op + mid + '2.0.0',
                  'comps': [[op, M.to_json(two)]],
                  'cands': [[M.to_json(x), M.render(x)] for x in (two, two1, one9, one10, three)]})
    emit({'kind': 'pred', 'gen': 'directed', 'pred_s': ' < 2.0.0, >= 1.0.0 ',
          'comps': [['<', M.to_json(two)], ['>=', M.to_json(M.make(0, (1, 0, 0)))]],
          'cands': [[M.to_json(M.make(0, r)), '.'.join(map(str, r))]
                    for r in ((1, 0, 0), (1, 10, 0), (0, 9, 0), (2, 0, 0))]})
    modes = ('all-true', 'one-false', 'range', 'random')
    for blk, rng, n in blocks('pred', ctx.pick(9000, 800000)):
        for i in range(n):
            evaluate(ctx, gen_predicate(rng, modes[(blk * BLOCK + i) % 4]))

    # ---- malformed predicates -----------------------------------------
    for text in MALFORMED_DIRECTED:
        emit({'kind': 'malformed', 'cls': 'must-reject', 'why': 'directed', 'text': text}, 'malformed/directed')
    for op, ver in itertools.product(BAD_OPERATORS, ('1.0', ' 1.0', '2.0.0rc1')):
        emit({'kind': 'malformed', 'cls': 'must-reject', 'why': 'bad-operator', 'text': op + ver})
        emit({'kind': 'malformed', 'cls': 'must-reject', 'why': 'bad-operator', 'text': '>=0.5,' + op + ver})
    # a blank inside the operator or inside the version of an otherwise well-formed comparison
    rb = ctx.rng('inner-blank')
    for op in ('>=', '<=', '==', '!='):
        for ver in ('1.5.0', '2.0', '1.0rc1', '3', '0.9.1.post2'):
            for lead in ('', '>=0.1,', '<99,'):
                emit({'kind': 'malformed', 'cls': 'must-reject', 'why': 'blank-inside-operator',
                      'text': lead + op[0] + ' ' + op[1] + ver})
                if '.' in ver:
                    k = ver.index('.') + 1
                    emit({'kind': 'malformed', 'cls': 'must-reject', 'why': 'blank-inside-version',
                          'text': lead + op + ver[:k] + ' ' + ver[k:]})
    for text in PREDICATE_DONTCARE:
        emit({'kind': 'malformed', 'cls': 'dontcare', 'why': 'dontcare', 'text': text}, 'malformed/dontcare')
    for _blk, rng, n in blocks('malformed', ctx.pick(4000, 80000)):
        for case in broken_predicates(rng, n):
            evaluate(ctx, case)


LEVEL_TEXT = ('Exploration with constructive oracles: the small component grid of the conversion functions is '
              'enumerated completely and all pairs of boundary pools are compared; PEP 440 pairs and predicates are '
              'sampled by outcome class from structured versions whose order is computed by an independent model.')
LEVEL_NOTE = ('Trusted: tuple comparison of Python and vlib/models/pep440.py; the model and the renderer are '
              're-validated in every run against packaging.version.Version and the example list of PEP 440 '
              '(clause model-vs-packaging-selfcheck; a disagreement makes the run inconclusive). The statement does '
              'not fix the radix of the integer encoding, only round trip and order for components 0..999, so a '
              'consistent change to a radix >= 1000 in both directions is not a violation. Local version labels, '
              'distutils-style "name (...)" predicates and undocumented suffix spellings are DONT-CARE.')
TECHNIQUE = 'reference-model monitor (tuple order; structured PEP 440 order) over constructive generators'
