"""C10 string_to_bytes computes the exact byte quantity or raises ValueError.

Reference-model monitor: the generator composes sign x magnitude literal x
prefix x unit x unit system x return_int, so the exact answer is known as a
Fraction without parsing anything; the real function is run and compared.
"""
import itertools
import math
import warnings
from fractions import Fraction

PROPERTY = 'C10'
LEVEL = 'exploration'
ANCHORS = [('oslo_utils.strutils', 'string_to_bytes'),
           ('oslo_utils.imageutils.qemu', 'QemuImgInfo._extract_bytes')]
RULE = ('directed corpus + full grid sign x magnitude pool x 22 prefixes (+foreign) x units x '
        'unit systems x return_int, then seeded random magnitudes; QemuImgInfo human texts composed '
        'from size spellings. non-trivial = admissible text with a prefix or a bit unit or a '
        'fractional magnitude, or an inadmissible text; distinct by (text, system, return_int)')
REQUIRED_CLAUSES = ['equal-valued-arguments-in-any-order', 'valid-calls-after-rejected-calls-answer-as-before', 'under-unlimited-int-digits', 'under-warnings-as-errors', 'concurrent-calls-answer-as-alone', 'under-lazy-translation', 'documented-keyword-call', 'float-result', 'int-result-exact', 'must-raise-ValueError',
                    'qemu-size', 'unknown-system']
ASSUMPTIONS = ['exact answer computed with fractions.Fraction from the generator components',
               'float results are compared within 4 ulp; integer results exactly, except where the '
               'known finding K10 (float arithmetic before ceil) applies by its input predicate']
INTERPRETER_FLAGS = [[], ['-O'], ['-X', 'dev'], ['-bb']]
CONCURRENT = lambda case: case.get('kind') != 'twins' and (case.get('kind') == 'stb')          # pure function of its arguments; see vlib/concurrent.py
SHARDS = {'quick': 4, 'thorough': 16}

IEC_PREFIXES = ['K', 'Ki', 'M', 'Mi', 'G', 'Gi', 'T', 'Ti', 'P', 'Pi', 'E', 'Ei',
                'Z', 'Zi', 'Y', 'Yi', 'R', 'Ri', 'Q', 'Qi']
SI_PREFIXES = ['k', 'M', 'G', 'T', 'P', 'E', 'Z', 'Y', 'R', 'Q']
MIXED_PREFIXES = ['k', 'ki'] + IEC_PREFIXES
ALL_PREFIXES = ['', 'k', 'ki'] + IEC_PREFIXES          # 22 non-empty + none
FOREIGN = ['m', 'Mi i', 'X', 'Xi', 'kI', 'KI', 'mi', 'ii', 'i', 'KK', 'da', 'h', 'µ', 'gi', 'MI']
EXP = {'k': 1, 'K': 1, 'M': 2, 'G': 3, 'T': 4, 'P': 5, 'E': 6, 'Z': 7, 'Y': 8, 'R': 9, 'Q': 10}
UNITS = ['b', 'bit', 'B']
BAD_UNITS = ['', 'bits', 'Bit', 'BIT', 'byte', 'Bytes', 'bB', 'x', ' B', 'B ', 'o']
SYSTEMS = ['IEC', 'SI', 'mixed']
BAD_SYSTEMS = ['iec', 'si', 'Mixed', '', 'binary', None, 'IEC ', 7]
MAGS_OK = ['0', '1', '7', '10', '512', '1023', '1024', '1025', '999', '1000', '65536',
           '0.5', '1.5', '.5', '0.1', '0.07', '2.75', '12.125', '0.001', '3.14159', '.0001',
           '00012', '1.0', '9007199254740993', '123456789012345678901234567890', '0.333333333333333333',
           '99999999999999999999.5', '4.000', '1106', '18446744073709551615', '0.0',
           '.0000001', '3.0000004', '0.0000000003', '1.9999999', '7.000000000001', '1023.9999999999']
MAGS_BAD = ['1%', '50%', '100%d', '1%(x)s', '%s', '%', '1%%', '', '.', '1.', '1..5', '1,5', '1e3', '1E3', '0x10', ' 1', '1 ', '--1', '+-1', '1_000',
            'abc', '1.5.2', 'inf', 'nan', '-', '+', '1 .5']
SIGNS = ['', '+', '-']
DBL_MAX = Fraction(2) ** 1024


def admissible(prefix, system):
    if prefix == '':
        return True
    return prefix in {'IEC': IEC_PREFIXES, 'SI': SI_PREFIXES, 'mixed': MIXED_PREFIXES}[system]


def base_for(prefix, system):
    if system == 'IEC':
        return 1024
    if system == 'SI':
        return 1000
    return 1024 if prefix.endswith('i') else 1000


def exact_value(sign, mag, prefix, unit, system):
    q = _frac(mag)
    if sign == '-':
        q = -q
    if prefix:
        q *= Fraction(base_for(prefix, system)) ** EXP[prefix[0]]
    if unit in ('b', 'bit'):
        q /= 8
    return q


def _is_double(q):
    try:
        return Fraction(float(q)) == q
    except OverflowError:
        return False


def k10_applies(sign, mag, prefix, unit, system):
    """Input-only predicate of known finding K10: some step of the float
    pipeline (literal -> double, /8, x base**exp) cannot be exact, or the exact
    result is beyond the double range."""
    m = _frac(mag)
    if not _is_double(m):
        return True
    if unit in ('b', 'bit'):
        m = m / 8
        if not _is_double(m):
            return True
    if prefix:
        f = Fraction(base_for(prefix, system)) ** EXP[prefix[0]]
        if not _is_double(f):
            return True
        if not _is_double(m * f):
            return True
    return False


def _frac(mag):
    """Exact value of a decimal literal of any length (the oracle lifts the interpreter's int <-> str digit limit for
    its own conversion only and restores it before the code under test is called)."""
    from vlib import envmodes
    with envmodes.int_max_str_digits(0):
        return Fraction(mag if not mag.startswith('.') else '0' + mag)


def to_float(q):
    try:
        return float(q)
    except OverflowError:           # rounds to 2**1024
        return math.inf if q > 0 else -math.inf


def ulp_close(got, exact, ulps=4):
    if abs(exact) >= DBL_MAX or math.isinf(to_float(exact)):
        return got in (float('inf'), float('-inf')) or abs(Fraction(got)) >= DBL_MAX / 2
    if got != got or got in (float('inf'), float('-inf')):
        return False
    ref = float(exact)
    tol = ulps * (math.ulp(ref) if ref else 5e-324)
    return abs(Fraction(got) - exact) <= Fraction(tol)


def TWIN_FUNCS():
    from oslo_utils import strutils
    return {'string_to_bytes_IEC': lambda v: strutils.string_to_bytes(v, 'IEC', True),
            'string_to_bytes_SI': lambda v: strutils.string_to_bytes(v, 'SI', False),
            'string_to_bytes_mixed': lambda v: strutils.string_to_bytes(v, 'mixed', True)}


TWIN_TEXT_FUNCS = ['string_to_bytes_IEC', 'string_to_bytes_SI', 'string_to_bytes_mixed']
TWIN_TEXTS = ['1KB', '1kB', '5Mib', '4Gb', '10B', '1KiB', 'xyz', '3kib', '7MB', '2Tbit', '1.5GiB', '12b']
TWIN_NUM_FUNCS = ()
TWIN_NUMBERS = ()


def _evaluate_plain(ctx, case):
    if case.get('kind') == 'twins':
        from vlib import twins as _tw
        return _tw.evaluate_case(ctx, case, TWIN_FUNCS())
    from oslo_utils import strutils
    from vlib import callstyle
    strutils = callstyle.proxy(strutils)
    kind = case['kind']
    if kind == 'stb':
        sign, mag, prefix, unit, system, rint = (case[k] for k in (
            'sign', 'mag', 'prefix', 'unit', 'system', 'return_int'))
        text = sign + mag + prefix + unit
        ok_mag = mag in MAGS_OK or case.get('mag_ok')
        ok = (ok_mag and sign in SIGNS and unit in UNITS and system in SYSTEMS and
              prefix in ALL_PREFIXES and admissible(prefix, system))
        try:
            got = strutils.string_to_bytes(text, unit_system=system, return_int=rint)
            exc = None
        except BaseException as e:  # noqa
            got, exc = None, e
        nontrivial = (not ok) or bool(prefix) or unit != 'B' or '.' in mag
        ctx.case(('stb', text, system, rint), nontrivial)
        ctx.h('system x prefix', '%s/%s' % (system, prefix or '-') if ok else 'inadmissible')
        if system not in SYSTEMS:
            ctx.clause('unknown-system')
            if not isinstance(exc, ValueError):
                ctx.fail('unknown-system-must-raise-ValueError', case,
                         {'got': got, 'exc': exc})
            return
        if not ok:
            ctx.clause('must-raise-ValueError')
            if not isinstance(exc, ValueError):
                ctx.fail('inadmissible-text-must-raise-ValueError', case,
                         {'text': text, 'got': got, 'exc': exc})
            return
        exact = exact_value(sign, mag, prefix, unit, system)
        k10 = k10_applies(sign, mag, prefix, unit, system)
        if exc is not None:
            edge = DBL_MAX * (1 - Fraction(1, 2 ** 50))
            mag_q = abs(_frac(mag))
            # K10 as listed: "magnitudes beyond the double range give OverflowError" - the magnitude literal or the
            # quantity itself does not fit a double (not: an intermediate product that the implementation chose)
            if rint and k10 and (abs(exact) >= edge or mag_q >= edge) and isinstance(exc, OverflowError):
                ctx.fail('int-result', case, {'text': text, 'exc': exc}, known='K10')
                return
            ctx.fail('admissible-text-must-not-raise', case, {'text': text, 'exc': exc})
            return
        if rint:
            want = math.ceil(exact)
            if isinstance(got, bool) or not isinstance(got, int):
                ctx.fail('return_int-type', case, {'text': text, 'got': got})
                return
            if k10:
                ctx.clause('int-result-float-tolerance')
                # K10 regime: weaker oracle (float tolerance + 1)
                if got != want:
                    # K10 regime: the result must still be the ceiling of some value within the float
                    # pipeline's error bound (relative 2^-50) of the exact quantity
                    eps = Fraction(1, 2 ** 50)
                    lo_v, hi_v = sorted((exact * (1 - eps), exact * (1 + eps)))
                    if math.ceil(lo_v) <= got <= math.ceil(hi_v):
                        ctx.fail('int-result', case,
                                 {'text': text, 'got': got, 'want': want}, known='K10')
                    else:
                        ctx.fail('int-result', case, {'text': text, 'got': got, 'want': want})
            else:
                ctx.clause('int-result-exact')
                if got != want:
                    ctx.fail('int-result', case, {'text': text, 'got': got, 'want': want})
        elif abs(_frac(mag)) >= DBL_MAX * (1 - Fraction(1, 2 ** 50)):
            # the number in the text is itself beyond the double range (only reachable with bit units, where the quantity
            # is an eighth of it): DONT-CARE zone, see DESIGN section 8
            ctx.clause('magnitude-beyond-double-range-dontcare')
        else:
            ctx.clause('float-result')
            if isinstance(got, bool) or not isinstance(got, (int, float)):
                ctx.fail('float-result-type', case, {'text': text, 'got': got})
            elif not ulp_close(float(got), exact):
                ctx.fail('float-result', case,
                         {'text': text, 'got': got, 'want': to_float(exact) if abs(exact) < DBL_MAX else 'huge'})
    elif kind == 'qemu':
        from oslo_utils.imageutils import qemu
        field, spelling, want = case['field'], case['spelling'], case['want']
        label = {'virtual_size': 'virtual size', 'disk_size': 'disk size',
                 'cluster_size': 'cluster_size'}[field]
        line = '%s: %s' % (label, spelling)
        # where the field stands in the report: early, last after other fields, right after a snapshot table (with rows or
        # with its header only), printed between backing-file and format-specific lines
        layout = case.get('layout', 0)
        snap_hdr = 'Snapshot list:\nID        TAG                 VM SIZE                DATE       VM CLOCK'
        snap_row = '1        d9a9784a500742a7bb95627bb3aace38    0 2012-08-20 10:52:46 00:00:00.000'
        text = ['image: x.img\nfile format: qcow2\n%s\n' % line,
                'image: x.img\nfile format: qcow2\nbacking file: /b.img (actual path: /a/b.img)\nencrypted: yes\n%s\n' % line,
                'image: x.img\nfile format: qcow2\n%s\n%s\n%s\n' % (snap_hdr, snap_row, line),
                'image: x.img\nfile format: qcow2\n%s\n%s\n' % (snap_hdr, line),
                'image: x.img\n%s\nfile format: qcow2\n%s\n%s\n%s\n' % (line, snap_hdr, snap_row, snap_row),
                'image: x.img\nfile format: qcow2\n%s\nFormat specific information:\n    compat: 1.1\n    lazy refcounts: false\n' % line,
                ][layout % 6]
        ctx.h('qemu report layout', ('field third', 'after backing file and encrypted', 'right after a snapshot table with a row',
                                     'right after a snapshot table header', 'before the snapshot table', 'before format specific information')[layout % 6])
        try:
            with warnings.catch_warnings():
                warnings.simplefilter('ignore')
                info = qemu.QemuImgInfo(text, format='human')
            got, exc = getattr(info, field), None
        except BaseException as e:  # noqa
            got, exc = None, e
        ctx.case(('qemu', field, spelling))
        ctx.clause('qemu-size')
        ctx.h('qemu spelling class', case['cls'])
        if exc is not None or got != want:
            known = 'K10' if (exc is None and case.get('k10') and want and
                              abs(got - want) <= abs(want) * 2 ** -50 + 1) else None
            ctx.fail('qemu-size', case, {'got': got, 'want': want, 'exc': exc}, known=known)
    elif kind == 'qemu-json':
        from oslo_utils.imageutils import qemu
        import json
        doc = case['doc']
        info = qemu.QemuImgInfo(json.dumps(doc), format='json')
        ctx.case(('qemu-json', repr(doc)))
        ctx.clause('qemu-json')
        if (info.virtual_size, info.disk_size, info.cluster_size) != (
                doc.get('virtual-size'), doc.get('actual-size'), doc.get('cluster-size')):
            ctx.fail('qemu-json', case, {'got': (info.virtual_size, info.disk_size, info.cluster_size)})


from vlib import envmodes  # noqa: E402
evaluate = envmodes.with_modes(_evaluate_plain, lazy=lambda case: True, warn=lambda case: case.get('kind') == 'stb',
                               digits=lambda case: True, share_digits=7)


def qemu_cases(rng, n):
    fields = ['virtual_size', 'disk_size', 'cluster_size']
    units = [('', 0), ('K', 1), ('M', 2), ('G', 3), ('T', 4), ('P', 5), ('E', 6)]
    long_units = [('KiB', 1), ('MiB', 2), ('GiB', 3), ('TiB', 4), ('B', 0)]
    out = []
    for i in range(n):
        field = fields[i % 3]
        k = rng.randrange(8)
        if k == 0:
            v = rng.choice([0, 1, 512, 65536, rng.getrandbits(40)])
            out.append(dict(field=field, spelling=str(v), want=v, cls='plain-int'))
        elif k == 1:
            u, e = rng.choice(units[1:])
            m = rng.choice([1, 2, 64, 100, 512, 1023, rng.randrange(1, 5000)])
            out.append(dict(field=field, spelling='%d%s' % (m, u), want=m * 1024 ** e, cls='int+letter'))
        elif k == 2:
            u, e = rng.choice(units[1:])
            m = rng.choice(['1.5', '0.5', '2.25', '10.125', '3.75', '0.0625'])
            out.append(dict(field=field, spelling='%s%s' % (m, u),
                            want=math.ceil(Fraction(m) * 1024 ** e), cls='dyadic-decimal+letter'))
        elif k == 3:
            u, e = rng.choice(units[1:])
            m = '%d.%d' % (rng.randrange(0, 100), rng.randrange(1, 10))
            ex = Fraction(m) * 1024 ** e
            out.append(dict(field=field, spelling='%s%s' % (m, u), want=math.ceil(ex),
                            k10=not _is_double(Fraction(m)) or not _is_double(ex), cls='decimal+letter'))
        elif k == 4:
            u, e = rng.choice(long_units)
            m = rng.choice([1, 20, 128, rng.randrange(1, 900)])
            nbytes = rng.choice([m * 1024 ** e, rng.getrandbits(45), 0, 1])
            out.append(dict(field=field, spelling='%d %s (%d bytes)' % (m, u, nbytes), want=nbytes,
                            cls='explicit-bytes'))
        elif k == 5:
            e = rng.randrange(0, 7)
            m = rng.randrange(1, 10)
            if rng.random() < 0.5:
                out.append(dict(field=field, spelling='%de+%02d' % (m, e), want=m * 10 ** e, cls='exponent'))
            else:
                u, _e = rng.choice(long_units)
                nbytes = rng.choice([rng.getrandbits(45), 1051721728, 0, 1])
                out.append(dict(field=field, spelling='%de+%02d %s (%d bytes)' % (m, e, u, nbytes), want=nbytes,
                                cls='exponent+explicit-bytes'))
        elif k == 6:
            out.append(dict(field=field, spelling=rng.choice(['None', 'unavailable']), want=0, cls='none'))
        else:
            u, e = rng.choice(long_units)
            m = rng.choice([1, 3, 64, 1000])
            out.append(dict(field=field, spelling='%d %s' % (m, u), want=m * 1024 ** e, cls='int space unit'))
    # a bare byte count comes back as itself, however large (image sizes beyond 2**53 bytes are sparse files, and the
    # 64-bit extremes are what a damaged header announces); magnitudes far below one with a unit letter
    for i in range(max(12, n // 40)):
        field = fields[i % 3]
        v = rng.choice([2 ** 53 + 1, 2 ** 63 - 1, 2 ** 64 - 1, 2 ** 64 + 1, rng.getrandbits(rng.randrange(54, 90)) | 1,
                        10 ** rng.randrange(16, 25) + rng.randrange(1, 1000)])
        out.append(dict(field=field, spelling=str(v), want=v, cls='plain-int-beyond-2**53'))
        u, e = rng.choice(units[1:])
        m = rng.choice(['0.00001', '0.000001', '0.00005', '0.0000152587890625', '0.00009765625', '0.000030517578125'])
        ex = Fraction(m) * 1024 ** e
        out.append(dict(field=field, spelling='%s%s%s' % (m, rng.choice(['', ' ']), u), want=math.ceil(ex),
                        k10=not _is_double(Fraction(m)) or not _is_double(ex), cls='tiny-decimal+letter'))
    # an explicit byte count next to a human figure that is not a size of the binary system at all: the count is the answer
    for i in range(max(12, n // 40)):
        nbytes = rng.choice([rng.getrandbits(45), 10000, 512, 1536, 0, 1, 2 ** 63])
        human = rng.choice(['10 kB', '0.5k', '1.5', '1.0 GiBytes', '1e3', '7 blocks', '1.5 GB', '100 sectors', '2 kib', '3 Mb', '12 Q'])
        out.append(dict(field=fields[i % 3], spelling='%s (%d bytes)' % (human, nbytes), want=nbytes,
                        cls='odd-human-figure+explicit-bytes'))
    for j, c in enumerate(out):
        c['kind'] = 'qemu'
        c['layout'] = rng.randrange(6) if j % 2 else 0
    return out



def REJECTED_FUNCS(ctx):
    from oslo_utils import strutils
    return [strutils.string_to_bytes]


def HAMMER(ctx):
    """Calls for vlib/concurrent.hammer: distinct admitted texts (and two inadmissible ones) in all three systems."""
    from oslo_utils import strutils
    out = []
    for text, system, rint in (('1KB', 'SI', True), ('4KiB', 'IEC', True), ('6Kib', 'IEC', False), ('9MB', 'mixed', True),
                               ('1125000b', 'SI', False), ('0.5GiB', 'IEC', True), ('7Tb', 'SI', True), ('12B', 'IEC', False),
                               ('3Mib', 'mixed', False), ('1.5kB', 'SI', True), ('2ZB', 'SI', False), ('88KiB', 'mixed', True),
                               ('xyz', 'IEC', False), ('1KiB', 'SI', True)):
        out.append(('string_to_bytes(%r, %r, %r)' % (text, system, rint),
                    lambda t=text, s=system, r=rint: strutils.string_to_bytes(t, unit_system=s, return_int=r)))
    return out

def _lookalikes():
    """ASCII character -> code points that are not it but normalise (NFKC) or case-fold to it.  Decimal digits of other
    scripts (category Nd, which the pinned grammar's \\d and float() admit) are left out: DONT-CARE."""
    import sys
    import unicodedata
    out = {}
    wanted = set('kKMGTPEZYRQiBbt+-.0123456789')
    for cp in range(0x80, sys.maxunicode + 1):
        ch = chr(cp)
        if unicodedata.category(ch) in ('Nd', 'Cs', 'Cn'):
            continue
        n = unicodedata.normalize('NFKC', ch)
        for cand in (n, ch.casefold(), ch.lower(), ch.upper()):
            if len(cand) == 1 and cand in wanted:
                out.setdefault(cand, []).append(ch)
                break
    return out


def run(ctx):
    # ---- the same characters / the same number handed over as other objects, in several orders (vlib/twins.py)
    from vlib import twins as _tw
    for _i, _case in enumerate(_tw.make_cases(ctx.rng('twins'), ctx.pick(160, 8000), TWIN_TEXT_FUNCS, TWIN_TEXTS,
                                              TWIN_NUM_FUNCS, TWIN_NUMBERS)):
        if ctx.mine(_i):
            evaluate(ctx, _case)
    idx = 0

    def emit(case):
        nonlocal idx
        idx += 1
        if ctx.mine(idx):
            ctx.sample(case['kind'] + ('/int' if case.get('return_int') else ''), case)
            evaluate(ctx, case)

    # known-finding canary (K10): documented witness
    if ctx.shard == 0:
        evaluate(ctx, dict(kind='stb', sign='', mag='0.07', prefix='P', unit='B', system='SI',
                           return_int=True))
    # directed: the docstring's own examples
    for text_parts in [('', '1', 'k', 'b', 'mixed'), ('', '1', 'ki', 'b', 'mixed'),
                       ('', '1', 'Ki', 'B', 'mixed'), ('', '1', 'K', 'B', 'mixed'),
                       ('', '1', 'M', 'B', 'IEC'), ('', '1', 'Mi', 'B', 'IEC'),
                       ('', '1', 'k', 'B', 'SI'), ('', '1', 'K', 'B', 'SI')]:
        for rint in (False, True):
            emit(dict(kind='stb', sign=text_parts[0], mag=text_parts[1], prefix=text_parts[2],
                      unit=text_parts[3], system=text_parts[4], return_int=rint))
    # full grid
    mags = MAGS_OK if not ctx.quick else MAGS_OK[:18] + MAGS_OK[-6:]
    for sign, mag, prefix, unit, system, rint in itertools.product(
            SIGNS, mags, ALL_PREFIXES, UNITS, SYSTEMS, (False, True)):
        emit(dict(kind='stb', sign=sign, mag=mag, prefix=prefix, unit=unit, system=system,
                  return_int=rint))
    ctx.exhaustive['sign x magnitude-pool x prefix x unit x system x return_int grid'] = True
    # inadmissible classes
    for mag, prefix, unit, system in itertools.product(MAGS_BAD, ['', 'K', 'Mi'], ['B', 'b'], SYSTEMS):
        emit(dict(kind='stb', sign='', mag=mag, prefix=prefix, unit=unit, system=system, return_int=False))
    for prefix, unit, system, rint in itertools.product(FOREIGN, UNITS, SYSTEMS, (False, True)):
        emit(dict(kind='stb', sign='', mag='3', prefix=prefix, unit=unit, system=system, return_int=rint))
    for prefix, unit, system in itertools.product(['', 'K', 'Gi', 'k'], BAD_UNITS, SYSTEMS):
        emit(dict(kind='stb', sign='', mag='3', prefix=prefix, unit=unit, system=system, return_int=True))
    for system, prefix, rint in itertools.product(BAD_SYSTEMS, ['', 'K', 'k', 'Mi'], (False, True)):
        emit(dict(kind='stb', sign='', mag='12', prefix=prefix, unit='B', system=system, return_int=rint))
    # seeded random magnitudes
    rng = ctx.rng('mags')
    n = ctx.pick(12000, 5000000)
    for i in range(n):
        k = rng.randrange(7)
        if k == 6:     # tiny fractional excess / deficit: the ceiling must not be rounded away
            mag = '%d.%s%d' % (rng.choice([0, 0, 1, 3, 1023, rng.getrandbits(12)]), '0' * rng.randrange(5, 12), rng.randrange(1, 10))
            if rng.random() < 0.3:
                mag = '%d.%s' % (rng.randrange(0, 2000), '9' * rng.randrange(6, 12))
        elif k == 0:
            mag = str(rng.getrandbits(rng.choice([8, 16, 31, 53, 64, 90])))
        elif k == 1:
            mag = '%d.%0*d' % (rng.getrandbits(16), rng.randrange(1, 8), rng.getrandbits(20))
        elif k == 2:
            mag = '.%d' % rng.getrandbits(24)
        elif k == 3:   # dyadic decimals: exactly representable
            mag = str(Fraction(rng.getrandbits(20), 2 ** rng.randrange(0, 10)).__float__())
            if 'e' in mag:
                mag = '1'
        elif k == 4:
            mag = '0' * rng.randrange(1, 4) + str(rng.randrange(0, 2000))
        else:
            mag = str(rng.choice([1023, 1024, 1025, 999, 1000, 1001, 2 ** 53, 2 ** 53 + 1, 2 ** 64 - 1]))
        emit(dict(kind='stb', sign=rng.choice(SIGNS), mag=mag, mag_ok=True,
                  prefix=rng.choice(ALL_PREFIXES), unit=rng.choice(UNITS), system=rng.choice(SYSTEMS),
                  return_int=rng.random() < 0.5))
    # magnitudes with hundreds of digits: the quantity lies within a few powers of two of the largest double, on
    # either side - where an intermediate product overflows although the result (bit units are divided by 8) does not
    rh = ctx.rng('huge')
    for i in range(ctx.pick(1500, 60000)):
        prefix, unit, system = rh.choice(ALL_PREFIXES), rh.choice(UNITS), rh.choice(SYSTEMS)
        if not admissible(prefix, system):
            continue
        one = exact_value('', '1', prefix, unit, system)          # the quantity of "1<prefix><unit>"
        target = DBL_MAX / rh.choice([1, 2, 3, 5, 7, 9, 12, 15, 17, 40]) * rh.choice([1, 1, 1, 2])
        digits = str(int(target / one))
        if len(digits) > 4000:
            continue
        mag = digits[:1] + ''.join(rh.choice('0123456789') for _ in digits[1:]) if rh.random() < 0.5 else digits
        emit(dict(kind='stb', sign=rh.choice(['', '', '-']), mag=mag, mag_ok=True, prefix=prefix, unit=unit,
                  system=system, return_int=rh.random() < 0.5))
    # a well-formed size followed by a line break and more text: not of the form [sign]number[prefix]unit
    for tail in ('\nGiB', '\n7', '\nB', '\n\n', '\r\nB', '\n 1B', '\n#', '\x0bB', '\nx\n'):
        for unit in ('B', 'b', 'bit'):
            for prefix, system in (('K', 'SI'), ('Ki', 'IEC'), ('', 'IEC'), ('M', 'mixed')):
                for rint in (True, False):
                    emit(dict(kind='stb', sign='', mag='1', prefix=prefix, unit=unit + tail, system=system, return_int=rint))
    # admitted texts with thousands of digits (around the interpreter's 4300-digit int <-> str limit, which is about
    # int(), not about the grammar of the text)
    for nd in (639, 640, 641, 4299, 4300, 4301, 5000):
        for mag in ('0.' + '5' * nd, '1.' + '0' * (nd - 1) + '1', '0' * nd + '7', '7.' + '0' * nd):
            for prefix, unit, system in (('K', 'B', 'SI'), ('', 'B', 'IEC'), ('Ki', 'b', 'IEC'), ('M', 'bit', 'mixed')):
                for rint in (True, False):
                    emit(dict(kind='stb', sign=rh.choice(['', '-']), mag=mag, mag_ok=True, prefix=prefix, unit=unit,
                              system=system, return_int=rint))
    # look-alikes: an admitted text in which one character (or every letter) is replaced by a code point that merely
    # normalises (NFKC) or case-folds to it - full-width forms, KELVIN SIGN, mathematical letters, superscript digits,
    # the squared-unit symbols.  None of them is a prefix, unit, sign or digit of any unit system.
    alike = _lookalikes()
    ra = ctx.rng('alike')
    for i in range(ctx.pick(1500, 40000)):
        prefix, unit, system = ra.choice(ALL_PREFIXES[1:]), ra.choice(UNITS), ra.choice(SYSTEMS)
        if not admissible(prefix, system):
            continue
        parts = {'sign': ra.choice(SIGNS), 'mag': ra.choice(['1', '3', '1.5', '12', '0.5', '2']), 'prefix': prefix, 'unit': unit}
        which = ra.choice(['prefix', 'prefix', 'unit', 'unit', 'sign', 'mag', 'all-letters'])
        orig = dict(parts)
        for part in (['prefix', 'unit'] if which == 'all-letters' else [which]):
            chars = list(parts[part])
            idxs = [j for j, ch in enumerate(chars) if ch in alike]
            if not idxs:
                continue
            for j in (idxs if which == 'all-letters' else [ra.choice(idxs)]):
                chars[j] = ra.choice(alike[chars[j]])
            parts[part] = ''.join(chars)
        if parts == orig:
            continue
        emit(dict(kind='stb', system=system, return_int=ra.random() < 0.5, look_alike=which,
                  mag_ok=parts['mag'] == orig['mag'], **parts))
    for sym in ('\u3385', '\u3386', '\u3387', '\u33d4', '\u338f', '\u212a', '\uff2b\uff22', '\uff4b\uff22', '\u338b'):
        for system in SYSTEMS:
            emit(dict(kind='stb', sign='', mag='1', prefix=sym, unit='', system=system, return_int=True, look_alike='symbol'))
            emit(dict(kind='stb', sign='', mag='1', prefix=sym, unit='B', system=system, return_int=False, look_alike='symbol'))
    for c in qemu_cases(ctx.rng('qemu'), ctx.pick(3000, 600000)):
        emit(c)
    rj = ctx.rng('qemu-json')
    for i in range(ctx.pick(200, 2000)):
        emit(dict(kind='qemu-json', doc={'virtual-size': rj.getrandbits(50), 'actual-size': rj.getrandbits(40),
                                         'cluster-size': 1 << rj.randrange(9, 22), 'format': 'qcow2'}))

LEVEL_TEXT = ('Exploration with an exact oracle: every generated text is composed from components, so the exact '
              'rational answer (or the obligation to raise ValueError) is known without parsing; the full '
              'prefix x unit x system x return_int grid is enumerated, magnitudes are sampled.')
LEVEL_NOTE = ('Trusted: fractions.Fraction arithmetic and the admissibility table copied from the docstring. '
              'Float results are compared within 4 ulp. Non-ASCII digits and a trailing newline are DONT-CARE.')
TECHNIQUE = 'reference-model monitor (exact rational arithmetic) over constructive generators'
