"""C14 scalar parsers and validators classify every input exactly.

Constructive classes: every input is composed from components (documented
word x letter case x padding, integer x spelling, code-point count, 128-bit
value x decoration x case x defect), so its oracle class (MUST-ACCEPT /
MUST-REJECT / DONT-CARE) is known before the code under test runs.  The only
reference model is a ten-line regular expression for "arbitrary text" in the
boolean part.
"""
import decimal
import itertools
import re
import uuid as _uuid

PROPERTY = 'C14'
LEVEL = 'exploration'
ANCHORS = [('oslo_utils.strutils', 'bool_from_string'),
           ('oslo_utils.strutils', 'int_from_bool_as_string'),
           ('oslo_utils.strutils', 'is_valid_boolstr'),
           ('oslo_utils.strutils', 'is_int_like'),
           ('oslo_utils.strutils', 'check_string_length'),
           ('oslo_utils.strutils', 'validate_integer'),
           ('oslo_utils.uuidutils', 'generate_uuid'),
           ('oslo_utils.uuidutils', 'is_uuid_like')]
RULE = ('bool: 12 documented words x EVERY letter-case spelling (82) x 11 paddings x strict x 5 defaults '
        '(exhaustive), derived near-misses, non-str subjects, seeded arbitrary text against a regex model; '
        'is_int_like: canonical renderings (int and str, to 2000 bits) and 14 non-canonical derivations of each; '
        'validate_integer: every bound of 16 (min,max) settings -2..+2 as int and str plus random values and '
        'non-canonical spellings; check_string_length: code-point counts around min/max for 18 settings x 7 '
        'alphabets, non-str types; is_uuid_like: random 128-bit values x 7 decorations x 3 cases, hex length '
        '30..34, one non-hex character per position class; generate_uuid draws. distinct by (function, input, '
        'settings); non-trivial = everything except the plain lower-case unpadded word / in-range int cases')
REQUIRED_CLAUSES = ['equal-valued-arguments-in-any-order', 'str-subclass-answered-as-its-characters', 'valid-calls-after-rejected-calls-answer-as-before', 'under-unlimited-int-digits', 'under-warnings-as-errors', 'concurrent-calls-answer-as-alone', 'under-lazy-translation', 'documented-keyword-call', 'bool-true-word', 'bool-false-word', 'bool-default', 'bool-strict-raises',
                    'bool-passthrough', 'boolstr-unpadded', 'boolstr-agrees-with-strict',
                    'int-from-bool', 'intlike-accept', 'intlike-reject', 'vint-returns',
                    'vint-raises', 'vint-noncanonical', 'csl-type', 'csl-raises', 'csl-ok',
                    'uuid-accept', 'uuid-reject', 'gen-format', 'gen-accepted', 'gen-distinct']
ASSUMPTIONS = ['"whitespace" padding is drawn from space, tab, newline, CR, VT, FF; other Unicode '
               'whitespace and control separators are DONT-CARE',
               'padded input is DONT-CARE for is_valid_boolstr; bytes/list/object subjects are DONT-CARE '
               'for the boolean answer (only the exception type is checked)',
               'non-canonical integer spellings in validate_integer: only "returns the intended int within '
               'range or raises ValueError"; check_string_length(max_length=0) is DONT-CARE',
               'UUID acceptance is demanded for plain, hyphenated, {hyphenated} and urn:uuid:hyphenated '
               'spellings; {plain}, urn:uuid:plain and urn:uuid:{...} are DONT-CARE for acceptance but '
               'MUST-REJECT when the hex part is not 32 hex digits',
               'integers with more than 4300 digits (CPython int/str conversion limit) are DONT-CARE',
               'distinctness of generate_uuid output is checked within one worker process']
INTERPRETER_FLAGS = [[], ['-O'], ['-X', 'dev'], []]      # -bb not used here: the inputs mix str and bytes keys/subjects (DONT-CARE zone), where the pinned tree itself compares or str()s bytes
CONCURRENT = lambda case: case.get('digit_limit') is None          # (that mode changes a process-wide setting)
SHARDS = {'quick': 4, 'thorough': 16}
MIN_DISTINCT = {'quick': 5000, 'thorough': 50000}

TRUE_WORDS = ['1', 't', 'true', 'on', 'y', 'yes']          # from the docstring of bool_from_string
FALSE_WORDS = ['0', 'f', 'false', 'off', 'n', 'no']
WORDS = TRUE_WORDS + FALSE_WORDS
WS = ' \t\n\r\x0b\x0c'
PADS = [('', ''), (' ', ''), ('', ' '), (' ', ' '), ('\t', ''), ('', '\t'), ('\n', ''), ('', '\n'),
        ('\t', '\n'), ('  \t', '\r\n '), ('\x0b', '\x0c'),
        # "surrounding whitespace" has no length limit: around typical internal buffer sizes and well beyond
        (' ' * 63, ''), ('', ' ' * 64), (' ' * 30, ' ' * 31), ('', ' ' * 255), ('\t' * 256, ''), (' ' * 1000, '\n' * 3000),
        ('', ' ' * 65536)]
DEFAULTS = [False, True, None, 'dflt', 7]
_WORD_RE = re.compile(r'[ \t\n\r\x0b\x0c]*(?:(1|t|true|on|y|yes)|(0|f|false|off|n|no))[ \t\n\r\x0b\x0c]*',
                      re.I | re.A)


# ----------------------------------------------------------------------
# value specs: JSON-able descriptions of arbitrary Python subjects
# ----------------------------------------------------------------------
class StrObj(object):
    def __init__(self, text):
        self.text = text

    def __str__(self):
        return self.text

    def __repr__(self):
        return 'StrObj(%r)' % self.text


def dec(spec):
    """Turn a spec into the Python value handed to the code under test."""
    if isinstance(spec, dict) and '$' in spec:
        t = spec['$']
        if t == 'float':
            return float(spec['v'])
        if t == 'tuple':
            return tuple(dec(x) for x in spec['v'])
        if t == 'list':
            return [dec(x) for x in spec['v']]
        if t == 'dict':
            return dict(spec['v'])
        if t == 'uuid':
            return _uuid.UUID(hex=spec['hex'])
        if t == 'complex':
            return complex(spec['re'], spec['im'])
        if t == 'decimal':
            return decimal.Decimal(spec['v'])
        if t == 'strobj':
            return StrObj(spec['v'])
        if t == 'rep':
            return spec['unit'] * spec['n']
        if t == 'pow10':
            n = 10 ** spec['n']
            if spec.get('str'):
                return spec.get('sign', '') + ('0' if spec.get('lead0') else '') + '1' + '0' * spec['n']
            return n
        if t == 'bytes':
            return bytes.fromhex(spec['hex'])
        raise ValueError('unknown spec %r' % (spec,))
    return spec


def F(text):
    return {'$': 'float', 'v': text}


def call(f, *a, **k):
    try:
        return f(*a, **k), None
    except BaseException as e:  # noqa
        return None, e


# ----------------------------------------------------------------------
# monitors
# ----------------------------------------------------------------------
def eval_bool(ctx, case, su):
    """case: subj spec, strict, default, want in T/F/D/P/X, padded (bool), cls."""
    subj = dec(case['subj'])
    strict, default, want, padded = case['strict'], case['default'], case['want'], case['padded']
    trivial = (want in 'TF' and not padded and isinstance(subj, str) and subj in WORDS
               and default is False)
    ctx.case(('bool', repr(subj), strict, repr(default)), not trivial)
    ctx.h('bool_from_string', '%s/%s/%s' % (case['cls'], {'T': 'must-True', 'F': 'must-False',
                                                          'D': 'must-default-or-raise', 'P': 'passthrough',
                                                          'X': 'dont-care'}[want],
                                            'strict' if strict else 'lenient'))
    got, exc = call(su.bool_from_string, subj, strict=strict, default=default)
    detail = {'subject': repr(subj), 'strict': strict, 'default': default, 'got': repr(got), 'exc': exc}
    if want == 'T' or want == 'F':
        ctx.clause('bool-true-word' if want == 'T' else 'bool-false-word')
        if exc is not None or got is not (want == 'T'):
            ctx.fail('documented-word-must-give-%s' % (want == 'T'), case, detail)
    elif want == 'P':
        ctx.clause('bool-passthrough')
        if exc is not None or got is not subj:
            ctx.fail('bool-subject-must-pass-through', case, detail)
    elif want == 'D':
        if strict:
            ctx.clause('bool-strict-raises')
            if not isinstance(exc, ValueError):
                ctx.fail('unrecognized-strict-must-raise-ValueError', case, detail)
        else:
            ctx.clause('bool-default')
            if exc is not None or not (got is default or (got == default and type(got) is type(default))):
                ctx.fail('unrecognized-must-return-default', case, detail)
    else:
        ctx.clause('bool-dont-care')
        if exc is not None:
            if not (strict and isinstance(exc, ValueError)):
                ctx.fail('bool-unexpected-exception', case, detail)
        elif not (got is True or got is False or got is default):
            ctx.fail('bool-result-not-a-bool-or-default', case, detail)

    # int_from_bool_as_string = int(bool_from_string(subject)) (lenient, default False)
    got_i, exc_i = call(su.int_from_bool_as_string, subj)
    if want == 'X':
        if exc_i is not None or got_i not in (0, 1):
            ctx.fail('int-from-bool-dont-care', case, {'subject': repr(subj), 'got': got_i, 'exc': exc_i})
    else:
        ctx.clause('int-from-bool')
        want_i = {'T': 1, 'F': 0, 'D': 0}.get(want)
        if want == 'P':
            want_i = 1 if subj else 0
        ctx.h('int_from_bool_as_string', 'must-%d' % want_i)
        if exc_i is not None or got_i != want_i or type(got_i) is not int:
            ctx.fail('int-from-bool', case, {'subject': repr(subj), 'got': repr(got_i), 'want': want_i,
                                             'exc': exc_i})

    # is_valid_boolstr
    got_v, exc_v = call(su.is_valid_boolstr, subj)
    if exc_v is not None or not (got_v is True or got_v is False):
        ctx.fail('boolstr-must-answer-without-raising', case, {'subject': repr(subj), 'got': repr(got_v),
                                                               'exc': exc_v})
        return
    if padded or want == 'X':
        ctx.clause('boolstr-padded-dont-care')
        ctx.h('is_valid_boolstr', 'dont-care')
        return
    want_v = want in 'TFP'
    ctx.clause('boolstr-unpadded')
    ctx.h('is_valid_boolstr', 'must-%s' % want_v)
    if got_v is not want_v:
        ctx.fail('boolstr-unpadded', case, {'subject': repr(subj), 'got': got_v, 'want': want_v})
    _g, exc_s = call(su.bool_from_string, subj, strict=True)
    ctx.clause('boolstr-agrees-with-strict')
    if got_v is not (exc_s is None):
        ctx.fail('boolstr-agrees-with-strict', case, {'subject': repr(subj), 'is_valid_boolstr': got_v,
                                                      'strict_exc': exc_s})


def eval_intlike(ctx, case, su):
    v = dec(case['val'])
    want = case['want']        # True / False / None (dont-care)
    ctx.case(('intlike', case['cls'], repr(case['val'])[:200], type(v).__name__), case['cls'] != 'canonical-small')
    ctx.h('is_int_like', '%s/%s' % ({True: 'must-True', False: 'must-False', None: 'dont-care'}[want],
                                    case['cls']))
    if case.get('digit_limit') is not None:
        # the process runs with another int <-> str digit limit (sys.set_int_max_str_digits)
        from vlib import envmodes
        ctx.clause('intlike-under-changed-digit-limit')
        with envmodes.int_max_str_digits(case['digit_limit']):
            got, exc = call(su.is_int_like, v)
    else:
        got, exc = call(su.is_int_like, v)
    detail = {'value': repr(case['val'])[:200], 'type': type(v).__name__, 'got': repr(got), 'exc': exc}
    if exc is not None:
        ctx.clause('intlike-never-raises')
        ctx.fail('is_int_like-must-not-raise', case, detail)
        return
    if not (got is True or got is False):
        ctx.fail('is_int_like-must-return-bool', case, detail)
        return
    if want is None:
        ctx.clause('intlike-dont-care')
        return
    ctx.clause('intlike-accept' if want else 'intlike-reject')
    if got is not want:
        ctx.fail('is_int_like-%s' % ('canonical-must-be-True' if want else 'non-canonical-must-be-False'),
                 case, detail)


def eval_vint(ctx, case, su):
    """case: val spec, n (intended integer or None), lo, hi, cls in canonical/noncanonical/nonint."""
    v = dec(case['val'])
    n, lo, hi, cls = case['n'], case['lo'], case['hi'], case['cls']
    in_range = n is not None and (lo is None or n >= lo) and (hi is None or n <= hi)
    ctx.case(('vint', repr(case['val'])[:200], type(v).__name__, lo, hi),
             not (cls == 'canonical' and lo is None and hi is None))
    if case.get('kwargs'):
        got, exc = call(su.validate_integer, v, 'field', min_value=lo, max_value=hi)
    elif lo is None and hi is None and case.get('defaults'):
        got, exc = call(su.validate_integer, v, 'field')
    else:
        got, exc = call(su.validate_integer, v, 'field', lo, hi)
    detail = {'value': repr(case['val'])[:200], 'type': type(v).__name__, 'min': lo, 'max': hi,
              'got': repr(got), 'exc': exc}
    if cls == 'canonical':
        where = 'in' if in_range else ('below' if lo is not None and n < lo else 'above')
        if lo is not None and n in (lo - 1, lo, lo + 1):
            where += '/min%+d' % (n - lo)
        if hi is not None and n in (hi - 1, hi, hi + 1):
            where += '/max%+d' % (n - hi)
        ctx.h('validate_integer', 'canonical-%s/%s' % (type(v).__name__, where))
        if in_range:
            ctx.clause('vint-returns')
            if exc is not None or type(got) is not int or got != n:
                ctx.fail('integer-literal-in-range-must-be-returned', case, detail)
        else:
            ctx.clause('vint-raises')
            if not isinstance(exc, ValueError):
                ctx.fail('out-of-range-must-raise-ValueError', case, detail)
    elif cls == 'nonint':
        ctx.h('validate_integer', 'not-an-integer/must-raise')
        ctx.clause('vint-raises')
        if not isinstance(exc, ValueError):
            ctx.fail('non-integer-must-raise-ValueError', case, detail)
    else:
        ctx.h('validate_integer', 'noncanonical/dont-care')
        ctx.clause('vint-noncanonical')
        if exc is not None:
            if not isinstance(exc, ValueError):
                ctx.fail('noncanonical-only-ValueError-may-escape', case, detail)
        elif type(got) is not int or got != n or not in_range:
            ctx.fail('noncanonical-returns-int(v)-within-range', case, detail)


def eval_csl(ctx, case, su):
    """case: val spec, name, lo, hi (None = not given / None), mode: pos/kw/default."""
    v = dec(case['val'])
    name, lo, hi = case['name'], case['lo'], case['hi']
    is_str = isinstance(v, str)
    length = case.get('length')
    ctx.case(('csl', repr(case['val'])[:120], name, lo, hi, case['mode']))
    if case['mode'] == 'default':
        got, exc = call(su.check_string_length, v) if name is None else call(su.check_string_length, v, name)
        lo_eff, hi_eff = 0, None
    elif case['mode'] == 'kw':
        kw = {}
        if lo is not None:
            kw['min_length'] = lo
        kw['max_length'] = hi
        got, exc = call(su.check_string_length, v, name=name, **kw)
        lo_eff, hi_eff = (0 if lo is None else lo), hi
    else:
        got, exc = call(su.check_string_length, v, name, 0 if lo is None else lo, hi)
        lo_eff, hi_eff = (0 if lo is None else lo), hi
    detail = {'value': repr(case['val'])[:120], 'length': length, 'min': lo_eff, 'max': hi_eff,
              'got': repr(got), 'exc': exc}
    if not is_str:
        ctx.clause('csl-type')
        ctx.h('check_string_length', 'non-str/must-TypeError')
        if not isinstance(exc, TypeError):
            ctx.fail('non-string-must-raise-TypeError', case, detail)
        return
    too_short = length < lo_eff
    if hi_eff == 0 and not too_short:
        ctx.clause('csl-max0-dont-care')
        ctx.h('check_string_length', 'max=0/dont-care')
        if not ((exc is None and got is None) or isinstance(exc, ValueError)):
            ctx.fail('max0-returns-None-or-ValueError', case, detail)
        return
    too_long = hi_eff is not None and hi_eff >= 1 and length > hi_eff
    rel = []
    if length in (lo_eff - 1, lo_eff, lo_eff + 1):
        rel.append('min%+d' % (length - lo_eff))
    if hi_eff is not None and length in (hi_eff - 1, hi_eff, hi_eff + 1):
        rel.append('max%+d' % (length - hi_eff))
    if too_short or too_long:
        ctx.clause('csl-raises')
        ctx.h('check_string_length', 'must-ValueError/%s/%s' % ('short' if too_short else 'long',
                                                                ','.join(rel) or 'far'))
        if not isinstance(exc, ValueError):
            ctx.fail('length-out-of-bounds-must-raise-ValueError', case, detail)
    else:
        ctx.clause('csl-ok')
        ctx.h('check_string_length', 'must-return-None/%s' % (','.join(rel) or 'inside'))
        if exc is not None or got is not None:
            ctx.fail('length-within-bounds-must-return-None', case, detail)


def eval_uuid(ctx, case, uu):
    v = dec(case['val'])
    want = case['want']
    ctx.case(('uuid', repr(case['val'])[:200], type(v).__name__),
             not (want is True and case['cls'].startswith('accept/hyph/lower')))
    ctx.h('is_uuid_like', '%s/%s' % ({True: 'must-True', False: 'must-False', None: 'dont-care'}[want],
                                     case['cls']))
    got, exc = call(uu.is_uuid_like, v)
    detail = {'value': repr(v)[:200], 'got': repr(got), 'exc': exc}
    if exc is not None or not (got is True or got is False):
        ctx.clause('uuid-never-raises')
        ctx.fail('is_uuid_like-must-answer-without-raising', case, detail)
        return
    if want is None:
        ctx.clause('uuid-dont-care')
        return
    ctx.clause('uuid-accept' if want else 'uuid-reject')
    if got is not want:
        ctx.fail('uuid-spelling-must-be-accepted' if want else 'not-32-hex-digits-must-be-rejected',
                 case, detail)


_SEEN = set()
_DASHED_RE = re.compile(r'[0-9a-f]{8}-[0-9a-f]{4}-[0-9a-f]{4}-[0-9a-f]{4}-[0-9a-f]{12}', re.A)
_PLAIN_RE = re.compile(r'[0-9a-f]{32}', re.A)


def eval_gen(ctx, case, uu):
    """case: dashed in (True, False, 'default'), n draws, rseed for the respelling."""
    import random
    dashed, n = case['dashed'], case['n']
    rng = random.Random(case['rseed'])
    ctx.case(('gen', dashed, case['rseed'], n), True, n=n)
    bad_format = not_accepted = dup = respell = 0
    first = None
    for _i in range(n):
        if dashed == 'default':
            s, exc = call(uu.generate_uuid)
        else:
            s, exc = call(uu.generate_uuid, dashed=dashed)
        if exc is not None:
            ctx.fail('generate_uuid-raised', case, {'exc': exc})
            return
        rx = _PLAIN_RE if dashed is False else _DASHED_RE
        if not isinstance(s, str) or not rx.fullmatch(s):
            bad_format += 1
            first = first or s
            continue
        acc, exc = call(uu.is_uuid_like, s)
        if acc is not True:
            not_accepted += 1
            first = first or s
        h = s.replace('-', '')
        if h in _SEEN:
            dup += 1
            first = first or s
        _SEEN.add(h)
        # the same value in another demanded spelling must be accepted as well
        deco = rng.choice(MUST_DECOS)
        text = spell(h, deco, rng.choice(('lower', 'upper', 'mixed')), rng)
        acc2, exc2 = call(uu.is_uuid_like, text)
        if acc2 is not True:
            respell += 1
            first = first or text
    ctx.clause('gen-format', n)
    ctx.clause('gen-accepted', n)
    ctx.clause('gen-distinct', n)
    ctx.h('generate_uuid', 'dashed=%s' % dashed, n)
    ctx.extra['generate_uuid draws in one process'] = len(_SEEN)
    if bad_format:
        ctx.fail('generate_uuid-format', case, {'count': bad_format, 'first': repr(first)})
    if not_accepted:
        ctx.fail('generate_uuid-output-must-be-uuid-like', case, {'count': not_accepted, 'first': repr(first)})
    if dup:
        ctx.fail('generate_uuid-output-must-be-distinct', case, {'count': dup, 'first': repr(first)})
    if respell:
        ctx.fail('generated-uuid-respelled-must-be-accepted', case, {'count': respell, 'first': repr(first)})


def _evaluate_plain(ctx, case):
    from oslo_utils import strutils as su
    from oslo_utils import uuidutils as uu
    from vlib import callstyle
    su, uu = callstyle.proxy(su), callstyle.proxy(uu)
    kind = case['kind']
    if kind == 'bool':
        eval_bool(ctx, case, su)
    elif kind == 'intlike':
        eval_intlike(ctx, case, su)
    elif kind == 'vint':
        eval_vint(ctx, case, su)
    elif kind == 'csl':
        eval_csl(ctx, case, su)
    elif kind == 'uuid':
        eval_uuid(ctx, case, uu)
    elif kind == 'gen':
        eval_gen(ctx, case, uu)
    elif kind == 'twins':
        eval_twins(ctx, case, su, uu)
    else:
        raise ValueError(kind)


def eval_twins(ctx, case, su, uu):
    """Equal-but-different arguments in several orders (vlib/twins.py): the answer for an argument does not depend on
    which equal-valued object of another type, or which other spelling of a case-insensitive string, was asked before."""
    from vlib import twins
    ctx.case(('twins', case['what'], repr(case.get('n', case.get('text')))))
    if case['what'] == 'number':
        n, lo, hi = case['n'], case.get('lo'), case.get('hi')
        calls = []
        for label, v in twins.numeric_twins(n) + [('str', str(n))]:
            calls.append(('validate_integer(%s)' % label, lambda v=v: su.validate_integer(v, 'field', lo, hi)))
            calls.append(('is_int_like(%s)' % label, lambda v=v: su.is_int_like(v)))
            calls.append(('bool_from_string(%s)' % label, lambda v=v: su.bool_from_string(v)))
        twins.order_independence(ctx, 'equal-valued-arguments-in-any-order', case, calls)
    else:
        text = case['text']
        for fname, f in (('bool_from_string', lambda v: su.bool_from_string(v, strict=True)),
                         ('is_valid_boolstr', lambda v: su.is_valid_boolstr(v)),
                         ('is_int_like', lambda v: su.is_int_like(v)),
                         ('validate_integer', lambda v: su.validate_integer(v, 'field')),
                         ('check_string_length', lambda v: su.check_string_length(v, 'field', 1, 40)),
                         ('is_uuid_like', lambda v: uu.is_uuid_like(v))):
            calls = [('%s(%s)' % (fname, label), lambda v=v, f=f: f(v)) for label, v in twins.text_twins(text)]
            first = twins.order_independence(ctx, 'equal-valued-arguments-in-any-order', case, calls)
            twins.as_characters(ctx, 'str-subclass-answered-as-its-characters', case, first, plain='%s(str)' % fname,
                                same=('%s(ci-same)' % fname, '%s(eq-without-hash)' % fname))


from vlib import envmodes  # noqa: E402
evaluate = envmodes.with_modes(_evaluate_plain, lazy=lambda case: True, warn=lambda case: True,
                               digits=lambda case: case.get('digit_limit') is None and 'pow10' not in repr(case))
CONCURRENT = lambda case: case.get('digit_limit') is None and case.get('kind') != 'twins'   # noqa: E731


# ----------------------------------------------------------------------
# generators
# ----------------------------------------------------------------------
def all_casings(word):
    outs = ['']
    for ch in word:
        if ch.isalpha():
            outs = [o + c for o in outs for c in (ch, ch.upper())]
        else:
            outs = [o + ch for o in outs]
    return outs


def casing_class(word, cased):
    if cased == word:
        return 'lower'
    if cased == word.upper():
        return 'UPPER'
    if cased == word[0].upper() + word[1:]:
        return 'Title'
    return 'miXed'


def near_misses():
    out = ['tru', 'yess', 'of', '2', '', 'y e s', 'truee', 'ye', 'nope', '00', '01', '10', '11', 't1',
           'o n', 'fals', 'flase', 'yes.', '"yes"', "'true'", 'true\x00', '\x00true', 'none', 'None', 'null',
           'enabled', 'disabled', 'enable', '-1', '+1', '1.0', '0.0', '０', 'ｙｅｓ',
           'да', 'tʀue', 'yes,no', 'true false', 'y\ny', 'on\toff', 'True.', 'T.', 'ok',
           'nein', 'ja', 'oui', 'si', 'Ⅰ', '¹', '١', 'o', 'fa', 'tr', 'of f', 'offf', 'nno',
           'yn', 'tf', 'b\'true\'', 'yes​', '﻿true', '_yes_', '(1)', '0x1', '1e0', 'yes\\n']
    # texts that contain %-conversion specifiers (the strict error message quotes the input)
    out += ['%d', '%s', '%x', '%c', '%5.2f', 'rate=%d', '%(val)s', 'is_public=%(flag)d', '100%', '%', '%%', '%r %r',
            '{0}', '{}', '{x}', '$x', '\\1', '%(true)s']
    for w in WORDS:
        for i in range(len(w)):
            out.append(w[:i] + w[i + 1:])              # one character dropped
            out.append(w[:i] + w[i] + w[i:])           # one character doubled
            out.append(w[:i] + 'x' + w[i:])            # one character inserted
            out.append(w[:i] + ' ' + w[i:] if i else w + 'z')   # inner blank
        out.append(w + w)
        out.append(w + '1')
    seen, res = set(), []
    for t in out:
        if t.lower() in WORDS or t != t.strip() or t in seen:
            continue                                   # a word after all (or padded): not a near-miss
        seen.add(t)
        res.append(t)
    return res


def bool_cases(ctx):
    # 1. exhaustive grid: word x every casing x padding x strict x default
    for word in WORDS:
        want = 'T' if word in TRUE_WORDS else 'F'
        for cased in all_casings(word):
            for (pl, pr), strict, default in itertools.product(PADS, (False, True), DEFAULTS):
                yield dict(kind='bool', subj=pl + cased + pr, strict=strict, default=default, want=want,
                           padded=bool(pl or pr),
                           cls='%s-word/%s/%s' % ('true' if want == 'T' else 'false', casing_class(word, cased),
                                                  'padded' if (pl or pr) else 'bare'))
    # 2. near-misses x case x padding
    for t in near_misses():
        variants = [t]
        if t.upper() != t and t.upper().lower() == t.lower():
            variants.append(t.upper())
        for text in variants:
            for (pl, pr), strict, default in itertools.product(PADS[:6] + PADS[8:9], (False, True),
                                                               (False, True, None)):
                yield dict(kind='bool', subj=pl + text + pr, strict=strict, default=default, want='D',
                           padded=bool(pl or pr), cls='near-miss/%s' % ('padded' if (pl or pr) else 'bare'))
    # 3. non-str subjects
    nonstr = [(True, 'P', 'bool'), (False, 'P', 'bool'), (1, 'T', 'int'), (0, 'F', 'int'), (2, 'D', 'int'),
              (-1, 'D', 'int'), (10, 'D', 'int'), (11, 'D', 'int'), (None, 'D', 'None'),
              (1.0, 'D', 'float'), (0.0, 'D', 'float'), (F('nan'), 'D', 'float'), (F('inf'), 'D', 'float'),
              (b'true', 'X', 'bytes'), (b'1', 'X', 'bytes'), ({'$': 'list', 'v': []}, 'X', 'list'),
              ({'$': 'list', 'v': ['yes']}, 'X', 'list'), ({'$': 'tuple', 'v': []}, 'X', 'tuple'),
              ({'$': 'strobj', 'v': 'yes'}, 'X', 'object'), ({'$': 'strobj', 'v': ' OFF '}, 'X', 'object'),
              ({'$': 'strobj', 'v': 'maybe'}, 'X', 'object'), ({'$': 'dict', 'v': {}}, 'X', 'dict')]
    for (subj, want, tname), strict, default in itertools.product(nonstr, (False, True), DEFAULTS):
        yield dict(kind='bool', subj=subj, strict=strict, default=default, want=want, padded=False,
                   cls='non-str/%s' % tname)
    # 3b. caseless / compatibility look-alikes of the words: equal to a word only under casefold() or NFKC, which is
    # not "ignoring case" - they are not documented words, for bool_from_string and is_valid_boolstr alike
    subst = {'s': ['\u017f'], 'f': ['\uff46', '\U0001d41f'], 't': ['\uff54'], 'y': ['\uff59'], 'e': ['\uff45', '\u212f'],
             'o': ['\uff4f', '\u2134'], 'n': ['\uff4e', '\u207f'], '1': ['\uff11', '\u00b9', '\u0661'], '0': ['\uff10', '\u0660'],
             'a': ['\uff41'], 'l': ['\uff4c', '\u2113'], 'r': ['\uff52'], 'u': ['\uff55']}
    looks = set()
    for w in WORDS:
        if 'ff' in w:
            looks.add(w.replace('ff', '\ufb00'))
            looks.add(w.replace('ff', '\ufb00').upper().replace('FF', '\ufb00'))
        for i, ch in enumerate(w):
            for r in subst.get(ch, []):
                looks.add(w[:i] + r + w[i + 1:])
                looks.add((w[:i].upper() + r + w[i + 1:].upper()))
    for text in sorted(looks):
        for strict, default in itertools.product((False, True), (False, True, None)):
            yield dict(kind='bool', subj=text, strict=strict, default=default, want='D', padded=False,
                       cls='caseless-look-alike')
    # 4. seeded arbitrary text, oracle = regex reference model
    rng = ctx.rng('bool-text')
    alphabet = 'tTrRuUeEoOnNyYsSfFaAlL01' * 3 + ' \t\n' * 2 + '2x-._,éıſK\x00'
    for _i in range(ctx.pick(8000, 400000)):
        k = rng.randrange(4)
        if k == 0:
            text = ''.join(rng.choice(alphabet) for _ in range(rng.randrange(0, 7)))
        elif k == 1:       # a word with one random edit
            w = list(rng.choice(WORDS))
            op = rng.randrange(3)
            pos = rng.randrange(len(w) + (op == 0))
            if op == 0:
                w.insert(pos, rng.choice(alphabet))
            elif op == 1:
                w[pos] = rng.choice(alphabet)
            else:
                del w[pos]
            text = ''.join(c.upper() if rng.random() < 0.3 else c for c in w)
            text = rng.choice(['', ' ', '\n']) + text + rng.choice(['', ' ', '\t'])
        elif k == 2:       # word, random casing, random padding
            w = rng.choice(WORDS)
            text = (''.join(rng.choice(WS) for _ in range(rng.randrange(0, 4))) +
                    ''.join(c.upper() if rng.random() < 0.5 else c for c in w) +
                    ''.join(rng.choice(WS) for _ in range(rng.randrange(0, 4))))
        else:              # two words glued / separated
            text = rng.choice(WORDS) + rng.choice(['', ' ', ',', '\n']) + rng.choice(WORDS)
        m = _WORD_RE.fullmatch(text)
        core = text.strip(WS)
        exotic = core != core.strip()          # other whitespace at the rim: DONT-CARE
        if exotic:
            want = 'X'
        elif m:
            want = 'T' if m.group(1) is not None else 'F'
        else:
            want = 'D'
        yield dict(kind='bool', subj=text, strict=rng.random() < 0.5, default=rng.choice(DEFAULTS),
                   want=want, padded=(core != text) or exotic,
                   cls='random-text/%s' % ('padded' if core != text else 'bare'))


NONASCII_DIGITS = ['٠١٢٣٤٥٦٧٨٩',      # Arabic-Indic
                   '０１２３４５６７８９',      # fullwidth
                   '०१२३४५६७८९']      # Devanagari


def respell_int(n, how, rng):
    """Non-canonical spellings of the integer n (str).  Returns text or None."""
    s = str(n)
    digits = s.lstrip('-')
    sign = '-' if n < 0 else ''
    if how == 'plus':
        return '+' + s if n >= 0 else None
    if how == 'zero':
        return sign + '0' * rng.randrange(1, 4) + digits
    if how == 'minus-zero':
        return '-0' if n == 0 else None
    if how == 'lead-space':
        return rng.choice([' ', '\t', '\n', '  ']) + s
    if how == 'trail-space':
        return s + rng.choice([' ', '\t', '\n', '\r\n'])
    if how == 'underscore':
        if len(digits) < 2:
            return None
        p = rng.randrange(1, len(digits))
        return sign + digits[:p] + '_' + digits[p:]
    if how == 'dot-zero':
        return s + '.0'
    if how == 'trail-dot':
        return s + '.'
    if how == 'exp':
        return s + 'e0'
    if how == 'nonascii':
        tab = rng.choice(NONASCII_DIGITS)
        return sign + ''.join(tab[int(c)] for c in digits)
    if how == 'sign-space':
        return (sign or '+') + ' ' + digits
    if how == 'suffix':
        return s + rng.choice(['L', 'l', 'j', 'a', ',', '\x00'])
    if how == 'thousands':
        return '{:,}'.format(n) if abs(n) >= 1000 else None
    if how == 'hex':
        return hex(n)
    raise ValueError(how)


RESPELLINGS = ['plus', 'zero', 'minus-zero', 'lead-space', 'trail-space', 'underscore', 'dot-zero',
               'trail-dot', 'exp', 'nonascii', 'sign-space', 'suffix', 'thousands', 'hex']


def int_pool(rng, n):
    pool = [0, 1, -1, 2, 7, 9, 10, -10, 11, 99, 100, 101, 255, 256, 999, 1000, 1001, 65535, 65536,
            2 ** 31 - 1, 2 ** 31, -2 ** 31, -2 ** 31 - 1, 2 ** 32, 2 ** 53, 2 ** 53 + 1, 2 ** 63 - 1, 2 ** 63,
            -2 ** 63, -2 ** 63 - 1, 2 ** 64, 10 ** 15, 10 ** 16, 10 ** 22, 10 ** 23, 10 ** 100, -10 ** 100,
            10 ** 308, 10 ** 309, 10 ** 1000 + 1]
    for _i in range(n):
        v = rng.getrandbits(rng.choice([1, 4, 8, 16, 31, 32, 53, 64, 65, 128, 400, 2000]))
        pool.append(-v if rng.random() < 0.4 else v)
    return pool


def intlike_cases(ctx):
    rng = ctx.rng('intlike')
    # canonical renderings longer than the interpreter's default digit limit, asked with the limit lifted / raised: they
    # ARE canonical base-10 renderings (under the default limit the conversion itself is refused: DONT-CARE there)
    # exactly as many DIGITS as the limit allows, plus a sign: still convertible (the limit counts digits, not characters)
    for limit, digits in ((None, 4300), (None, 4299), (640, 640), (640, 639), (1000, 1000)):
        yield dict(kind='intlike', val={'$': 'pow10', 'n': digits - 1, 'str': True, 'sign': '-'}, want=True,
                   cls='canonical-str-at-the-digit-limit', digit_limit=limit)
        yield dict(kind='intlike', val={'$': 'pow10', 'n': digits - 1, 'str': True, 'sign': ''}, want=True,
                   cls='canonical-str-at-the-digit-limit', digit_limit=limit)
    for digits in (4299, 4300, 4301, 4302, 5000, 20000):
        for limit in (0, 100000):
            for sign in ('', '-'):
                yield dict(kind='intlike', val={'$': 'pow10', 'n': digits - 1, 'str': True, 'sign': sign}, want=True,
                           cls='canonical-str-beyond-default-digit-limit', digit_limit=limit)
                yield dict(kind='intlike', val={'$': 'pow10', 'n': digits - 1, 'str': True, 'sign': sign, 'lead0': True},
                           want=False, cls='str-leading-zero-beyond-default-digit-limit', digit_limit=limit)
    for n in int_pool(rng, ctx.pick(1500, 80000)):
        small = abs(n) < 100
        yield dict(kind='intlike', val=n, want=True, cls='canonical-small' if small else 'canonical-int')
        yield dict(kind='intlike', val=str(n), want=True, cls='canonical-str')
        for how in RESPELLINGS:
            text = respell_int(n, how, rng)
            if text is None:
                continue
            yield dict(kind='intlike', val=text, want=False, cls='str-' + how)
        if abs(n) <= 2 ** 53:
            yield dict(kind='intlike', val=float(n), want=False, cls='float-integral')
    directed_false = ['', ' ', '-', '+', '--5', '+-5', '-+5', '5-', '0x10', '0b1', '0o7', '1e3', '1E3', '.5',
                      '5.5', '-.5', 'five', 'None', 'True', 'False', 'inf', 'nan', '-inf', 'Infinity', '1/2',
                      '1 000', '1,000', '²', '①', 'Ⅷ', '五', '5٠', '۵', '௧',
                      '−' + '5', '－5', '\ud800', '5\x00', '\x005', '05', '00', '-00', '+0', '-0',
                      '0_0', '_5', '5_', '1__0', '​5', '5﻿', 'b\'5\'', '[5]', '5\n', '\n5', '5\r',
                      '\x0c5', '5\x1f', '\x1c5', ' 5', '5 ', '5　', '(5)', '5%', '$5', '#5']
    for t in directed_false:
        yield dict(kind='intlike', val=t, want=False, cls='str-directed')
    nonstr_false = [None, True, False, 0.0, {'$': 'float', 'v': '-0.0'}, 0.5, 1.5, -2.5, 1e300, 5e-324,
                    F('nan'), b'5', b'', b'-5', {'$': 'list', 'v': []}, {'$': 'list', 'v': [5]},
                    {'$': 'tuple', 'v': []}, {'$': 'tuple', 'v': [5]}, {'$': 'dict', 'v': {}},
                    {'$': 'complex', 're': 5, 'im': 0}, {'$': 'complex', 're': 0, 'im': 1},
                    {'$': 'uuid', 'hex': '0' * 31 + '5'}, {'$': 'strobj', 'v': '5'}]
    for v in nonstr_false:
        yield dict(kind='intlike', val=v, want=False, cls='non-str')
    # infinities: int() raises OverflowError, which the predicate has to absorb (defect fixed in ea31de2)
    for v in [F('inf'), F('-inf'), {'$': 'decimal', 'v': 'Infinity'}]:
        yield dict(kind='intlike', val=v, want=False, cls='infinity')
    # DONT-CARE: numeric types whose str() is a canonical rendering; beyond the int<->str digit limit
    for v in [{'$': 'decimal', 'v': '5'}, {'$': 'decimal', 'v': '5.0'}, {'$': 'decimal', 'v': 'NaN'},
              {'$': 'pow10', 'n': 5000}, {'$': 'pow10', 'n': 5000, 'str': True},
              {'$': 'pow10', 'n': 4299}, {'$': 'pow10', 'n': 4300}]:
        yield dict(kind='intlike', val=v, want=None, cls='dont-care')


BOUNDS = [(None, None), (0, None), (None, 0), (0, 0), (1, 65535), (0, 255), (-5, 5), (-1, 1),
          (-2 ** 31, 2 ** 31 - 1), (0, 2 ** 64), (-10 ** 30, 10 ** 30), (10, 1), (1, None), (None, -1),
          (3, 3), (-7, -7)]


def vint_cases(ctx):
    rng = ctx.rng('vint')
    for lo, hi in BOUNDS:
        ns = {0, 1, -1}
        for b in (lo, hi):
            if b is not None:
                ns.update((b - 1, b, b + 1, b - 2, b + 2, 2 * b, -b))
        if lo is not None and hi is not None and lo <= hi:
            ns.add((lo + hi) // 2)
        for n in sorted(ns):
            for form in ('int', 'str'):
                for style in ({}, {'kwargs': True}):
                    yield dict(kind='vint', val=n if form == 'int' else str(n), n=n, lo=lo, hi=hi,
                               cls='canonical', **style)
            for how in ('plus', 'zero', 'lead-space', 'trail-space', 'underscore', 'nonascii', 'minus-zero'):
                text = respell_int(n, how, rng)
                if text is not None:
                    yield dict(kind='vint', val=text, n=n, lo=lo, hi=hi, cls='noncanonical')
            for text in (str(n) + '.0', str(n) + 'e0', hex(n)):
                yield dict(kind='vint', val=text, n=n, lo=lo, hi=hi, cls='noncanonical')
            if abs(n) < 2 ** 53:
                yield dict(kind='vint', val=float(n), n=n, lo=lo, hi=hi, cls='noncanonical')
            yield dict(kind='vint', val={'$': 'decimal', 'v': str(n)}, n=n, lo=lo, hi=hi, cls='noncanonical')
        for v, n in ((True, 1), (False, 0), (b'1', 1), ({'$': 'strobj', 'v': '1'}, 1)):
            yield dict(kind='vint', val=v, n=n, lo=lo, hi=hi, cls='noncanonical')
        for v in [None, 'abc', '', ' ', '1.5', 1.5, -0.5, 'five', {'$': 'list', 'v': [1]},
                  {'$': 'list', 'v': []}, {'$': 'dict', 'v': {}}, {'$': 'tuple', 'v': [1]}, 'None', '--5',
                  '5 5', 'nan', F('nan'), F('inf'), F('-inf'), '5,0', '-', '+', '1/2', '−' + '5',
                  '\ud800', '5\x00', '0x', 'one', '五', '5-', '1 000']:
            yield dict(kind='vint', val=v, n=None, lo=lo, hi=hi, cls='nonint')
    for n in (0, 5, -5, 10 ** 40):
        for form in ('int', 'str'):
            yield dict(kind='vint', val=n if form == 'int' else str(n), n=n, lo=None, hi=None,
                       cls='canonical', defaults=True)
    # seeded: random range, value placed relative to it
    for _i in range(ctx.pick(8000, 500000)):
        bits = rng.choice([3, 8, 16, 32, 64, 100])
        a = rng.getrandbits(bits) - (1 << (bits - 1))
        b = a + rng.getrandbits(rng.randrange(1, bits + 1))
        lo = a if rng.random() < 0.8 else None
        hi = b if rng.random() < 0.8 else None
        where = rng.randrange(8)
        n = [a - 1 - rng.getrandbits(bits), a - 1, a, a + 1, b - 1, b, b + 1,
             b + 1 + rng.getrandbits(bits)][where]
        if rng.random() < 0.15:
            n = rng.randrange(a, b + 1)
        k = rng.randrange(10)
        if k < 4:
            yield dict(kind='vint', val=n, n=n, lo=lo, hi=hi, cls='canonical', kwargs=rng.random() < 0.3)
        elif k < 8:
            yield dict(kind='vint', val=str(n), n=n, lo=lo, hi=hi, cls='canonical', kwargs=rng.random() < 0.3)
        else:
            text = respell_int(n, rng.choice(['plus', 'zero', 'lead-space', 'trail-space', 'underscore',
                                              'nonascii', 'dot-zero', 'hex', 'suffix']), rng)
            if text is not None:
                yield dict(kind='vint', val=text, n=n, lo=lo, hi=hi, cls='noncanonical')


CSL_BOUNDS = [(None, None), (0, None), (1, None), (0, 1), (1, 1), (0, 255), (1, 255), (3, 8), (8, 3), (5, 5),
              (2, 1), (0, 2), (256, None), (0, 65535), (0, 0), (1, 0), (3, 0), (10, 11)]
CSL_UNITS = ['a', ' ', 'é', '中', '\U0001f600', '\x00', '\n']


def csl_cases(ctx):
    rng = ctx.rng('csl')
    for lo, hi in CSL_BOUNDS:
        lens = {0, 1, 2}
        for b in (lo, hi):
            if b is not None:
                lens.update(x for x in (b - 2, b - 1, b, b + 1, b + 2, 2 * b + 1) if x >= 0)
        for length in sorted(lens):
            for unit in (CSL_UNITS if length <= 300 else CSL_UNITS[:1] + CSL_UNITS[3:5]):
                for mode in ('pos', 'kw'):
                    for name in (None, 'thing'):
                        if length > 300 and name is None and mode == 'kw':
                            continue
                        val = unit * length if length <= 64 else {'$': 'rep', 'unit': unit, 'n': length}
                        yield dict(kind='csl', val=val, length=length, name=name, lo=lo, hi=hi, mode=mode)
            # a string mixing alphabets, combining marks included: length = number of code points
            if 0 < length <= 300:
                chars = [rng.choice('abé́中\U0001f600‍️ ') for _ in range(length)]
                yield dict(kind='csl', val=''.join(chars), length=length, name='mixed', lo=lo, hi=hi, mode='pos')
        for v in [None, 5, 0, 1.5, True, b'abc', b'', {'$': 'list', 'v': ['a']}, {'$': 'list', 'v': []},
                  {'$': 'tuple', 'v': ['a', 'b']}, {'$': 'tuple', 'v': ['a']}, {'$': 'dict', 'v': {}},
                  {'$': 'strobj', 'v': 'abc'}, {'$': 'uuid', 'hex': 'ab' * 16}]:
            for name in (None, 'thing'):
                yield dict(kind='csl', val=v, name=name, lo=lo, hi=hi, mode='pos')
    for length in (0, 1, 5, 1000):
        for name in (None, 'thing'):
            yield dict(kind='csl', val='x' * length, length=length, name=name, lo=None, hi=None, mode='default')
    for v in (None, 5, b'abc'):
        yield dict(kind='csl', val=v, name=None, lo=None, hi=None, mode='default')
    for _i in range(ctx.pick(5000, 300000)):
        lo = rng.choice([None, 0, 1, rng.randrange(0, 40)])
        hi = rng.choice([None, rng.randrange(1, 60), (lo or 0) + rng.randrange(0, 5)])
        if hi == 0:
            hi = 1
        anchor = rng.choice([b for b in (lo, hi) if b is not None] or [3])
        length = max(0, anchor + rng.randrange(-2, 3))
        unit = rng.choice(CSL_UNITS)
        yield dict(kind='csl', val=unit * length, length=length, name=rng.choice([None, 'thing']),
                   lo=lo, hi=hi, mode=rng.choice(['pos', 'kw']))


DECOS = ['plain', 'hyph', 'brace-hyph', 'urn-hyph', 'brace-plain', 'urn-plain', 'urn-brace-hyph']
MUST_DECOS = ['plain', 'hyph', 'brace-hyph', 'urn-hyph']


def hyphenate(h):
    return '-'.join([h[:8], h[8:12], h[12:16], h[16:20], h[20:]])


def spell(h, deco, case, rng):
    """h: the hex part (any length, lower case; may hold foreign characters)."""
    if case == 'upper':
        h = h.upper()
    elif case == 'mixed':
        h = ''.join(c.upper() if rng.random() < 0.5 else c for c in h)
    body = hyphenate(h) if 'hyph' in deco else h
    if 'brace' in deco:
        body = '{' + body + '}'
    if deco.startswith('urn'):
        body = 'urn:uuid:' + body
    return body


def uuid_cases(ctx):
    rng = ctx.rng('uuid')
    special = [0, 1, 2 ** 128 - 1, 2 ** 127, 0x12345678123456781234567812345678, 2 ** 64, 2 ** 64 - 1,
               int('a' * 32, 16), int('f' * 31 + '0', 16), int('0' + 'f' * 31, 16)]
    n_acc = ctx.pick(2500, 150000)
    for i in range(n_acc):
        v = special[i] if i < len(special) else rng.getrandbits(128)
        h = '%032x' % v
        if not any(c in 'abcdef' for c in h) and i >= len(special):
            continue
        for deco in DECOS:
            for case in ('lower', 'upper', 'mixed'):
                text = spell(h, deco, case, rng)
                must = deco in MUST_DECOS
                yield dict(kind='uuid', val=text, want=True if must else None,
                           cls='accept/%s/%s' % (deco, case) if must else 'decoration/%s' % deco)
    # real version-4 UUIDs from the standard library, and UUID objects themselves
    for i in range(ctx.pick(300, 3000)):
        u = _uuid.UUID(int=rng.getrandbits(128), version=rng.choice([1, 3, 4, 5]))
        yield dict(kind='uuid', val=str(u), want=True, cls='accept/hyph/lower/stdlib-str')
        yield dict(kind='uuid', val=u.urn, want=True, cls='accept/urn-hyph/lower/stdlib-urn')
        yield dict(kind='uuid', val=u.hex, want=True, cls='accept/plain/lower/stdlib-hex')
    # wrong number of hex digits, every decoration and case
    for i in range(ctx.pick(120, 1500)):
        for length in (30, 31, 33, 34, 0, 1, 16, 64)[:4 if i % 10 else 8]:
            h = ''.join(rng.choice('0123456789abcdef') for _ in range(length))
            for deco in DECOS:
                for case in ('lower', 'upper', 'mixed'):
                    if length == 0 and deco == 'plain':
                        text = ''
                    else:
                        text = spell(h, deco, case, rng)
                    yield dict(kind='uuid', val=text, want=False, cls='reject/len%d/%s' % (length, deco))
    # 32 characters of which exactly one is not a hex digit, per position class
    foreign = ['g', 'z', 'G', 'x', 'o', 'l', ' ', '_', '+', '.', '/', ':', '\n', '\x00', '٣', 'Ａ',
               '１', 'é', '-', '{', '}']
    positions = [0, 1, 7, 8, 11, 12, 15, 16, 19, 20, 30, 31]
    for i in range(ctx.pick(12, 150)):
        h = '%032x' % rng.getrandbits(128)
        for ch in foreign:
            for pos in positions + [rng.randrange(32)]:
                bad = h[:pos] + ch + h[pos + 1:]
                pcls = {0: 'first', 31: 'last'}.get(pos, 'group-edge' if pos in positions else 'inner')
                for deco in DECOS:
                    case = rng.choice(('lower', 'upper', 'mixed'))
                    text = spell(bad, deco, case, rng)
                    kind = 'deco-char' if ch in '-{}' else ('ascii' if ord(ch) < 128 else 'non-ascii')
                    yield dict(kind='uuid', val=text, want=False,
                               cls='reject/foreign-%s@%s/%s' % (kind, pcls, deco))
    # 32 hex digits with braces INSIDE (braces decorate the ends of a UUID, nothing else): inserted, not replacing a digit
    for i in range(ctx.pick(40, 600)):
        h = '%032x' % rng.getrandbits(128)
        for deco in DECOS:
            good = spell(h, deco, rng.choice(('lower', 'upper', 'mixed')), rng)
            digits = [k for k, ch in enumerate(good) if ch in '0123456789abcdefABCDEF'][-32:]    # ('urn:uuid:' has a 'd')
            lo, hi = digits[0] + 1, digits[-1]
            if hi - lo < 4:
                continue
            a, b = sorted(rng.sample(range(lo, hi), 2))
            for text in (good[:a] + '{' + good[a:b] + '}' + good[b:], good[:a] + '}' + good[a:], good[:b] + '{' + good[b:],
                         good[:a] + '{}' + good[a:], good[:a] + '{' + good[a:] + '}'):
                yield dict(kind='uuid', val=text, want=False, cls='reject/inner-braces/%s' % deco)
    # a valid spelling with something around it that is not a decoration
    for i in range(ctx.pick(60, 800)):
        h = '%032x' % rng.getrandbits(128)
        for deco in DECOS:
            good = spell(h, deco, rng.choice(('lower', 'upper', 'mixed')), rng)
            for pre, post in ((' ', ''), ('', ' '), ('', '\n'), ('\t', ''), ('0x', ''), ('', '0'), ('0', ''),
                              ('(', ')'), ('[', ']'), ('<', '>'), ('"', '"'), ('uuid=', ''), ('', ';'),
                              ('+', ''), ('', '_'), ('urn:uuid:urn:uuid', ''), ('x', '')):
                yield dict(kind='uuid', val=pre + good + post, want=False, cls='reject/wrapped/%s' % deco)
    for t in ['', ' ', 'uuid', 'urn:uuid:', 'urn:', '{}', '{', '-', '-' * 32, '-' * 36, 'g' * 32, 'z' * 36,
              'None', '0', '12345', 'not-a-uuid-at-all', 'urn:uuid:{}', '٣' * 32, 'ａ' * 32,
              '0x' + 'a' * 30, '+' + 'a' * 31, '-' + 'a' * 31, ' ' * 32, '_' * 32, 'a_' * 16,
              'a' * 31 + '\n', '\ud800' * 32, 'urn:uuid', 'uuid:', '{' + '-' * 4 + '}']:
        yield dict(kind='uuid', val=t, want=False, cls='reject/directed')
    for v in [None, 0, 5, 2 ** 127, -1, 1.5, True, False, {'$': 'list', 'v': []},
              {'$': 'list', 'v': ['a' * 32]}, {'$': 'tuple', 'v': []}, {'$': 'dict', 'v': {}},
              {'$': 'complex', 're': 1, 'im': 0}, F('nan')]:
        yield dict(kind='uuid', val=v, want=False, cls='reject/non-str')
    # DONT-CARE: must answer with a bool, whatever it is
    a = '%032x' % rng.getrandbits(128)
    for v in [b'a' * 32, b'\x00' * 16, hyphenate(a).encode(), {'$': 'uuid', 'hex': a},
              {'$': 'strobj', 'v': a}, '-'.join(a[i:i + 2] for i in range(0, 32, 2)), '-' + a, a + '-',
              a[:5] + '-' + a[5:], '{' + a, a + '}', '}' + a + '{', '{{' + a + '}}', 'URN:UUID:' + a,
              'urn:UUID:' + hyphenate(a), 'Urn:Uuid:' + a, 'uuid:' + a, 'urn:' + a, 'uuid:urn:' + a,
              '{urn:uuid:' + a + '}', a[:16] + 'urn:' + a[16:], a[:16] + 'uuid:' + a[16:],
              '{' + hyphenate(a) + '}}', 'urn:uuid:' + a.upper(), hyphenate(a).replace('-', '--')]:
        yield dict(kind='uuid', val=v, want=None, cls='odd-decoration')


def gen_cases(ctx):
    total = ctx.pick(10000, 100000)
    chunk = 500
    plan = []
    for i in range(total // chunk):
        plan.append(dict(kind='gen', dashed=[True, False, 'default', False][i % 4], n=chunk,
                         rseed='%s/gen/%d/%d' % (ctx.seed, ctx.shard, i)))
    return plan



def REJECTED_FUNCS(ctx):
    from oslo_utils import strutils as su
    from oslo_utils import uuidutils as uu
    return [su.bool_from_string, su.is_valid_boolstr, su.is_int_like, su.validate_integer, su.check_string_length,
            uu.is_uuid_like]


def HAMMER(ctx):
    from oslo_utils import strutils as su, uuidutils as uu
    out = []
    for v in ('true', 'OFF', ' yes ', 'maybe', '1', '0'):
        out.append(('bool_from_string(%r)' % v, lambda t=v: su.bool_from_string(t)))
        out.append(('is_valid_boolstr(%r)' % v, lambda t=v: su.is_valid_boolstr(t)))
    for v in ('12', '-7', '007', '1.0', 'x', 12):
        out.append(('is_int_like(%r)' % (v,), lambda t=v: su.is_int_like(t)))
        out.append(('validate_integer(%r, 0, 100)' % (v,), lambda t=v: su.validate_integer(t, 'f', 0, 100)))
    for v in ('12345678-1234-5678-1234-567812345678', '{12345678123456781234567812345678}', 'urn:uuid:12345678123456781234567812345678', 'zz'):
        out.append(('is_uuid_like(%r)' % v, lambda t=v: uu.is_uuid_like(t)))
    return out

def run(ctx):
    idx = 0
    for gen in (bool_cases, intlike_cases, vint_cases, csl_cases, uuid_cases):
        for case in gen(ctx):
            idx += 1
            if ctx.mine(idx):
                ctx.sample(case['kind'], case)
                evaluate(ctx, case)
    ctx.exhaustive['12 documented words x all 82 letter-case spellings x 11 paddings x strict x 5 defaults'] = True
    rt = ctx.rng('twins')
    for i in range(ctx.pick(300, 20000)):
        idx += 1
        if not ctx.mine(idx):
            continue
        if i % 2:
            n = rt.choice([0, 1, 7, 200, -5, rt.getrandbits(rt.choice([4, 16, 40, 70])) - rt.getrandbits(10)])
            lo = rt.choice([None, n, n - 3])
            hi = rt.choice([None, n, n + 3])
            evaluate(ctx, dict(kind='twins', what='number', n=n, lo=lo, hi=hi))
        else:
            text = rt.choice(['True', 'yes', 'Off', 'n', 'T', 'maybe', 'Abc', '1', '12', 'ENABLED', 'nO',
                              'ABCDEF01-2345-6789-abcd-ef0123456789', 'abcdef0123456789ABCDEF0123456789', 'x' * 41,
                              ''.join(rt.choice('aAbBtTyYoOnNeEsS') for _ in range(rt.randrange(1, 6)))])
            evaluate(ctx, dict(kind='twins', what='text', text=text))
    # every worker makes all the draws, so distinctness is checked over the whole number in one process
    for case in gen_cases(ctx):
        ctx.sample('gen', case)
        evaluate(ctx, case)


LEVEL_TEXT = ('Exploration with constructive oracles: every input is assembled from components whose class is '
              'known (documented word x casing x padding; integer x spelling x position relative to each bound; '
              'code-point count relative to min/max; 128-bit value x decoration x case x injected defect), the '
              'boolean word grid is enumerated completely, the rest is directed plus seeded sampling.')
LEVEL_NOTE = ('Sampled, not exhaustive, outside the boolean word grid. DONT-CARE zones (section 8 of the design): '
              'padded input to is_valid_boolstr, non-canonical integer spellings in validate_integer, '
              'check_string_length(max_length=0), oddly decorated UUID strings, exotic Unicode whitespace.')
TECHNIQUE = 'constructive-class monitor (three-valued oracle) with a regex reference model for arbitrary text'
