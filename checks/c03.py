"""C03 Format detection is exclusive, conservative about raw, and total.

Oracle: nine independent signature predicates (vlib/imagegen.sigs) evaluated on
the content; S = signatures present and allowed.  After close:
  names(formats) minus raw == S  (text-descriptor VMDK: see F1 note below)
  raw only if nothing else matched and raw allowed, never with another name
  format: |S| >= 2 -> ImageFormatError; S == {X} -> X; S empty -> raw if allowed else ImageFormatError
Trace spec (no revision): the decisions sampled after every read are None* followed by
one constant which equals the decision after close.
Totality: format / formats / detect_file_format raise nothing but ImageFormatError.
"""
import os

from vlib import imagecases as ic
from vlib import imagegen as ig
from vlib import known
from vlib import streamlab as sl

PROPERTY = 'C03'
LEVEL = 'exploration'
FI = 'oslo_utils.imageutils.format_inspector'
ANCHORS = [(FI, 'InspectWrapper.formats'), (FI, 'InspectWrapper.format'), (FI, 'InspectWrapper.__init__'),
           (FI, 'detect_file_format'), (FI, 'QcowInspector.format_match'), (FI, 'QEDInspector.format_match'),
           (FI, 'VHDInspector.format_match'), (FI, 'VHDXInspector.format_match'), (FI, 'VMDKInspector.format_match'),
           (FI, 'VDIInspector.format_match'), (FI, 'ISOInspector.format_match'), (FI, 'GPTInspector.format_match'),
           (FI, 'LUKSInspector.format_match')]
RULE = ('contents = any subset of the nine signatures (+ FAT look-alike) overlaid on zero / random / text backgrounds of '
        'lengths on both sides of every decision point, valid images of each format, text with a late non-ASCII byte, '
        'short files; x allowed_formats (None, singletons, all-but-raw, random subsets) x read-size sequences; the '
        'decision is sampled after every read. non-trivial = at least one signature present or a text/short file; '
        'distinct by (content digest, allowed set, read schedule)')
REQUIRED_CLAUSES = ['under-debug-logging', 'detect_file_format-on-a-pipe', 'expected_format-does-not-change-the-decision', 'text-descriptor-in-one-read-is-vmdk', 'source-hands-out-one-reused-buffer', 'formats-result-owned-by-caller', 'under-warnings-as-errors', 'allowed-respected-with-expected_format', 'interleaved-wrappers', 'zero-length-reads-are-neutral', 'formats-equal-signatures', 'format-decision', 'no-revision', 'only-ImageFormatError',
                    'raw-exclusive', 'detect_file_format', 'fd-balance']
ASSUMPTIONS = ['signature predicates written from the property text and the layout comments, sharing no code with the inspectors',
               'F1: for text-like content the VMDK text-descriptor match is chunk dependent; vmdk in formats is DONT-CARE '
               'there when the content contains createType=", and must be absent when it does not']
INTERPRETER_FLAGS = [[], ['-O'], ['-X', 'dev'], ['-bb']]
SHARDS = {'quick': 8, 'thorough': 16}
MIN_DISTINCT = {'quick': 1500, 'thorough': 20000}
LEVEL_TEXT = ('Exploration with an independent signature oracle: all 2^9 signature subsets are overlaid on three '
              'backgrounds (exhaustive over subsets), lengths straddle each decision point, and the decision trace is '
              'checked offline for the no-revision rule.')
LEVEL_NOTE = ('Trusted: vlib/imagegen.sigs. The text-descriptor VMDK signature is only required in the "only if" '
              'direction (known finding F1).')
TECHNIQUE = 'reference-model monitor (independent signature predicates) + offline trace checker (no-revision) over read histories'

LENGTHS = [0, 3, 4, 5, 8, 9, 63, 64, 65, 511, 512, 513, 591, 592, 593, 600, 4096, 34815, 34816, 34817, 40000,
           262143, 262144, 262145, 270000]
READ_SIZES = [1 << 22, 1 << 20, 65536, 4096, 512, 100, 17]
NAMES = ['raw', 'qcow2', 'vhd', 'vhdx', 'vmdk', 'vdi', 'qed', 'iso', 'gpt', 'luks']
SIGNAMES = ['qcow2', 'qed', 'vhd', 'vhdx', 'vmdk', 'vdi', 'iso', 'gpt', 'luks']


def has_createtype(content):
    return b'createtype="' in content[:1 << 20].lower()


_TEXTISH = set(range(0x20, 0x7f)) | {9, 10, 11, 12, 13, 0x1c, 0x1d, 0x1e, 0x1f}      # str.isprintable() or str.isspace()


def text_descriptor_in_one_read(content):
    """A text-only VMDK descriptor presented in ONE read: finding F1 (the outcome depends on the length of the first
    chunks) does not apply, so the answer is pinned - at least 512 bytes, the first 512 all printable or whitespace ASCII
    (as Python's str methods define them: 0x1c..0x1f are whitespace), everything up to the first NUL (within the 1 MiB the
    inspector may keep) decodes as ASCII and holds createType="<fewer than 64 characters>"."""
    if len(content) < 512 or content[:4] == b'KDMV' or not all(b in _TEXTISH for b in content[:512]):
        return False
    body = content[:(1 << 20) - 1]
    nul = body.find(b'\0')
    if nul >= 0:
        body = body[:nul]
    if not body.isascii():
        return False
    low = body.lower()
    i = low.find(b'createtype="')
    if i < 0:
        return False
    j = low.find(b'"', i + 12)
    return 0 <= j - (i + 12) < 64


def build_content(case):
    if 'spec' in case:
        data, _t = ig.build(case['spec'])
        return data
    L, bg = case['length'], case['bg']
    if bg == 'zero':
        b = bytearray(L)
    elif bg == 'random':
        b = bytearray(ig._rand_bytes(('c03', case.get('seed', 0)), L))
        # keep accidental signatures out of the random background
        for nm in SIGNAMES:
            for off, raw_ in ig.SIG_PUT[nm]:
                if off + len(raw_) <= L and bytes(b[off:off + len(raw_)]) == raw_:
                    b[off] ^= 0xff
    else:
        b = bytearray((b'some text line %d\n' % case.get('seed', 0) * (L // 16 + 1))[:L])
    b = bytearray(ig.apply_mutations(bytes(b), [['sig', nm] for nm in case['sigs']]))
    return bytes(b[:L])


def expected(content, allowed):
    S = ig.sigs(content)
    eff_allowed = set(NAMES) if not allowed else set(allowed)
    S &= eff_allowed
    raw_ok = 'raw' in eff_allowed
    f1 = known.f1_text_vmdk(content) and 'vmdk' in eff_allowed
    return S, raw_ok, f1


def decision_for(names, raw_ok):
    if len(names) >= 2:
        return 'IFE'
    if len(names) == 1:
        return sorted(names)[0]
    return 'raw' if raw_ok else 'IFE'


def eval_case(ctx, case):
    F = sl.fi()
    content = build_content(case)
    allowed = case.get('allowed')
    cuts = case['cuts']
    S, raw_ok, f1 = expected(content, allowed)
    ctx.case((content, tuple(allowed or ()), tuple(cuts), tuple(case.get('empties', ())), bool(case.get('short_reads')),
              case.get('carrier')),
             nontrivial=bool(S) or f1 or len(content) < 600)
    ctx.h('signature count', len(S))
    ctx.h('allowed class', 'none' if not allowed else 'singleton' if len(allowed) == 1 else 'subset')
    res = sl.feed_wrapper(content, cuts, allowed=allowed, monitor=False, empties=case.get('empties', ()),
                          short_reads=case.get('short_reads', False), carrier=case.get('carrier', 'bytes'))
    if case.get('carrier'):
        ctx.clause('source-hands-out-one-reused-buffer')
    w = res['wrapper']
    if case.get('empties'):
        ctx.clause('zero-length-reads-are-neutral')
    if res['exc'] is not None:
        ctx.fail('read-raised', case, {'exc': res['exc']})
        return
    # --- totality
    ctx.clause('only-ImageFormatError')
    traced = res['decisions'] + [res['final']]
    for d in traced:
        if isinstance(d, str) and d.startswith('EXC:'):
            ctx.fail('only-ImageFormatError', case, {'decision_trace': traced[:12], 'where': 'format'})
            return
    fmts = res['formats']
    if isinstance(fmts, str):
        if fmts != 'EXC:ImageFormatError':
            ctx.fail('only-ImageFormatError', case, {'formats': fmts, 'where': 'formats'})
            return
        fmts = None
    # --- formats vs signatures
    allowed_names = set(NAMES) if not allowed else set(allowed)
    if fmts is not None:
        names = set(fmts)
        ctx.clause('raw-exclusive')
        if 'raw' in names and (len(names) > 1 or not raw_ok):
            ctx.fail('raw-exclusive', case, {'formats': sorted(names)})
        if not names <= allowed_names:
            ctx.fail('allowed_formats-respected', case, {'formats': sorted(names), 'allowed': allowed})
        nonraw = names - {'raw'}
        ctx.clause('formats-equal-signatures')
        ok_sets = [S]
        if f1 and has_createtype(content):
            ok_sets.append(S | {'vmdk'})
        if (not cuts and not case.get('empties') and not case.get('short_reads') and 'vmdk' in allowed_names and
                text_descriptor_in_one_read(content)):
            ctx.clause('text-descriptor-in-one-read-is-vmdk')
            ok_sets = [S | {'vmdk'}]
        if nonraw not in ok_sets:
            ctx.fail('formats-equal-signatures', case,
                     {'formats': sorted(names), 'signatures': sorted(S), 'f1_textlike': f1, 'len': len(content)})
        elif not nonraw and raw_ok and names != {'raw'}:
            ctx.fail('raw-fallback', case, {'formats': sorted(names)})
        exp_dec = decision_for(nonraw, raw_ok)
    else:
        exp_dec = 'IFE'
        if S or raw_ok:
            ctx.fail('formats-raised', case, {'signatures': sorted(S), 'raw_ok': raw_ok})
    ctx.clause('format-decision')
    if res['final'] != exp_dec:
        ctx.fail('format-decision', case, {'final': res['final'], 'want': exp_dec, 'formats': fmts})
    # --- no revision (offline trace checker)
    ctx.clause('no-revision')
    seq = []
    for d in traced:
        if not seq or seq[-1] != d:
            seq.append(d)
    if len(seq) > 2 or (len(seq) == 2 and seq[0] is not None) or seq[-1] != res['final']:
        ctx.fail('no-revision', case, {'decision_changes': seq, 'reads': len(traced)})
    ctx.h('decision', str(res['final']))
    # --- the list handed out by .formats belongs to the caller: emptying / editing it changes no later answer
    try:
        handed = w.formats
    except F.ImageFormatError:
        handed = None
    if isinstance(handed, list):
        ctx.clause('formats-result-owned-by-caller')
        before = sorted(str(x) for x in handed)
        if handed:
            handed.pop()
        handed.append('edited-by-caller')
        d2 = sl._decision(w)            # .format first: it must not be looking at the caller's list
        again = sl._q(lambda: sorted(str(x) for x in w.formats))
        if again != before or d2 != res['final']:
            ctx.fail('formats-result-owned-by-caller', case,
                     {'formats_before': before, 'formats_after_caller_edit': again, 'decision_before': res['final'],
                      'decision_after': d2})


def eval_detect(ctx, case):
    F = sl.fi()
    content = build_content(case)
    S, raw_ok, f1 = expected(content, None)
    d = os.path.join(os.environ.get('VERIF_SCRATCH', '/dev/shm'), 'c03-%d' % ctx.shard)
    os.makedirs(d, exist_ok=True)
    path = os.path.join(d, 'img')
    if os.path.lexists(path):
        os.unlink(path)             # (the previous case may have left a named pipe here)
    with open(path, 'wb') as f:
        f.write(content)
    feeder = None
    if case.get('fifo'):
        # the file name denotes a named pipe (a producer writes the image into it): read once, front to back
        import threading
        os.unlink(path)
        os.mkfifo(path)
        ctx.clause('detect_file_format-on-a-pipe')

        def feed():
            try:
                with open(path, 'wb') as w:
                    w.write(content)
            except OSError:
                pass
        feeder = threading.Thread(target=feed, daemon=True)
        feeder.start()
    # the file name is handed over as a str, or as the other things open() takes for a name: a pathlib.Path, another
    # os.PathLike, bytes, a str subclass, a path relative to the working directory
    import zlib
    how = ('str', 'pathlib', 'str', 'pathlike', 'bytes', 'str-subclass', 'str', 'relative')[zlib.crc32(content[:64] + bytes([len(content) % 251])) % 8]
    name_arg, old_cwd = path, None
    if how == 'pathlib':
        import pathlib
        name_arg = pathlib.Path(path)
    elif how == 'pathlike':
        class _P:
            def __init__(self, p):
                self.p = p

            def __fspath__(self):
                return self.p
        name_arg = _P(path)
    elif how == 'bytes':
        name_arg = os.fsencode(path)
    elif how == 'str-subclass':
        name_arg = type('PathStr', (str,), {})(path)
    elif how == 'relative':
        old_cwd = os.getcwd()
        os.chdir(d)
        name_arg = 'img'
    ctx.h('detect_file_format file name given as', how)
    before = len(os.listdir('/proc/self/fd'))
    try:
        try:
            r = F.detect_file_format(name_arg)
        finally:
            if old_cwd is not None:
                os.chdir(old_cwd)
        got = str(r) if r is not None else None
    except F.ImageFormatError:
        got = 'IFE'
    except BaseException as e:  # noqa
        got = 'EXC:' + type(e).__name__
    if feeder is not None:
        feeder.join(timeout=5)
        if feeder.is_alive():
            # nobody read the pipe to the end (detection stops early): open it ourselves so that the writer can finish
            try:
                fd = os.open(path, os.O_RDONLY | os.O_NONBLOCK)
                while os.read(fd, 1 << 16):
                    pass
                os.close(fd)
            except OSError:
                pass
            feeder.join(timeout=5)
    after = len(os.listdir('/proc/self/fd'))
    ctx.case(('detect', content, bool(case.get('fifo'))), nontrivial=bool(S))
    ctx.clause('detect_file_format')
    ctx.clause('fd-balance')
    if after != before:
        ctx.fail('fd-balance', case, {'before': before, 'after': after})
    oks = [decision_for(S, True)]
    if f1 and has_createtype(content):
        oks.append(decision_for(S | {'vmdk'}, True))
    if got not in oks:
        ctx.fail('detect_file_format', case, {'got': got, 'want': oks, 'signatures': sorted(S)})


def eval_expected(ctx, case):
    """allowed_formats together with expected_format (inside or outside the allowed set): whatever else happens - the
    expected-format cut-off may end the read early with ImageFormatError - nothing outside allowed_formats is ever named
    and nothing but ImageFormatError comes out."""
    F = sl.fi()
    content = build_content(case)
    allowed, expected = case['allowed'], case['expected']
    ctx.case(('expected', content, tuple(allowed), expected, tuple(case['cuts'])), nontrivial=bool(ig.sigs(content)))
    try:
        res = sl.feed_wrapper(content, case['cuts'], allowed=allowed, expected=expected, monitor=False)
    except BaseException as e:  # noqa  (constructor refused the combination)
        ctx.clause('allowed-respected-with-expected_format')
        if not isinstance(e, (F.ImageFormatError, ValueError)):
            ctx.fail('only-ImageFormatError', case, {'where': 'constructor', 'exc': e})
        return
    ctx.clause('allowed-respected-with-expected_format')
    ctx.h('expected inside allowed', str(expected in allowed))
    if res['exc'] is not None and not isinstance(res['exc'], F.ImageFormatError):
        ctx.fail('only-ImageFormatError', case, {'where': 'read', 'exc': res['exc']})
    named = set()
    for d in res['decisions'] + [res['final']]:
        if isinstance(d, str) and d.startswith('EXC:'):
            ctx.fail('only-ImageFormatError', case, {'where': 'format', 'decision': d})
        elif d not in (None, 'IFE'):
            named.add(d)
    if isinstance(res['formats'], list):
        named |= set(res['formats'])
    elif res['formats'] != 'EXC:ImageFormatError':
        ctx.fail('only-ImageFormatError', case, {'where': 'formats', 'formats': res['formats']})
    if res['exc'] is None and expected in allowed:
        # nothing was cut off: naming the expected format must not change what is detected (a second signature further
        # down the stream still makes the content ambiguous)
        plain = sl.feed_wrapper(content, case['cuts'], allowed=allowed, monitor=False)
        ctx.clause('expected_format-does-not-change-the-decision')
        if plain['exc'] is None and (plain['final'] != res['final'] or plain['formats'] != res['formats']):
            ctx.fail('expected_format-does-not-change-the-decision', case,
                     {'with_expected': [res['final'], res['formats']], 'without': [plain['final'], plain['formats']],
                      'expected': expected})
    considered = {i.NAME for i in res['wrapper']._inspectors}
    if not named <= set(allowed) or not considered <= set(allowed):
        ctx.fail('allowed-respected-with-expected_format', case,
                 {'named': sorted(named), 'inspectors_created': sorted(considered), 'allowed': allowed,
                  'expected': expected})


def eval_interleaved(ctx, case):
    """Two wrappers alive at once, read alternately; each one's decision is the decision of its own content, and a
    decision already handed out by the first is the same when asked again after the second has been read and closed."""
    F = sl.fi()
    ca, cb = build_content(case['a']), build_content(case['b'])
    size = case['size']
    solo = []
    for c in (ca, cb):
        r = sl.feed_wrapper(c, sl.fixed(len(c), size), monitor=False)
        solo.append((r['final'], r['formats']))
    import io
    wa, wb = F.InspectWrapper(io.BytesIO(ca)), F.InspectWrapper(io.BytesIO(cb))
    early_a = None
    for k in range(max(len(ca), len(cb)) // size + 2):
        wa.read(size)
        if k == case.get('ask_after', 2):
            early_a = sl._decision(wa)
        wb.read(size)
    wa.close()
    da1 = (sl._decision(wa), sl._q(lambda: sorted(str(x) for x in wa.formats)))
    wb.close()
    db = (sl._decision(wb), sl._q(lambda: sorted(str(x) for x in wb.formats)))
    da2 = (sl._decision(wa), sl._q(lambda: sorted(str(x) for x in wa.formats)))
    ctx.case(('interleaved', ca, cb, size), nontrivial=bool(ig.sigs(ca) | ig.sigs(cb)))
    ctx.clause('interleaved-wrappers')
    if da1 != solo[0] or da2 != solo[0] or db != solo[1] or (early_a is not None and early_a != solo[0][0]):
        ctx.fail('interleaved-wrappers', case, {'alone': solo, 'a_after_close': da1, 'a_asked_again': da2, 'b': db,
                                                'a_early': early_a})


def _evaluate_no_debug(ctx, case):
    from vlib import envmodes
    if envmodes.lazy_for(case, share=4):
        # the caller runs with warnings turned into errors (python -W error): still nothing but ImageFormatError
        ctx.clause('under-warnings-as-errors')
        with envmodes.warnings_as_errors():
            return _evaluate(ctx, case)
    return _evaluate(ctx, case)


def _evaluate(ctx, case):
    if case.get('kind') == 'detect':
        eval_detect(ctx, case)
    elif case.get('kind') == 'interleaved':
        eval_interleaved(ctx, case)
    elif case.get('kind') == 'expected':
        eval_expected(ctx, case)
    else:
        eval_case(ctx, case)


def allowed_pool(rng):
    k = rng.randrange(6)
    if k <= 1:
        return None
    if k == 2:
        return [rng.choice(NAMES)]
    if k == 3:
        return [n for n in NAMES if n != 'raw']
    if k == 4:
        return sorted(rng.sample(NAMES, rng.randrange(2, 6)))
    return sorted(set(rng.sample(NAMES, 3)) | {'raw'})


def cuts_for(rng, L):
    size = rng.choice(READ_SIZES + ([1] if L <= 700 else []))
    if rng.random() < 0.25 and L > 2:
        return sorted(rng.sample(range(1, L), min(L - 1, rng.randrange(1, 6))))
    if L // max(size, 1) > 20000:
        size = 4096
    return sl.fixed(L, size)


def run(ctx):
    idx = 0

    vrng = ctx.rng('variants')

    def emit(case, klass):
        nonlocal idx
        idx += 1
        v = vrng.random()
        if 'kind' not in case and case.get('cuts') is not None and len(case['cuts']) < 3000:
            nch = len(case['cuts']) + 1
            if v < 0.2:       # zero-length reads: a probe before the first read, or somewhere in the middle
                case = dict(case, empties=sorted({0 if vrng.random() < 0.5 else vrng.randrange(nch), vrng.randrange(nch)}))
            elif v < 0.3:     # a source that returns short reads although 64 KiB were asked for
                case = dict(case, short_reads=True)
            elif v < 0.45:    # a source that refills and hands out one and the same buffer object for every read
                case = dict(case, carrier='bytearray' if v < 0.4 else 'memoryview')
        if ctx.mine(idx):
            ctx.sample(klass, case)
            evaluate(ctx, case)

    # directed: D2 witness (700 bytes of ASCII with byte 600 = 0xFF, one read) and D1 witness (VHDX, 1 MiB reads)
    emit({'spec': {'gen': 'raw', 'params': {'kind': 'text-late-nonascii', 'total': 700, 'pos': 600, 'byte': 255}},
          'allowed': None, 'cuts': []}, 'directed')
    emit({'spec': {'gen': 'vhdx', 'params': {'meta_off': 2 * 1024 * 1024, 'item_off': 0x10000, 'tail': 100000}},
          'allowed': None, 'cuts': sl.fixed(2 * 1024 * 1024 + 0x10000 + 100008, 1 << 20)}, 'directed')
    rng = ctx.rng('overlay')
    # all 2^9 signature subsets x FAT x backgrounds (exhaustive over subsets), lengths/allowed/read sizes sampled
    reps = ctx.pick(1, 50)
    for mask in range(1 << 9):
        sigset = [SIGNAMES[i] for i in range(9) if mask >> i & 1]
        for bg in ('zero', 'random', 'text'):
            for fat in (False, True):
                if fat and 'gpt' not in sigset and rng.random() < 0.7:
                    continue
                for rep in range(reps):
                    L = rng.choice(LENGTHS if rng.random() < 0.8 else [rng.randrange(0, 70000)])
                    case = {'length': L, 'bg': bg, 'seed': rng.getrandbits(16), 'sigs': sigset + (['fat'] if fat else []),
                            'allowed': allowed_pool(rng), 'cuts': None}
                    case['cuts'] = cuts_for(rng, L)
                    emit(case, 'overlay/%s' % bg)
    ctx.exhaustive['2^9 signature subsets x 3 backgrounds (lengths, allowed sets, read sizes sampled)'] = True
    # decision-point sweep for single signatures: every length in LENGTHS x every read size class
    for nm in SIGNAMES:
        for L in LENGTHS:
            for size in ([1 << 22, 4096, 512, 17] if ctx.quick else READ_SIZES):
                if L // size > 20000:
                    continue
                emit({'length': L, 'bg': rng.choice(['zero', 'random', 'text']), 'seed': rng.getrandbits(16),
                      'sigs': [nm], 'allowed': allowed_pool(rng), 'cuts': sl.fixed(L, size)}, 'decision-point/%s' % nm)
    # valid / mutated images and unstructured files
    rng2 = ctx.rng('images')
    for i in range(ctx.pick(500, 60000)):
        k = rng2.random()
        if k < 0.25:
            spec = ic.unstructured(rng2)
        else:
            spec = ic.wellformed(rng2, rng2.choice(ic.FORMATS + ['raw']))
            if k > 0.7:
                data, truth = ig.build(spec)
                spec = ic.mutated(rng2, spec, len(data), truth)
        data, _t = ig.build(spec)
        emit({'spec': spec, 'allowed': allowed_pool(rng2), 'cuts': cuts_for(rng2, len(data))}, 'image/%s' % spec['gen'])
    # text files with a late non-ASCII byte around every decision length
    for L in [65, 100, 512, 513, 600, 700, 5000]:
        for pos in [0, 3, 4, 63, 64, 65, 511, 512, 513, 599, L - 1]:
            if pos >= L:
                continue
            for byte in (0xff, 0x80, 0x00):
                for size in (1 << 22, 4096, 512, 64, 17):
                    emit({'spec': {'gen': 'raw', 'params': {'kind': 'text-late-nonascii', 'total': L, 'pos': pos, 'byte': byte}},
                          'allowed': rng2.choice([None, None, ['vmdk', 'raw'], ['vmdk']]), 'cuts': sl.fixed(L, size)},
                         'text-late-nonascii')
    # text VMDK descriptors whose createType line comes late: restricted allowed sets decide early, small reads, the
    # decision is sampled after every read (no-revision on the text-descriptor path)
    rng4 = ctx.rng('textdesc')
    for i in range(ctx.pick(300, 30000)):
        nfill = rng4.choice([0, 1, 2, 4, 8, 20])
        extra = [['# ' + 'x' * rng4.randrange(5, 90), True] for _ in range(nfill)]
        head = ['# Disk DescriptorFile'] + ['# filler %d %s' % (j, 'y' * rng4.randrange(0, 70)) for j in range(rng4.choice([0, 1, 3, 9, 25]))]
        if rng4.random() < 0.3:
            head.insert(rng4.randrange(len(head) + 1), '# odd blank%s here' % chr(rng4.choice([0x1c, 0x1d, 0x1e, 0x1f, 0x0b, 0x0c])))
        spec = {'gen': 'vmdk_text', 'params': {'ctype': rng4.choice(['monolithicSparse', 'streamOptimized', 'vmfs']),
                                               'head': head, 'extra': extra, 'total': rng4.choice([None, None, 3000, 9000])}}
        data, _t = ig.build(spec)
        allowed = rng4.choice([['vmdk', 'raw'], ['vmdk', 'raw'], ['vmdk'], ['vmdk', 'raw', 'qcow2', 'gpt'], ['vmdk', 'luks', 'raw'], None])
        size = rng4.choice([1, 7, 17, 64, 100, 192, 512, 600, 4096, 1 << 22, 1 << 22, 1 << 22])
        if len(data) // size > 20000:
            size = 17
        emit({'spec': spec, 'allowed': allowed, 'cuts': sl.fixed(len(data), size)}, 'text-descriptor')
    # polyglots built from VALID images (real structures behind the first signature) + further signatures overlaid,
    # in particular MBR tables with real partition entries under an ISO descriptor ("isohybrid" look-alikes)
    rng5 = ctx.rng('valid-polyglots')
    for i in range(ctx.pick(400, 12000)):
        base = rng5.choice(ic.FORMATS)
        spec = ic.wellformed(rng5, base)
        if base in ('mbr', 'gpt') or rng5.random() < 0.3:
            lba = rng5.choice([0, 0, 1, 63, 64, 2048])
            spec = {'gen': 'mbr', 'params': {'total': 4096, 'ptes': [
                [rng5.choice([0x80, 0x80, 0x00]), rng5.getrandbits(8), rng5.getrandbits(8), rng5.getrandbits(8),
                 rng5.choice([0x83, 0x17, 0x0c, 0xcd, 0xee, 0x00]), rng5.getrandbits(8), rng5.getrandbits(8),
                 rng5.getrandbits(8), lba, rng5.getrandbits(24)]] + [[0] * 10] * 3}}
        if rng5.random() < 0.3:
            # structurally complete but hostile first image (lengths / counts / signatures of inner structures off)
            spec = ic.vhdx_corrupt(rng5) if rng5.random() < 0.6 else spec
            if spec['gen'] != 'vhdx':
                d0, t0 = ig.build(spec)
                spec = ic.mutated(rng5, spec, len(d0), t0)
        data, _t = ig.build(spec)
        mut = list(spec.get('mut', []))
        if len(data) < 34816 + 64:
            mut.append(['extend', 34816 + 64 - len(data) + rng5.choice([0, 1, 5000]), rng5.choice([0, 0x41])])
        others = [n for n in ('iso', 'vdi', 'gpt', 'qcow2', 'vhd', 'luks', 'qed', 'vmdk', 'vhdx')]
        k = rng5.choice([1, 1, 2])
        picks = rng5.sample(others, k)
        if 'iso' not in picks and rng5.random() < 0.5:
            picks[0] = 'iso'
        mut += [['sig', n] for n in picks]
        spec = dict(spec, mut=mut)
        data, _t = ig.build(spec)
        emit({'spec': spec, 'allowed': allowed_pool(rng5) if rng5.random() < 0.4 else None,
              'cuts': cuts_for(rng5, len(data))}, 'valid-image-polyglot')
    # sparse VMDK headers announcing a footer (grain directory "at end") on streams of every short length: what the
    # end-of-stream handling does with a footer that is not there, through close() and detect_file_format
    rng8 = ctx.rng('short-footer-vmdk')
    for L in [64, 65, 76, 77, 100, 200, 511, 512, 513, 574, 575, 576, 577, 600, 1024, 1535, 1536, 1537, 1599, 1600, 2047, 2048, 2100, 4096]:
        for ver in (1, 2, 3, 0, 4):
            for dn in (1, 2, 0):
                spec = {'gen': 'vmdk', 'params': {'footer': True, 'ver': ver, 'desc_num': dn, 'min_total': 0, 'total': L}}
                emit({'spec': spec, 'allowed': rng8.choice([None, None, ['vmdk', 'raw'], ['vmdk']]),
                      'cuts': cuts_for(rng8, L)}, 'short-footer-vmdk')
                if ver == 1 and dn == 1:
                    emit({'kind': 'detect', 'spec': spec}, 'short-footer-vmdk')
    # allowed_formats x expected_format
    rng7 = ctx.rng('expected')
    for i in range(ctx.pick(600, 30000)):
        allowed = sorted(rng7.sample(NAMES, rng7.randrange(1, 5)))
        expected = rng7.choice(NAMES) if rng7.random() < 0.7 else rng7.choice(allowed)
        if rng7.random() < 0.5:
            c = {'spec': ic.wellformed(rng7, rng7.choice([expected if expected in ic.FORMATS else 'qcow2', rng7.choice(ic.FORMATS)]))}
            L = len(ig.build(c['spec'])[0])
        else:
            L = rng7.choice([512, 600, 4096, 40000])
            c = {'length': L, 'bg': rng7.choice(['zero', 'random', 'text']), 'seed': rng7.getrandbits(16),
                 'sigs': [expected] if expected in SIGNAMES and rng7.random() < 0.7 else [rng7.choice(SIGNAMES)]}
        emit(dict(c, kind='expected', allowed=allowed, expected=expected, cuts=cuts_for(rng7, L)), 'allowed-x-expected')
        if i % 3 == 0:
            # the expected format's signature first, another one further down (past the chunk that completes the header)
            first = rng7.choice([n for n in SIGNAMES if n not in ('iso', 'vhdx')])
            second = rng7.choice(['iso', 'iso', 'gpt', 'vdi'] if first not in ('gpt', 'vdi') else ['iso'])
            Lp = rng7.choice([34816 + 64, 40000, 70000])
            emit(dict(kind='expected', length=Lp, bg=rng7.choice(['zero', 'random']), seed=rng7.getrandbits(16),
                      sigs=[first, second], allowed=sorted(set(NAMES)), expected=first,
                      cuts=sl.fixed(Lp, rng7.choice([512, 4096, 1024, 100]))), 'expected-polyglot')
    # two wrappers alive at the same time
    rng6 = ctx.rng('interleaved')
    for i in range(ctx.pick(150, 5000)):
        def one():
            if rng6.random() < 0.5:
                return {'spec': ic.wellformed(rng6, rng6.choice(ic.FORMATS + ['raw']))}
            mask = rng6.getrandbits(9) & rng6.getrandbits(9)
            return {'length': rng6.choice([512, 600, 4096, 40000]), 'bg': rng6.choice(['zero', 'random', 'text']),
                    'seed': rng6.getrandbits(16), 'sigs': [SIGNAMES[j] for j in range(9) if mask >> j & 1]}
        a, b = one(), one()
        if rng6.random() < 0.3:
            b = dict(a, seed=rng6.getrandbits(16)) if 'length' in a else {'spec': ic.wellformed(rng6, a['spec']['gen'])}
        emit({'kind': 'interleaved', 'a': a, 'b': b, 'size': rng6.choice([512, 4096, 65536, 100]),
              'ask_after': rng6.choice([0, 1, 2, 8])}, 'interleaved')
    # detect_file_format on disk
    rng3 = ctx.rng('detect')
    for i in range(ctx.pick(400, 30000)):
        k = rng3.random()
        if k < 0.5:
            mask = rng3.getrandbits(9) & rng3.getrandbits(9)
            case = {'kind': 'detect', 'length': rng3.choice(LENGTHS), 'bg': rng3.choice(['zero', 'random', 'text']),
                    'seed': rng3.getrandbits(16), 'sigs': [SIGNAMES[j] for j in range(9) if mask >> j & 1]}
        elif k < 0.6:
            case = {'kind': 'detect', 'spec': ic.unstructured(rng3)}
        else:
            case = {'kind': 'detect', 'spec': ic.wellformed(rng3, rng3.choice(ic.FORMATS + ['raw']))}
        if i % 4 == 1:
            case = dict(case, fifo=True)
        emit(case, 'detect')


def _debug_ok(case):
    return True


# a third of the cases runs with the library's loggers at DEBUG and a handler that renders every record (debug=True in a
# service's configuration); what the inspectors conclude may not depend on it
from vlib import envmodes as _envmodes_dbg  # noqa: E402
evaluate = _envmodes_dbg.with_modes(_evaluate_no_debug, debug=_debug_ok)
