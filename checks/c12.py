"""C12 time normalisation, overridden-clock comparison and marshalling are exact.

Reference-model monitor with an integer-microsecond oracle: a wall-clock
reading is   ordinal(date) * 86400 * 10^6 + time-of-day in microseconds,
the UTC instant of an aware value is that number minus its utc offset in
microseconds.  Expected values are built from these integers (date.toordinal /
date.fromordinal and divmod only) - never by datetime subtraction and never by
astimezone.  For the comparison clauses the *argument* t is generated first
(any form), its UTC instant is computed by the oracle and the overridden clock
is derived from it:  now = t +/- (s + delta)  with delta in {-1us, 0, +1us, far}.
"""
import calendar
import datetime as dt
import math
from fractions import Fraction

PROPERTY = 'C12'
LEVEL = 'exploration'
ANCHORS = [('oslo_utils.timeutils', 'parse_isotime'),
           ('oslo_utils.timeutils', 'normalize_time'),
           ('oslo_utils.timeutils', 'is_older_than'),
           ('oslo_utils.timeutils', 'is_newer_than'),
           ('oslo_utils.timeutils', 'is_soon'),
           ('oslo_utils.timeutils', 'utcnow'),
           ('oslo_utils.timeutils', 'utcnow_ts'),
           ('oslo_utils.timeutils', 'set_time_override'),
           ('oslo_utils.timeutils', 'advance_time_delta'),
           ('oslo_utils.timeutils', 'advance_time_seconds'),
           ('oslo_utils.timeutils', 'clear_time_override'),
           ('oslo_utils.timeutils', 'marshall_now'),
           ('oslo_utils.timeutils', 'unmarshall_time'),
           ('oslo_utils.fixture', 'TimeFixture.setUp'),
           ('oslo_utils.fixture', 'TimeFixture.advance_time_delta'),
           ('oslo_utils.fixture', 'TimeFixture.advance_time_seconds')]
RULE = ('directed corpus (every whole-minute offset -23:59..+23:59, sub-minute offsets, hard-coded zone table, '
        'DST transitions found by scanning tzdata with both folds, datetime.min/max edges, leap-second dicts) then '
        'seeded generation: wall-clock fields x tz spec (naive / UTC implementations / fixed offset / named zone+fold) '
        'x argument form (datetime / ISO string / ISO string with Z) x seconds (int, dyadic float, negative, large) x '
        'delta in {-1us, 0, +1us, far} x function x way of overriding (set_time_override / TimeFixture / with '
        'TimeFixture). One monitored execution = one call of a function under test with its oracle; distinct by '
        '(kind, fields, tz spec, form, seconds, delta, function, via); all are non-trivial except normalize_time/'
        'parse_isotime/marshalling of a naive value with zero microseconds')
REQUIRED_CLAUSES = ['comparison-with-huge-seconds', 'under-warnings-as-errors', 'override-utcnow-with_timezone', 'process-timezone-not-utc', 'comparison-keyword-call', 'normalize-naive-unchanged', 'normalize-aware-exact', 'normalize-unrepresentable',
                    'normalize-range-edge-representable',
                    'parse-isotime-inverts-isoformat', 'marshall-roundtrip', 'marshall-now-under-override',
                    'leap-second-capped', 'override-utcnow', 'override-utcnow_ts',
                    'override-utcnow_ts-microsecond', 'advance-exact',
                    'is_older_than-boundary', 'is_newer_than-boundary', 'is_soon-boundary',
                    'override-cleared']
ASSUMPTIONS = ['expected values come from integer microsecond arithmetic on date.toordinal()/fromordinal() and '
               'the generator components; the offset of a fixed-offset zone is the generator constant',
               'the offset of a named zone is read from the standard library zoneinfo (tzdata) for the same wall '
               'clock reading and fold; a hard-coded table of 2021 offsets cross-checks it',
               'a naive datetime and an ISO string without offset denote UTC (the library convention)',
               'second counts are integers or floats that are exact multiples of 1/64 s, so that the boundary is '
               'exactly representable; advance_time_seconds also gets decimal floats whose nearest microsecond is '
               'unambiguous (distance < 0.001 us)',
               'utcnow_ts(microsecond=True) is compared within max(1e-6, 2 ulp) because a double cannot hold '
               'microseconds beyond year ~2242; utcnow_ts() before 1970 with non-zero microseconds must floor (not '
               'truncate (DONT-CARE)',
               'cases where now, t or now+w would leave datetime.min..max are not generated (DONT-CARE), except '
               'for normalize_time where OverflowError is demanded exactly when the UTC instant is unrepresentable']
INTERPRETER_FLAGS = [[], ['-O'], ['-X', 'dev'], ['-bb']]
SHARDS = {'quick': 4, 'thorough': 16}

US = 10 ** 6
US_MIN = 60 * US
US_DAY = 86400 * US
MIN_US = dt.date.min.toordinal() * US_DAY
MAX_US = dt.date.max.toordinal() * US_DAY + US_DAY - 1
EPOCH_US = dt.date(1970, 1, 1).toordinal() * US_DAY

ZONES = ['UTC', 'Asia/Kolkata', 'Asia/Kathmandu', 'Europe/Berlin', 'Europe/London', 'Europe/Dublin',
         'America/New_York', 'America/St_Johns', 'America/Sao_Paulo', 'America/Caracas',
         'Australia/Lord_Howe', 'Australia/Adelaide', 'Pacific/Chatham', 'Pacific/Apia',
         'Pacific/Kiritimati', 'Pacific/Marquesas', 'Africa/Monrovia', 'Europe/Amsterdam',
         'Asia/Tehran', 'Antarctica/Troll', 'Etc/GMT+12', 'Etc/GMT-14']
# (zone, wall fields, fold, offset in minutes) - written down from the tz database, not computed
ZONE_TABLE = [
    ('Asia/Kolkata', [2021, 7, 1, 12, 0, 0, 1], 0, 330),
    ('Asia/Kathmandu', [2021, 1, 1, 0, 0, 0, 999999], 0, 345),
    ('Europe/Berlin', [2021, 7, 1, 0, 30, 0, 0], 0, 120),
    ('Europe/Berlin', [2021, 1, 1, 0, 30, 0, 0], 0, 60),
    ('Europe/Berlin', [2021, 10, 31, 2, 30, 0, 5], 0, 120),
    ('Europe/Berlin', [2021, 10, 31, 2, 30, 0, 5], 1, 60),
    ('America/New_York', [2021, 11, 7, 1, 30, 0, 0], 0, -240),
    ('America/New_York', [2021, 11, 7, 1, 30, 0, 0], 1, -300),
    ('America/New_York', [2021, 12, 31, 23, 59, 59, 999999], 0, -300),
    ('America/St_Johns', [2021, 7, 1, 0, 0, 0, 0], 0, -150),
    ('America/St_Johns', [2021, 1, 1, 0, 0, 0, 0], 0, -210),
    ('Australia/Lord_Howe', [2021, 1, 15, 12, 0, 0, 0], 0, 660),
    ('Australia/Lord_Howe', [2021, 7, 15, 12, 0, 0, 0], 0, 630),
    ('Australia/Lord_Howe', [2021, 4, 4, 1, 45, 0, 0], 0, 660),
    ('Australia/Lord_Howe', [2021, 4, 4, 1, 45, 0, 0], 1, 630),
    ('Pacific/Chatham', [2021, 1, 15, 12, 0, 0, 0], 0, 825),
    ('Pacific/Chatham', [2021, 7, 15, 12, 0, 0, 0], 0, 765),
    ('Pacific/Kiritimati', [2021, 1, 1, 0, 0, 0, 0], 0, 840),
    ('Pacific/Marquesas', [2021, 3, 1, 0, 0, 0, 0], 0, -570),
    ('Europe/Dublin', [2021, 1, 1, 0, 0, 0, 0], 0, 0),
    ('Europe/Dublin', [2021, 7, 1, 0, 0, 0, 0], 0, 60),
    ('Etc/GMT+12', [2021, 2, 28, 23, 59, 59, 999999], 0, -720),
    ('Etc/GMT-14', [2020, 2, 29, 0, 0, 0, 0], 0, 840),
    ('UTC', [2016, 12, 31, 23, 59, 59, 999999], 0, 0),
]
_zone_cache = {}


# ----------------------------------------------------------------------
# oracle: integer microseconds
# ----------------------------------------------------------------------
def wall_us(f):
    y, mo, d, h, mi, s, us = f
    return dt.date(y, mo, d).toordinal() * US_DAY + ((h * 60 + mi) * 60 + s) * US + us


def from_us(n):
    """fields of the wall clock reading n, or None when outside datetime.min..max"""
    if n < MIN_US or n > MAX_US:
        return None
    ordinal, rem = divmod(n, US_DAY)
    d = dt.date.fromordinal(ordinal)
    h, rem = divmod(rem, 3600 * US)
    mi, rem = divmod(rem, 60 * US)
    s, us = divmod(rem, US)
    return [d.year, d.month, d.day, h, mi, s, us]


def fields_of(d):
    return [d.year, d.month, d.day, d.hour, d.minute, d.second, d.microsecond]


def td_us(td):
    return td.days * US_DAY + td.seconds * US + td.microseconds


def exact_us(seconds):
    """microseconds of a second count that must be exactly on the grid"""
    q = Fraction(seconds) * US
    if q.denominator != 1:
        raise ValueError('harness: seconds %r not on the microsecond grid' % (seconds,))
    return q.numerator


def nearest_us(seconds):
    q = Fraction(seconds) * US
    n = round(q)
    if abs(q - n) > Fraction(1, 1000):
        raise ValueError('harness: seconds %r ambiguous at microsecond resolution' % (seconds,))
    return n


def zone(name):
    if name not in _zone_cache:
        try:
            import zoneinfo
            _zone_cache[name] = zoneinfo.ZoneInfo(name)
        except Exception:  # noqa
            _zone_cache[name] = None
    return _zone_cache[name]


def make_tz(spec):
    if spec is None:
        return None
    k = spec['k']
    if k == 'fixed':
        return dt.timezone(dt.timedelta(microseconds=spec['us']))
    if k == 'utc':
        impl = spec.get('impl', 'stdlib')
        if impl == 'iso8601':
            import iso8601
            return iso8601.iso8601.UTC
        if impl == 'zoneinfo':
            return zone('UTC') or dt.timezone.utc
        if impl == 'fixed0':
            return dt.timezone(dt.timedelta(0))
        return dt.timezone.utc
    if k == 'zone':
        z = zone(spec['name'])
        if z is None:
            raise LookupError(spec['name'])
        return z
    raise ValueError(spec)


def build(fields, spec):
    tz = make_tz(spec)
    fold = spec.get('fold', 0) if spec else 0
    y, mo, d, h, mi, s, us = fields
    return dt.datetime(y, mo, d, h, mi, s, us, tzinfo=tz, fold=fold)


def spec_offset_us(spec, t):
    """expected utc offset of the built value t: generator constant for fixed
    offsets and UTC, tzdata for named zones; None for naive"""
    if spec is None:
        return None
    if spec['k'] == 'fixed':
        return spec['us']
    if spec['k'] == 'utc':
        return 0
    return td_us(t.utcoffset())


def off_class(spec, off):
    if spec is None:
        return 'naive'
    if spec['k'] == 'utc':
        return 'utc/' + spec.get('impl', 'stdlib')
    if spec['k'] == 'zone':
        return 'zone/%s%s' % (spec['name'], '/fold1' if spec.get('fold') else '')
    sign = '+' if off > 0 else '-'
    a = abs(off)
    if a == 0:
        return 'fixed/zero'
    if a % US_MIN:
        return 'fixed/%ssub-minute' % sign
    m = a // US_MIN
    if m == 1:
        return 'fixed/%s00:01' % sign
    if m == 1439:
        return 'fixed/%s23:59' % sign
    if m % 60 == 0:
        return 'fixed/%swhole-hour' % sign
    if m % 30 == 0:
        return 'fixed/%shalf-hour' % sign
    if m % 15 == 0:
        return 'fixed/%squarter-hour' % sign
    return 'fixed/%sodd-minute' % sign


def arg_class(spec, form):
    if form != 'dt':
        return form + ('/naive' if spec is None else '/aware')
    if spec is None:
        return 'dt/naive'
    return {'fixed': 'dt/aware-fixed', 'utc': 'dt/aware-utc', 'zone': 'dt/aware-zone'}[spec['k']]


def _call(f, *a, **kw):
    try:
        return f(*a, **kw), None
    except BaseException as e:  # noqa
        return None, e


def _is_naive_dt(x):
    return isinstance(x, dt.datetime) and x.tzinfo is None


# ----------------------------------------------------------------------
# overriding the clock
# ----------------------------------------------------------------------
class Clock:
    """sets the override to `fields` via set_time_override / TimeFixture and
    verifies on stop that the override is gone"""

    def __init__(self, ctx, case, via, fields):
        from oslo_utils import timeutils
        self.ctx, self.case, self.via = ctx, case, via
        self.tu = timeutils
        self.now = dt.datetime(*fields)
        self.fx = None
        self.ok = False

    def start(self):
        tu = self.tu
        if tu.utcnow.override_time is not None:
            # a previous case leaked: report once, repair, go on
            self.ctx.fail('override-cleared', self.case,
                          {'note': 'override present before the case', 'value': tu.utcnow.override_time})
            tu.utcnow.override_time = None
        if self.via == 'override':
            _, exc = _call(tu.set_time_override, self.now)
        else:
            from oslo_utils import fixture
            self.fx, exc = _call(fixture.TimeFixture, self.now)
            if exc is None:
                _, exc = _call(self.fx.__enter__ if self.via == 'fixture-with' else self.fx.setUp)
        if exc is not None:
            self.ctx.fail('override-set-must-not-raise', self.case, {'via': self.via, 'exc': exc})
            tu.utcnow.override_time = None
            return False
        self.ok = True
        return True

    def advance(self, how, arg):
        # mixed API histories: with a fixture installed, every other step goes through the module-level functions
        self.nadv = getattr(self, 'nadv', 0) + 1
        use_module = self.via == 'override' or (self.case.get('mixed') and self.nadv % 2 == 1)
        target = self.tu if use_module else self.fx
        if how == 'delta':
            return _call(target.advance_time_delta, arg)
        return _call(target.advance_time_seconds, arg)

    def stop(self):
        tu = self.tu
        if not self.ok:
            return
        if self.via == 'override':
            _, exc = _call(tu.clear_time_override)
        elif self.via == 'fixture-with':
            _, exc = _call(self.fx.__exit__, None, None, None)
        else:
            _, exc = _call(self.fx.cleanUp)
        self.ctx.clause('override-cleared')
        if exc is not None or tu.utcnow.override_time is not None:
            self.ctx.fail('override-cleared', self.case,
                          {'via': self.via, 'exc': exc, 'left': tu.utcnow.override_time})
        tu.utcnow.override_time = None     # never let a case leak into the next one


# ----------------------------------------------------------------------
# monitors
# ----------------------------------------------------------------------
def eval_norm(ctx, case):
    from oslo_utils import timeutils as tu
    spec = case['tz']
    t = build(case['t'], spec)
    off = spec_offset_us(spec, t)
    if spec and spec['k'] == 'zone' and case.get('want_off_min') is not None:
        if off != case['want_off_min'] * US_MIN:
            ctx.note('tzdata disagrees with the hard-coded table for %s %s: skipped'
                     % (spec['name'], case['t']))
            return
    got, exc = _call(tu.normalize_time, t)
    ctx.case(('norm', case['t'], spec), nontrivial=(spec is not None or case['t'][6] != 0))
    ctx.h('offset class (normalize_time)', off_class(spec, off))
    if case.get('tag'):
        ctx.h('zone transition class', case['tag'])
    if spec is None:
        ctx.clause('normalize-naive-unchanged')
        if exc is not None or not _is_naive_dt(got) or fields_of(got) != case['t']:
            ctx.fail('normalize-naive-unchanged', case, {'got': got, 'exc': exc})
        return
    utc = wall_us(case['t']) - off
    want = from_us(utc)
    near_edge = utc - MIN_US < 2 * US_DAY or MAX_US - utc < 2 * US_DAY
    if want is None:
        ctx.clause('normalize-unrepresentable')
        # no datetime can be the answer: a returned value is wrong whatever it is
        if exc is None or not isinstance(exc, (OverflowError, ValueError)):
            ctx.fail('normalize-unrepresentable-instant', case, {'got': got, 'exc': exc})
        return
    ctx.clause('normalize-aware-exact')
    if near_edge:
        ctx.clause('normalize-range-edge-representable')
    if exc is not None:
        ctx.fail('normalize-aware-must-not-raise', case, {'exc': exc, 'want': want, 'offset_us': off})
    elif not isinstance(got, dt.datetime) or got.tzinfo is not None:
        ctx.fail('normalize-result-not-naive', case, {'got': got, 'want': want})
    elif fields_of(got) != want:
        ctx.fail('normalize-aware-exact', case, {'got': got, 'want': want, 'offset_us': off})


def eval_iso(ctx, case):
    from oslo_utils import timeutils as tu
    spec = case['tz']
    t = build(case['t'], spec)
    off = spec_offset_us(spec, t)
    if off is not None and off % US_MIN:
        raise ValueError('harness: iso case with sub-minute offset')
    text = t.isoformat()
    got, exc = _call(tu.parse_isotime, text)
    ctx.case(('iso', case['t'], spec), nontrivial=(spec is not None or case['t'][6] != 0))
    ctx.clause('parse-isotime-inverts-isoformat')
    ctx.h('offset class (parse_isotime)', off_class(spec, off))
    if exc is not None or not isinstance(got, dt.datetime):
        ctx.fail('parse-isotime-inverts-isoformat', case, {'text': text, 'got': got, 'exc': exc})
        return
    goff = got.utcoffset()
    goff = None if goff is None else td_us(goff)
    bad = fields_of(got) != case['t']
    if spec is None:
        # text without offset: same reading; naive or UTC (naive denotes UTC)
        bad = bad or goff not in (None, 0)
    else:
        bad = bad or goff != off
    if bad:
        ctx.fail('parse-isotime-inverts-isoformat', case,
                 {'text': text, 'got': got, 'got_offset_us': goff, 'want_offset_us': off})


def eval_marshal(ctx, case):
    from oslo_utils import timeutils as tu
    spec = case['tz']
    t = build(case['t'], spec)
    via = case.get('via')
    ctx.case(('marshal', case['t'], spec, via, case.get('leap')),
             nontrivial=(spec is not None or case['t'][6] != 0 or bool(case.get('leap')) or bool(via)))
    ctx.h('marshalling class', '%s%s%s' % (off_class(spec, 0), '/now-from-override' if via else '',
                                           '/leap' if case.get('leap') else ''))
    if via:
        clock = Clock(ctx, case, via, case['t'])
        if not clock.start():
            return
        m, exc = _call(tu.marshall_now)
        clock.stop()
        ctx.clause('marshall-now-under-override')
    else:
        m, exc = _call(tu.marshall_now, t)
    if exc is not None:
        ctx.fail('marshall-must-not-raise', case, {'exc': exc})
        return
    back, exc = _call(tu.unmarshall_time, m)
    ctx.clause('marshall-roundtrip')

    def same(got, want_fields):
        if not isinstance(got, dt.datetime) or fields_of(got) != want_fields:
            return False
        o = got.utcoffset()
        if spec is None:
            return got.tzinfo is None
        return o is not None and td_us(o) == 0
    if exc is not None or not same(back, case['t']):
        ctx.fail('marshall-roundtrip', case, {'marshalled': m, 'got': back, 'exc': exc})
        return
    if case.get('leap'):
        ctx.clause('leap-second-capped')
        try:
            m2 = dict(m)
            assert 'second' in m2
            m2['second'] = 60
        except BaseException as e:  # noqa
            ctx.fail('leap-second-capped', case, {'marshalled': m, 'exc': e})
            return
        want = list(case['t'])
        want[5] = 59
        back, exc = _call(tu.unmarshall_time, m2)
        if exc is not None or not same(back, want):
            ctx.fail('leap-second-capped', case, {'marshalled': m2, 'got': back, 'exc': exc, 'want': want})


def eval_leapdict(ctx, case):
    """a literal rpc dict with second=60 (not produced by marshall_now)"""
    from oslo_utils import timeutils as tu
    m = dict(case['dict'])
    back, exc = _call(tu.unmarshall_time, m)
    ctx.case(('leapdict', sorted(m.items())))
    ctx.clause('leap-second-capped')
    ctx.h('marshalling class', 'literal-dict/leap' + ('/UTC' if m.get('tzname') else ''))
    want = [m['year'], m['month'], m['day'], m['hour'], m['minute'], 59, m['microsecond']]
    ok = exc is None and isinstance(back, dt.datetime) and fields_of(back) == want
    if ok and m.get('tzname'):
        ok = back.utcoffset() is not None and td_us(back.utcoffset()) == 0
    elif ok:
        ok = back.tzinfo is None
    if not ok:
        ctx.fail('leap-second-capped', case, {'got': back, 'exc': exc, 'want': want})


def _check_clock_reading(ctx, case, tu, want_us, step):
    want = from_us(want_us)
    for _ in range(2):      # a constant override: every reading returns it
        got, exc = _call(tu.utcnow)
        ctx.clause('override-utcnow')
        if exc is not None or not _is_naive_dt(got) or fields_of(got) != want:
            ctx.fail('override-utcnow' if step == 'start' else 'advance-exact', case,
                     {'step': step, 'got': got, 'exc': exc, 'want': want})
            return False
    # with_timezone=True under an override: still that instant - the naive override itself, or an aware datetime that
    # denotes the same UTC instant (never one shifted by the process's local offset)
    got, exc = _call(tu.utcnow, with_timezone=True) if (want_us // 7) % 2 else _call(tu.utcnow, True)
    ctx.clause('override-utcnow-with_timezone')
    ok = exc is None and isinstance(got, dt.datetime)
    if ok and got.tzinfo is None:
        ok = fields_of(got) == want
    elif ok:
        off = got.utcoffset()
        ok = off is not None and fields_of((got - off).replace(tzinfo=None)) == want
    if not ok:
        ctx.fail('override-utcnow-with_timezone', case, {'step': step, 'got': got, 'exc': exc, 'want': want})
    rel = want_us - EPOCH_US
    got, exc = _call(tu.utcnow_ts)
    ctx.clause('override-utcnow_ts')
    # whole seconds of the instant (the sub-second part is dropped as time.struct_time does), i.e. the floor -
    # also before 1970, where truncation toward zero would name a second that lies after the instant
    allowed = {rel // US}
    if exc is not None or isinstance(got, bool) or not isinstance(got, (int, float)) or got not in allowed:
        ctx.fail('override-utcnow_ts', case, {'step': step, 'got': got, 'exc': exc, 'want': sorted(allowed),
                                              'now': want})
    got, exc = _call(tu.utcnow_ts, microsecond=True)
    ctx.clause('override-utcnow_ts-microsecond')
    ref = Fraction(rel, US)
    if exc is not None or isinstance(got, bool) or not isinstance(got, (int, float)) or got != got:
        ctx.fail('override-utcnow_ts-microsecond', case, {'step': step, 'got': got, 'exc': exc})
    else:
        tol = max(Fraction(1, US), 2 * Fraction(math.ulp(float(ref))))
        if abs(Fraction(got) - ref) > tol:
            ctx.fail('override-utcnow_ts-microsecond', case,
                     {'step': step, 'got': got, 'want': float(ref), 'now': want})
    return True


def eval_clock(ctx, case):
    from oslo_utils import timeutils as tu
    via = case['via']
    now_us = wall_us(case['now'])
    ctx.case(('clock', case['now'], via, case['ops'], bool(case.get('mixed'))))
    ctx.h('override via', via + ('/mixed-with-module-functions' if case.get('mixed') and via != 'override' else ''))
    clock = Clock(ctx, case, via, case['now'])
    if not clock.start():
        return
    try:
        if not _check_clock_reading(ctx, case, tu, now_us, 'start'):
            return
        for i, op in enumerate(case['ops']):
            if op[0] == 'delta':
                amount = op[1] * US_DAY + op[2] * US + op[3]
                arg = dt.timedelta(days=op[1], seconds=op[2], microseconds=op[3])
                cls = 'timedelta/' + ('zero' if amount == 0 else 'negative' if amount < 0 else 'positive') + \
                      ('/sub-second' if amount % US else '')
            else:
                amount = nearest_us(op[1])
                arg = op[1]
                cls = 'seconds/%s/%s%s' % (type(arg).__name__,
                                           'zero' if amount == 0 else 'negative' if amount < 0 else 'positive',
                                           '/fractional' if amount % US else '')
            if from_us(now_us + amount) is None:
                ctx.h('advance class', 'skipped-out-of-range')
                continue
            ctx.h('advance class', cls)
            _, exc = clock.advance(op[0], arg)
            ctx.clause('advance-exact')
            ctx.case(('advance', case['now'], via, case['ops'][:i + 1]))
            if exc is not None:
                ctx.fail('advance-must-not-raise', case, {'op': op, 'exc': exc})
                return
            now_us += amount
            if not _check_clock_reading(ctx, case, tu, now_us, 'after op %d %r' % (i, op)):
                return
    finally:
        clock.stop()


FUNCS = {'older': 'is_older_than', 'newer': 'is_newer_than', 'soon': 'is_soon'}


def eval_cmp(ctx, case):
    from oslo_utils import timeutils as tu
    spec, form, via = case['tz'], case['form'], case['via']
    t = build(case['t'], spec)
    off = spec_offset_us(spec, t)
    if spec and spec['k'] == 'zone' and case.get('want_off_min') is not None:
        if off != case['want_off_min'] * US_MIN:
            ctx.note('tzdata disagrees with the hard-coded table for %s %s: skipped'
                     % (spec['name'], case['t']))
            return
    t_us = wall_us(case['t']) - (off or 0)
    if form == 'dt':
        arg = t
    else:
        if off is not None and off % US_MIN:
            raise ValueError('harness: iso form with sub-minute offset')
        arg = t.isoformat()
        if form == 'iso-z':
            if not arg.endswith('+00:00'):
                raise ValueError('harness: iso-z form needs offset zero')
            arg = arg[:-6] + 'Z'
    s = case['seconds']
    s_us = exact_us(s)
    acls = arg_class(spec, form)
    if isinstance(s, float):
        scls = 'float/' + ('integral' if s_us % US == 0 else 'dyadic-fraction')
    else:
        scls = 'int'
    scls += '/zero' if s_us == 0 else '/negative' if s_us < 0 else '/positive'
    for fn in case['fns']:
        func = getattr(tu, FUNCS[fn])
        for delta in case['deltas']:
            # older: now - t = s + delta ; newer and soon: t - now = s + delta
            now_us = t_us + s_us + delta if fn == 'older' else t_us - s_us - delta
            now_f = from_us(now_us)
            if now_f is None or from_us(now_us + s_us) is None or from_us(now_us - s_us) is None:
                ctx.h('comparison skipped', 'clock or clock+-seconds out of range')
                continue
            want = (delta > 0) if fn in ('older', 'newer') else (delta <= 0)
            dcls = {-1: '-1us', 0: '0', 1: '+1us'}.get(delta, 'far-' if delta < 0 else 'far+')
            clock = Clock(ctx, case, via, now_f)
            if not clock.start():
                return
            if case.get('kw'):
                ctx.clause('comparison-keyword-call')
                got, exc = _call(func, **{KWNAMES[fn][0]: arg, KWNAMES[fn][1]: s})
            else:
                got, exc = _call(func, arg, s)
            clock.stop()
            ctx.case(('cmp', fn, case['t'], spec, form, s, delta, via, bool(case.get('kw')), case.get('proc_tz')))
            ctx.clause(FUNCS[fn] + '-boundary')
            ctx.h('function x argument form x delta -> outcome', '%s %s %s -> %s' % (FUNCS[fn], acls, dcls, want))
            ctx.h('offset class (comparisons)', off_class(spec, off))
            ctx.h('seconds class', scls)
            if exc is not None or got is not want:
                ctx.fail(FUNCS[fn] + '-boundary', case,
                         {'function': FUNCS[fn], 'arg': arg, 'seconds': s, 'now': now_f, 'delta_us': delta,
                          'got': got, 'want': want, 'exc': exc, 'via': via})


def eval_cmp_huge(ctx, case):
    """Second counts far larger than any distance between two datetimes (but well inside timedelta's range): the
    comparison is decided all the same - t - now can never exceed them (or is always above a hugely negative one)."""
    from oslo_utils import timeutils as tu
    now_f, t_f, s = case['now'], case['t'], case['seconds']
    t = dt.datetime(*t_f)
    clock = Clock(ctx, case, case['via'], now_f)
    if not clock.start():
        return
    try:
        dist_us = wall_us(t_f) - wall_us(now_f)
        for fn in ('older', 'newer'):
            want = (-dist_us > exact_us(s)) if fn == 'older' else (dist_us > exact_us(s))
            got, exc = _call(getattr(tu, FUNCS[fn]), t if case['form'] == 'dt' else t.isoformat(), s)
            ctx.case(('cmp-huge', fn, tuple(now_f), tuple(t_f), s, case['form']))
            ctx.clause('comparison-with-huge-seconds')
            if exc is not None or got is not want:
                ctx.fail('comparison-with-huge-seconds', case,
                         {'function': FUNCS[fn], 'seconds': s, 'now': now_f, 't': t_f, 'got': got, 'want': want, 'exc': exc})
    finally:
        clock.stop()


EVAL = {'cmp-huge': eval_cmp_huge, 'norm': eval_norm, 'iso': eval_iso, 'marshal': eval_marshal, 'leapdict': eval_leapdict,
        'clock': eval_clock, 'cmp': eval_cmp}


PROC_TZ = ['Asia/Kolkata', 'America/St_Johns', 'Pacific/Kiritimati', 'America/Los_Angeles', 'Australia/Lord_Howe']
KWNAMES = {'older': ('before', 'seconds'), 'newer': ('after', 'seconds'), 'soon': ('dt', 'window')}   # documented names


def _evaluate_nomodes(ctx, case):
    tz = case.get('proc_tz')
    if not tz:
        return EVAL[case['kind']](ctx, case)
    # the process's own local time zone is not UTC: nothing in the property may depend on it
    import os, time
    old = os.environ.get('TZ')
    os.environ['TZ'] = tz
    time.tzset()
    try:
        ctx.clause('process-timezone-not-utc')
        ctx.h('process TZ', tz)
        return EVAL[case['kind']](ctx, case)
    finally:
        if old is None:
            os.environ.pop('TZ', None)
        else:
            os.environ['TZ'] = old
        time.tzset()


from vlib import envmodes  # noqa: E402
evaluate = envmodes.with_modes(_evaluate_nomodes, warn=lambda case: True, debug=lambda case: True, share_debug=5)


# ----------------------------------------------------------------------
# generators
# ----------------------------------------------------------------------
def rand_fields(rng, lo=1900, hi=2200):
    y = rng.randint(lo, hi)
    k = rng.randrange(10)
    if k == 0:       # last instant / first instant of a month, year, leap day
        mo = rng.choice([1, 2, 2, 3, 12, 12, rng.randint(1, 12)])
        last = calendar.monthrange(y, mo)[1]
        if rng.random() < 0.5:
            return [y, mo, last, 23, 59, 59, rng.choice([999999, 999999, 0, 999998])]
        return [y, mo, 1, 0, 0, 0, rng.choice([0, 0, 1])]
    mo = rng.randint(1, 12)
    d = rng.randint(1, calendar.monthrange(y, mo)[1])
    us = rng.choice([0, 1, 999999, 500000, rng.randrange(US), rng.randrange(US)])
    return [y, mo, d, rng.randrange(24), rng.randrange(60), rng.randrange(60), us]


SUBMINUTE = [1, -1, US, -US, 59 * US + 999999, -(59 * US + 999999), US_DAY - 1, -(US_DAY - 1),
             30 * US, -30 * US, 3600 * US + 1, -(3600 * US + 1), US_DAY - US_MIN + 1]
UTC_IMPLS = ['stdlib', 'iso8601', 'zoneinfo', 'fixed0']


def rand_fixed(rng, whole_minute=False):
    k = rng.randrange(8)
    if k == 0:
        m = rng.choice([1, -1, 1439, -1439, 0, 1438, -1438, 59, -59, 61, -61])
    elif k == 1:
        m = 60 * rng.randint(-23, 23)
    elif k == 2:
        m = 15 * rng.randint(-95, 95)
    elif k == 3 and not whole_minute:
        if rng.random() < 0.5:
            return {'k': 'fixed', 'us': rng.choice(SUBMINUTE)}
        return {'k': 'fixed', 'us': rng.randint(-(US_DAY - 1), US_DAY - 1)}
    else:
        m = rng.randint(-1439, 1439)
    return {'k': 'fixed', 'us': m * US_MIN}


def zone_events(zones, years):
    """wall clock readings around the utc-offset changes of each zone
    (found by scanning tzdata hourly): [(zone, fields, fold, tag)]"""
    out = []
    for name in zones:
        z = zone(name)
        if z is None:
            continue
        for y in years:
            prev = None
            cur = dt.datetime(y, 1, 1, 0, 30, tzinfo=z)
            # the scan uses field-wise stepping through ordinals, no aware arithmetic
            start = dt.date(y, 1, 1).toordinal()
            for hour in range(366 * 24):
                d = dt.date.fromordinal(start + hour // 24)
                if d.year != y:
                    break
                cur = dt.datetime(d.year, d.month, d.day, hour % 24, 30, tzinfo=z)
                o = cur.utcoffset()
                if prev is not None and o != prev:
                    tag = 'after-gap' if td_us(o) > td_us(prev) else 'ambiguous'
                    base = wall_us([d.year, d.month, d.day, hour % 24, 0, 0, 0])
                    for shift in (-2 * 3600 * US - 1, -3600 * US, -1800 * US, -1, 0, 1, 1800 * US + 7,
                                  3600 * US - 1, 3600 * US, 2 * 3600 * US + 5):
                        f = from_us(base + shift)
                        for fold in (0, 1):
                            out.append((name, f, fold, tag))
                prev = o
    return out


def tz_for_compare(rng, zones, fields):
    """(spec, allowed forms)"""
    k = rng.randrange(10)
    if k <= 1:
        return None, ['dt', 'iso']
    if k == 2:
        return {'k': 'utc', 'impl': rng.choice(UTC_IMPLS)}, ['dt', 'iso', 'iso-z']
    if k <= 6 or not zones:
        spec = rand_fixed(rng)
        if spec['us'] % US_MIN:
            return spec, ['dt']
        return spec, ['dt', 'iso'] + (['iso-z'] if spec['us'] == 0 else [])
    spec = {'k': 'zone', 'name': rng.choice(zones), 'fold': rng.randrange(2)}
    off = td_us(build(fields, spec).utcoffset())
    if off % US_MIN:
        return spec, ['dt']
    return spec, ['dt', 'iso']


def rand_seconds(rng):
    k = rng.randrange(12)
    if k == 0:
        return 0
    if k == 1:
        return rng.choice([1, 60, 3600, 86400, 86400 * 30, 10 ** 6, 2 ** 31, 604800])
    if k == 2:
        return rng.choice([-1, -60, -3600, -86400, -10 ** 6])
    if k == 3:
        return rng.randint(-10 ** 9, 10 ** 9)
    if k == 4:
        return rng.randint(0, 100000)
    if k == 5:
        return rng.choice([0.5, 0.25, 1.5, 0.015625, 0.75, 2.125, 59.984375])
    if k == 6:
        return rng.choice([-0.5, -0.25, -1.5, -0.015625, -3600.5])
    if k == 7:
        return rng.randint(-64 * 10 ** 7, 64 * 10 ** 7) / 64
    if k == 8:
        return float(rng.choice([0, 1, 60, 3600, -3600, rng.randint(-10 ** 9, 10 ** 9)]))
    if k == 9:
        return rng.randint(0, 64 * 1000) / 64
    if k == 10:
        return rng.choice([10 ** 9 + 0.5, -(10 ** 9) - 0.015625, 2.0 ** 31 + 0.25])
    return rng.randint(1, 600)


VIAS = ['override', 'fixture', 'fixture-with']


def run(ctx):
    idx = 0

    def emit(case):
        nonlocal idx
        idx += 1
        if idx % 4 == 0:
            case = dict(case, proc_tz=PROC_TZ[(idx // 4) % len(PROC_TZ)])
        if idx % 3 == 0 and case['kind'] == 'cmp':
            case = dict(case, kw=True)               # the time is passed by its documented keyword
        if ctx.mine(idx):
            ctx.sample(case['kind'] + ('/' + case['form'] if 'form' in case else ''), case)
            evaluate(ctx, case)

    zones = [z for z in ZONES if zone(z) is not None]
    try:
        import zoneinfo
        zoneinfo.ZoneInfo('Asia/Kolkata')
    except Exception as e:  # noqa
        zones = []
        ctx.note('tzdata not available (%r): named zones skipped, fixed offsets only' % (e,))
    ctx.extra['named zones available'] = len(zones)
    allf = ['older', 'newer', 'soon']
    rd = ctx.rng('directed')

    # ---- directed: every whole-minute offset --------------------------------
    for m in range(-1439, 1440):
        spec = {'k': 'fixed', 'us': m * US_MIN}
        for f in ([2020, 2, 29, 0, 0, 0, 0], [1999, 12, 31, 23, 59, 59, 999999], rand_fields(rd)):
            emit({'kind': 'norm', 't': f, 'tz': spec})
        emit({'kind': 'iso', 't': rand_fields(rd, 1, 9999), 'tz': spec})
        emit({'kind': 'cmp', 't': rand_fields(rd), 'tz': spec, 'form': rd.choice(['dt', 'iso']),
              'seconds': rand_seconds(rd), 'deltas': [-1, 0, 1], 'fns': allf, 'via': VIAS[m % 3]})
    ctx.exhaustive['fixed whole-minute offsets -23:59..+23:59 (normalize_time, parse_isotime, comparisons)'] = True
    for now_f in ([2024, 5, 17, 12, 0, 0, 0], [9999, 12, 31, 23, 59, 30, 0], [1, 1, 1, 0, 0, 30, 0]):
        for t_f in ([2030, 1, 1, 0, 0, 0, 0], [1, 1, 2, 0, 0, 0, 0], [9999, 12, 31, 23, 59, 59, 999999]):
            for sec in (60, -60, 2.6e11, 3.2e11, 1e12, -6.4e10, -3.2e11, -1e12, 8.0e13, 10 ** 12, -10 ** 12):
                emit({'kind': 'cmp-huge', 'now': now_f, 't': t_f, 'seconds': sec, 'form': rd.choice(['dt', 'iso']),
                      'via': VIAS[(len(str(sec)) + t_f[0]) % 3]})
    for us in SUBMINUTE:
        spec = {'k': 'fixed', 'us': us}
        for f in ([2020, 2, 29, 0, 0, 0, 0], [1999, 12, 31, 23, 59, 59, 999999], [2024, 3, 1, 0, 0, 0, 1]):
            emit({'kind': 'norm', 't': f, 'tz': spec})
            emit({'kind': 'cmp', 't': f, 'tz': spec, 'form': 'dt', 'seconds': rd.choice([0, 5, 0.5, -7]),
                  'deltas': [-1, 0, 1], 'fns': allf, 'via': 'override'})
    # naive and the UTC implementations
    for f in ([2020, 2, 29, 0, 0, 0, 0], [1, 1, 1, 0, 0, 0, 0], [9999, 12, 31, 23, 59, 59, 999999],
              [1970, 1, 1, 0, 0, 0, 0], [1969, 12, 31, 23, 59, 59, 999999], [2038, 1, 19, 3, 14, 8, 0]):
        for spec in [None] + [{'k': 'utc', 'impl': i} for i in UTC_IMPLS]:
            emit({'kind': 'norm', 't': f, 'tz': spec})
            emit({'kind': 'iso', 't': f, 'tz': spec})
            emit({'kind': 'marshal', 't': f, 'tz': spec, 'leap': True})
    # ---- directed: the edges of the representable range ----------------------
    edge_offsets = [1, -1, US, -US, US_MIN, -US_MIN, 3600 * US, -3600 * US, 330 * US_MIN, -570 * US_MIN,
                    1439 * US_MIN, -1439 * US_MIN, US_DAY - 1, -(US_DAY - 1)]
    for o in edge_offsets:
        spec = {'k': 'fixed', 'us': o}
        for edge in (MIN_US, MAX_US):
            for e in (-2, -1, 0, 1, 2, US, -US, 3600 * US, -3600 * US):
                f = from_us(edge + o + e)      # wall reading whose UTC instant is edge + e
                if f is not None:
                    emit({'kind': 'norm', 't': f, 'tz': spec})
            emit({'kind': 'norm', 't': from_us(edge), 'tz': spec})
    for name in zones:
        for f in ([1, 1, 1, 0, 0, 0, 0], [1, 1, 1, 23, 59, 59, 999999], [1, 1, 2, 12, 0, 0, 0],
                  [9999, 12, 31, 23, 59, 59, 999999], [9999, 12, 31, 0, 0, 0, 0], [9999, 12, 30, 12, 0, 0, 0]):
            emit({'kind': 'norm', 't': f, 'tz': {'k': 'zone', 'name': name, 'fold': 0}})
    # ---- directed: named zones -----------------------------------------------
    for name, f, fold, want in ZONE_TABLE:
        if name not in zones:
            continue
        spec = {'k': 'zone', 'name': name, 'fold': fold}
        emit({'kind': 'norm', 't': f, 'tz': spec, 'want_off_min': want, 'tag': 'table'})
        emit({'kind': 'iso', 't': f, 'tz': spec})
        for form in ('dt', 'iso'):
            emit({'kind': 'cmp', 't': f, 'tz': spec, 'form': form, 'seconds': rd.choice([0, 1, 3600, 0.5, -60]),
                  'deltas': [-1, 0, 1], 'fns': allf, 'via': rd.choice(VIAS), 'want_off_min': want})
    events = zone_events(zones, ctx.pick([2021], [1945, 1980, 2007, 2021, 2035]))
    for name, f, fold, tag in events:
        spec = {'k': 'zone', 'name': name, 'fold': fold}
        emit({'kind': 'norm', 't': f, 'tz': spec, 'tag': tag + '/fold%d' % fold})
        whole = td_us(build(f, spec).utcoffset()) % US_MIN == 0
        if whole:
            emit({'kind': 'iso', 't': f, 'tz': spec})
        emit({'kind': 'cmp', 't': f, 'tz': spec, 'form': 'iso' if (whole and fold) else 'dt',
              'seconds': rd.choice([0, 1, 3600, 7200, 0.5, -60, 1800]),
              'deltas': [-1, 0, 1], 'fns': allf, 'via': rd.choice(VIAS)})
    # ---- directed: leap seconds as literal rpc dicts --------------------------
    for y, mo, d in [(2016, 12, 31), (2015, 6, 30), (1972, 6, 30), (2020, 2, 29), (1, 1, 1), (9999, 12, 31)]:
        for us in (0, 5, 999999):
            for tzname in (None, 'UTC', 'UTC+00:00'):
                m = dict(day=d, month=mo, year=y, hour=23, minute=59, second=60, microsecond=us)
                if tzname:
                    m['tzname'] = tzname
                emit({'kind': 'leapdict', 'dict': m})
    # ---- directed: clock ------------------------------------------------------
    for via in VIAS:
        for now in ([2012, 5, 16, 15, 27, 30, 0], [1970, 1, 1, 0, 0, 0, 0], [1969, 12, 31, 23, 59, 59, 500000],
                    [1969, 12, 31, 23, 59, 59, 0], [2038, 1, 19, 3, 14, 7, 999999], [1, 1, 1, 0, 0, 0, 0],
                    [9999, 12, 31, 23, 59, 59, 999999], [2000, 2, 29, 23, 59, 59, 999999],
                    [1901, 12, 13, 20, 45, 52, 1]):
            for mixed in ((False, True) if via != 'override' else (False,)):
              emit({'kind': 'clock', 'now': now, 'via': via, 'mixed': mixed,
                  'ops': [['seconds', 0.5], ['seconds', -0.5], ['seconds', 1], ['delta', 0, 0, 1],
                          ['delta', 0, 0, -1], ['seconds', -1], ['seconds', 0.000001], ['seconds', -0.000001],
                          ['seconds', 0.999999], ['delta', -1, 86399, 999999], ['seconds', 86400],
                          ['delta', -1, 0, 0], ['seconds', 0], ['delta', 0, 0, 0], ['seconds', 1.75],
                          ['seconds', -1.75], ['seconds', 12345.678901], ['seconds', -12345.678901]]})
            emit({'kind': 'marshal', 't': now, 'tz': None, 'via': via})

    # ---- seeded generation: in blocks with their own random stream, a worker only
    # generates the blocks it owns ------------------------------------------------
    scale = ctx.pick(1, 100)
    blk = 0

    def blocks(stream, total, size=250):
        nonlocal blk
        for b in range(max(1, total // size)):
            blk += 1
            if ctx.mine(blk):
                yield ctx.rng('%s/%d' % (stream, b)), size

    def go(case):
        ctx.sample(case['kind'] + ('/' + case['form'] if 'form' in case else ''), case)
        evaluate(ctx, case)

    for rn, n in blocks('normalize', 40000 * scale):
        for i in range(n):
            k = rn.randrange(10)
            f = rand_fields(rn, 2, 9998) if rn.random() < 0.3 else rand_fields(rn)
            if k == 0:
                spec = None
            elif k == 1:
                spec = {'k': 'utc', 'impl': rn.choice(UTC_IMPLS)}
            elif k <= 6 or not zones:
                spec = rand_fixed(rn)
            else:
                spec = {'k': 'zone', 'name': rn.choice(zones), 'fold': rn.randrange(2)}
                f = rand_fields(rn, 1850, 2100) if rn.random() < 0.8 else f
            go({'kind': 'norm', 't': f, 'tz': spec})
    # random cases right at the range edges
    for rn, n in blocks('normalize-edge', 2000 * scale):
        for i in range(n):
            o = rand_fixed(rn)
            edge = rn.choice([MIN_US, MAX_US])
            e = rn.choice([-1, 0, 1, rn.randint(-US_DAY, US_DAY), rn.randint(-100, 100)])
            f = from_us(edge + o['us'] + e)
            if f is not None:
                go({'kind': 'norm', 't': f, 'tz': o})
    for ri, n in blocks('iso', 25000 * scale):
        for i in range(n):
            k = ri.randrange(10)
            f = rand_fields(ri, 1, 9999) if ri.random() < 0.4 else rand_fields(ri)
            if k <= 1:
                spec = None
            elif k == 2:
                spec = {'k': 'utc', 'impl': ri.choice(UTC_IMPLS)}
            elif k <= 7 or not zones:
                spec = rand_fixed(ri, whole_minute=True)
            else:
                spec = {'k': 'zone', 'name': ri.choice(zones), 'fold': ri.randrange(2)}
                if td_us(build(f, spec).utcoffset()) % US_MIN:
                    spec = rand_fixed(ri, whole_minute=True)     # LMT with seconds: isoformat is not ISO 8601
            go({'kind': 'iso', 't': f, 'tz': spec})
    for rm, n in blocks('marshal', 15000 * scale):
        for i in range(n):
            f = rand_fields(rm, 1, 9999) if rm.random() < 0.4 else rand_fields(rm)
            spec = None if rm.random() < 0.4 else {'k': 'utc', 'impl': rm.choice(UTC_IMPLS)}
            case = {'kind': 'marshal', 't': f, 'tz': spec, 'leap': rm.random() < 0.3}
            if spec is None and rm.random() < 0.25:
                case['via'] = rm.choice(VIAS)
            go(case)
    for rc, n in blocks('clock', 6000 * scale):
        for i in range(n):
            now = rand_fields(rc, 1902, 2500) if rc.random() < 0.85 else rand_fields(rc, 2, 9998)
            ops = []
            for j in range(rc.randint(1, 5)):
                k = rc.randrange(8)
                if k == 0:
                    ops.append(['seconds', rc.choice([0, 1, -1, 60, -60, 86400, 3600,
                                                      rc.randint(-10 ** 7, 10 ** 7)])])
                elif k == 1:
                    ops.append(['seconds', rc.choice([0.5, -0.5, 0.25, 1.5, -1.5, 0.015625, 0.984375, -0.984375])])
                elif k == 2:
                    ops.append(['seconds', rc.randint(-64 * 10 ** 5, 64 * 10 ** 5) / 64])
                elif k == 3:      # decimal fractions at microsecond resolution
                    ops.append(['seconds', rc.randint(-10 ** 11, 10 ** 11) / 10 ** 6])
                elif k == 4:
                    ops.append(['seconds', rc.choice([0.000001, -0.000001, 0.999999, -0.999999, 0.1, -0.1,
                                                      0.000002])])
                elif k == 5:
                    ops.append(['delta', 0, 0, rc.choice([1, -1, 999999, -999999,
                                                          rc.randint(-10 ** 12, 10 ** 12)])])
                elif k == 6:
                    ops.append(['delta', rc.randint(-400, 400), rc.randint(0, 86399), rc.randrange(US)])
                else:
                    ops.append(['delta', 0, rc.randint(-10 ** 6, 10 ** 6), 0])
            go({'kind': 'clock', 'now': now, 'via': rc.choice(VIAS), 'ops': ops, 'mixed': rc.random() < 0.5})
    for rp, n in blocks('compare', 16000 * scale):
        for i in range(n):
            f = rand_fields(rp) if rp.random() < 0.9 else rand_fields(rp, 40, 9900)
            spec, forms = tz_for_compare(rp, zones, f)
            s = rand_seconds(rp)
            far = rp.choice([rp.randint(2, 10 ** 9), -rp.randint(2, 10 ** 9), rp.randint(2, 2000),
                             -rp.randint(2, 2000)])
            go({'kind': 'cmp', 't': f, 'tz': spec, 'form': rp.choice(forms), 'seconds': s,
                'deltas': [-1, 0, 1, far], 'fns': allf, 'via': rp.choice(VIAS)})
    # very large second counts (millennia) around the middle of the range
    for rp, n in blocks('compare-large', 250 * scale):
        for i in range(n):
            f = rand_fields(rp, 4500, 5500)
            spec, forms = tz_for_compare(rp, zones, f)
            s = rp.choice([10 ** 11, -10 ** 11, 10 ** 11 + 0.5, rp.randint(-10 ** 11, 10 ** 11),
                           float(rp.randint(-10 ** 11, 10 ** 11))])
            go({'kind': 'cmp', 't': f, 'tz': spec, 'form': rp.choice(forms), 'seconds': s,
                'deltas': [-1, 0, 1], 'fns': allf, 'via': rp.choice(VIAS)})


LEVEL_TEXT = ('Exploration with an exact oracle: expected values are computed in integer microseconds from the '
              'generator components (no datetime subtraction, no astimezone); all 2879 whole-minute offsets are '
              'enumerated, zone transitions are taken from tzdata with both folds, comparison boundaries are hit '
              'exactly (-1 us, 0, +1 us) because the overridden clock is derived from the argument.')
LEVEL_NOTE = ('Trusted: date.toordinal/fromordinal, datetime construction and isoformat, zoneinfo offsets for named '
              'zones (cross-checked against a small hard-coded table). DONT-CARE: clocks/arguments that leave the '
              'representable range (except normalize_time), utcnow_ts() floor-vs-truncate before 1970, second '
              'counts that are not on the microsecond grid in the comparison clauses, is_soon with a string '
              'argument (raises AttributeError today), ISO strings of offsets with '
              'seconds (old local mean times).')
TECHNIQUE = 'reference-model monitor (integer-microsecond clock arithmetic) with a virtual clock via the override hook'
