#!/venv/bin/python
"""tools/costs.py - rewrites the measured-cost table of DESIGN.md (between <!-- COSTS:BEGIN/END -->) from the evidence files
the checks themselves wrote: evidence/<ID>.json (quick tier) and evidence/thorough/<ID>.json (thorough tier)."""
import json, os, re
HERE = os.path.dirname(os.path.dirname(os.path.abspath(__file__)))


def fmt(n):
    if n is None:
        return '-'
    if n >= 10 ** 6:
        return '%.1f M' % (n / 1e6)
    if n >= 10 ** 3:
        return '%.0f k' % (n / 1e3)
    return str(n)


def row(path):
    if not os.path.exists(path):
        return None
    e = json.load(open(path))
    c = e.get('coverage', {})
    return (c.get('evaluations'), c.get('distinct_nontrivial'), e.get('wall_s'), c.get('workers'), e.get('seed'),
            len(c.get('monitor_clauses') or {}), [k for k, v in (c.get('exhaustive_subspaces') or c.get('exhaustive') or {}).items()]
            if isinstance(c.get('exhaustive_subspaces') or c.get('exhaustive'), dict) else list(c.get('exhaustive_subspaces') or []))


lines = ['| id  | quick: evaluations / distinct non-trivial / wall (workers) | thorough: evaluations / distinct / wall (workers) | monitor clauses evaluated (quick / thorough) |',
         '|-----|------------------------|---------------------------|------|']
tq = tt = 0.0
for i in range(1, 21):
    pid = 'C%02d' % i
    q = row(os.path.join(HERE, 'evidence', pid + '.json'))
    t = row(os.path.join(HERE, 'evidence', 'thorough', pid + '.json'))

    def cell(r):
        if not r:
            return 'not run'
        return '%s / %s / %.0f s (%s)' % (fmt(r[0]), fmt(r[1]), r[2] or 0, r[3] if r[3] is not None else '?')
    tq += (q[2] if q and q[2] else 0)
    tt += (t[2] if t and t[2] else 0)
    lines.append('| %s | %s | %s | %s / %s |' % (pid, cell(q), cell(t), q[5] if q else '-', t[5] if t else '-'))
lines.append('')
lines.append('All quick checks together: about %.0f minutes serial on this machine; all thorough checks: about %.0f minutes '
             '(sums of the wall times above, measured while other work was running).' % (tq / 60, tt / 60))
p = os.path.join(HERE, 'DESIGN.md')
s = open(p).read()
block = '<!-- COSTS:BEGIN -->\n' + '\n'.join(lines) + '\n<!-- COSTS:END -->'
if '<!-- COSTS:BEGIN -->' in s:
    s = re.sub(r'<!-- COSTS:BEGIN -->.*?<!-- COSTS:END -->', lambda m: block, s, flags=re.S)
    open(p, 'w').write(s)
    print('DESIGN.md cost table rewritten')
else:
    print(block)
