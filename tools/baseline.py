#!/venv/bin/python
"""Runs the repository's pinned test command (hooks off) and compares with BASELINE.json's stable_pass list."""
import json, os, subprocess, sys, tempfile, xml.etree.ElementTree as ET
repo = sys.argv[1] if len(sys.argv) > 1 else '/repo'
base = json.load(open('/root/.vp/BASELINE.json'))
fd, path = tempfile.mkstemp(suffix='.xml', dir='/dev/shm'); os.close(fd)
env = dict(os.environ); env.pop('OSLO_UTILS_VERIF', None)
subprocess.run(['/venv/bin/python', '-m', 'pytest', '-ra', '-q', '-p', 'no:cacheprovider', '--timeout=900',
                '--continue-on-collection-errors', '--junitxml=' + path], cwd=repo, env=env,
               stdout=subprocess.DEVNULL, stderr=subprocess.DEVNULL)
passed, failed = set(), set()
for tc in ET.parse(path).getroot().iter('testcase'):
    tid = '%s::%s' % (tc.get('classname'), tc.get('name'))
    if tc.find('failure') is not None or tc.find('error') is not None: failed.add(tid)
    elif tc.find('skipped') is None: passed.add(tid)
os.unlink(path)
missing = sorted(set(base['stable_pass']) - passed)
print('passed %d failed %d; baseline stable_pass %d; missing from passed: %d' % (len(passed), len(failed), len(base['stable_pass']), len(missing)))
for m in missing[:20]: print('  MISSING', m)
sys.exit(1 if missing else 0)
