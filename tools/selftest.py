#!/venv/bin/python
"""Sensitivity self-test (development tool, not a registered check).

For every mutants/*.json ({property, file, old, new, description}): copy /repo to a scratch directory outside /repo
and /verif, apply the textual replacement, run the repository's own tests (must still pass the baseline), run the
property's quick check with VERIF_REPO pointing at the copy (must exit 1 with a VIOLATION line), remove the copy.
Usage: tools/selftest.py [name-substring ...] [--tier quick|thorough] [--no-tests]
"""
import glob, json, os, shutil, subprocess, sys, tempfile
HERE = os.path.dirname(os.path.dirname(os.path.abspath(__file__)))
args = [a for a in sys.argv[1:] if not a.startswith('--')]
tier = 'quick'
if '--tier' in sys.argv:
    tier = sys.argv[sys.argv.index('--tier') + 1]; args = [a for a in args if a != tier]
run_tests = '--no-tests' not in sys.argv
rows = []
for path in sorted(glob.glob(os.path.join(HERE, 'mutants', '*.json'))):
    name = os.path.basename(path)[:-5]
    if name == 'RESULTS':
        continue
    if args and not any(a in name for a in args):
        continue
    m = json.load(open(path))
    scratch = tempfile.mkdtemp(prefix='mut-%s-' % name, dir='/dev/shm')
    try:
        dst = os.path.join(scratch, 'repo')
        shutil.copytree('/repo', dst, ignore=shutil.ignore_patterns('.git', '__pycache__', '*.pyc', '.tox', '*.egg-info'))
        for edit in m.get('edits', [m]):
            f = os.path.join(dst, edit['file'])
            s = open(f).read()
            if s.count(edit['old']) != 1:
                rows.append((name, m['property'], 'PATCH-DOES-NOT-APPLY (%d matches)' % s.count(edit['old']), '')); break
            open(f, 'w').write(s.replace(edit['old'], edit['new']))
        else:
            tests = 'skipped'
            if run_tests:
                r = subprocess.run([os.path.join(HERE, 'tools', 'baseline.py'), dst], capture_output=True, text=True,
                                   env=dict(os.environ, PYTHONPATH=dst))
                tests = 'tests-pass' if r.returncode == 0 else 'TESTS-FAIL'
            res = []
            for prop in m['property'].split(','):
                r = subprocess.run([os.path.join(HERE, 'check'), prop, '--tier', tier], capture_output=True, text=True,
                                   env=dict(os.environ, VERIF_REPO=dst, VERIF_NO_EVIDENCE='1', VERIF_REPLAYS=os.path.join(scratch, 'replays')))
                viol = [l for l in r.stdout.splitlines() if l.startswith('VIOLATION')]
                clause = [l.strip()[:110] for l in r.stdout.splitlines() if l.startswith('  clause=')][:1]
                res.append('%s:%s' % (prop, 'CAUGHT' if (r.returncode == 1 and viol) else 'MISSED(exit %d)' % r.returncode))
                if clause: res.append(clause[0])
            rows.append((name, m['property'], tests, ' '.join(res)))
    finally:
        shutil.rmtree(scratch, ignore_errors=True)
    print('%-40s %-8s %-12s %s' % rows[-1], flush=True)
# merge into the recorded results (a partial run updates only its own rows; a --no-tests run keeps the recorded test status)
rp = os.path.join(HERE, 'mutants', 'RESULTS.json')
try:
    recorded = json.load(open(rp))
except Exception:  # noqa
    recorded = {}
for r in rows:
    tests = r[2]
    if tests == 'skipped' and r[0] in recorded and recorded[r[0]].get('repository_tests') not in (None, 'skipped'):
        tests = recorded[r[0]]['repository_tests'] + ' (recorded earlier)'
    recorded[r[0]] = {'property': r[1], 'repository_tests': tests, 'result': r[3]}
json.dump(recorded, open(rp, 'w'), indent=1, sort_keys=True)
missed = [r for r in rows if 'MISSED' in r[3] or 'NOT-APPLY' in r[2]]
print('\n%d mutants, %d not caught' % (len(rows), len(missed)))
