#!/venv/bin/python
"""Regenerates the catch matrix in DESIGN.md (between the MATRIX markers) from seeded/*/meta.json, seeded/RESULTS.json and
mutants/RESULTS.json."""
import glob, json, os, re
HERE = os.path.dirname(os.path.dirname(os.path.abspath(__file__)))
rows = ['| change | property | what it does / needs | first run | now caught by (quick tier, clause) |', '|---|---|---|---|---|']
res = json.load(open(os.path.join(HERE, 'seeded', 'RESULTS.json')))
n = caught = first = 0
for d in sorted(glob.glob(os.path.join(HERE, 'seeded', '*', 'meta.json'))):
    name = os.path.basename(os.path.dirname(d))
    m = json.load(open(d))
    r = res.get(name, {})
    if m.get('obsolete'):
        rows.append('| seeded/%s | %s | %s | - | obsolete: %s |' % (name, m.get('property'), (m.get('title') or '')[:80], m['obsolete'][:220].replace('|', '/')))
        continue
    cells = []
    ok = bool(r.get('checks'))
    for prop, c in (r.get('checks') or {}).items():
        tier = 'quick' if c.get('quick') == 'CAUGHT' else ('thorough' if c.get('thorough') == 'CAUGHT' else None)
        if tier is None:
            ok = False
            cells.append('%s: MISSED' % prop)
        else:
            cl = re.sub(r'^clause=', '', c.get('clause', '')).split(' detail=')[0]
            cells.append('%s %s: `%s`' % (prop, tier, cl))
    n += 1
    caught += ok
    fr = 'caught' if m.get('first_run', '').startswith('caught') else 'missed -> strengthened'
    fr += ' (round %s)' % m.get('round', 1)
    first += fr.startswith('caught')
    what = (m.get('title') or '')[:80] + ' - needs: ' + (m.get('needs') or '')[:150].replace('\n', ' ').replace('|', '/')
    rows.append('| seeded/%s | %s | %s | %s | %s |' % (name, m.get('property'), what, fr, '; '.join(cells)))
summary = ('%d independently written changes (sub-agents given only the property text and a scratch worktree): %d caught '
           'by the quick tier as it stood when the change arrived, %d caught now (after the strengthening recorded in each '
           'meta.json).' % (n, first, caught))
own = json.load(open(os.path.join(HERE, 'mutants', 'RESULTS.json'))) if os.path.exists(os.path.join(HERE, 'mutants', 'RESULTS.json')) else {}
orow = ['| own mutant | property | repository tests | result (quick tier) |', '|---|---|---|---|']
for k, v in sorted(own.items()):
    orow.append('| mutants/%s | %s | %s | %s |' % (k, v['property'], v['repository_tests'], v['result'][:150].replace('|', '/')))
text = summary + '\n\n' + '\n'.join(rows) + '\n\nOwn corpus (`mutants/*.json`, textual edits; `tools/selftest.py`): %d mutants, %d not caught. ' \
    'Some of them fail the repository\'s own tests (marked TESTS-FAIL) and are kept only as sanity checks of the monitors.\n\n' % (
        len(own), sum('MISSED' in v['result'] for v in own.values())) + '\n'.join(orow) + '\n'
p = os.path.join(HERE, 'DESIGN.md')
s = open(p).read()
a, b = '<!-- MATRIX:BEGIN -->', '<!-- MATRIX:END -->'
if a not in s:
    s += '\n## 11. Which check catches which change\n\n' + a + '\n' + b + '\n'
s = s[:s.index(a) + len(a)] + '\n' + text + s[s.index(b):]
open(p, 'w').write(s)
print(summary)
