#!/bin/sh
# tools/try_seed.sh <seeded-name> [PROPERTY] [tier]  - applies seeded/<name>/patch.diff to a /dev/shm copy of /repo and runs one check
# against it (no baseline run, no demo: a fast loop while strengthening a check; tools/run_seeded.py is the full procedure)
name=$1; here=$(cd "$(dirname "$0")/.." && pwd)
prop=${2:-$(echo "$name" | cut -c1-3)}; tier=${3:-quick}
d=$(mktemp -d /dev/shm/try-$name-XXXX)
rsync -a --exclude .git --exclude __pycache__ --exclude '*.egg-info' /repo/ "$d/repo/"
(cd "$d/repo" && git apply "$here/seeded/$name/patch.diff") || { rm -rf "$d"; exit 2; }
VERIF_REPO="$d/repo" VERIF_REPLAYS="$d/replays" VERIF_NO_EVIDENCE=1 "$here/check" "$prop" --tier "$tier" 2>&1 | grep -E "^(VIOLATION|INCONCLUSIVE|  clause=|C[0-9]+ tier)" | cut -c1-400 | head -${LINES_MAX:-6}
rm -rf "$d"
