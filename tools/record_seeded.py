#!/venv/bin/python
"""tools/record_seeded.py <round> <first-run.json> [name-substring ...]

Writes the `verified`, `round` and `first_run` fields of seeded/<name>/meta.json from seeded/RESULTS.json (written by
tools/run_seeded.py) and from a JSON map name -> text saying what the check lacked when the change first arrived
(names absent from the map were caught at the first run)."""
import glob, json, os, sys
HERE = os.path.dirname(os.path.dirname(os.path.abspath(__file__)))
rnd = int(sys.argv[1])
first = json.load(open(sys.argv[2]))
subs = sys.argv[3:]
results = json.load(open(os.path.join(HERE, 'seeded', 'RESULTS.json')))
n = 0
for d in sorted(glob.glob(os.path.join(HERE, 'seeded', '*', ''))):
    name = os.path.basename(d.rstrip('/'))
    if subs and not any(s in name for s in subs):
        continue
    row = results.get(name)
    if not row:
        print('no result for', name)
        continue
    mp = os.path.join(d, 'meta.json')
    meta = json.load(open(mp))
    meta['verified'] = {
        'what_was_run': 'tools/run_seeded.py %s (scratch copy of /repo under /dev/shm; demo on clean copy, git apply, '
                        'tools/baseline.py, demo again, ./check <property> --tier quick with VERIF_REPO=<copy>)' % name,
        'demo_on_clean_tree_exit': row.get('demo_clean'), 'demo_with_change_exit': row.get('demo_patched'),
        'repository_tests_with_change': row.get('tests'), 'checks': row.get('checks')}
    meta['round'] = rnd
    meta['first_run'] = first.get(name, 'caught by the quick tier as it was when the change arrived')
    with open(mp, 'w') as f:
        json.dump(meta, f, indent=1, ensure_ascii=False)
        f.write('\n')
    n += 1
print('recorded', n)
