#!/venv/bin/python
"""Regenerates MANIFEST.json from the metadata in checks/cNN.py."""
import importlib
import json
import os
import sys

HERE = os.path.dirname(os.path.dirname(os.path.abspath(__file__)))
sys.path.insert(0, HERE)
props = [json.loads(l) for l in open(os.path.join(HERE, 'properties.jsonl'))]
BASELINE = ('cd /repo && env -u OSLO_UTILS_VERIF /venv/bin/python -m pytest -ra -q -p no:cacheprovider '
            '--timeout=900 --continue-on-collection-errors')
checks, na = [], []
for p in props:
    pid = p['id']
    path = os.path.join(HERE, 'checks', pid.lower() + '.py')
    if not os.path.exists(path):
        na.append({'property_id': pid, 'reason': 'check not built yet (planned, see DESIGN.md section 4)'})
        continue
    m = importlib.import_module('checks.' + pid.lower())
    checks.append({
        'property_id': pid,
        'quick_cmd': './check %s --tier quick' % pid,
        'thorough_cmd': './check %s --tier thorough' % pid,
        'evidence_file': 'evidence/%s.json' % pid,
        'replay_cmd_template': './check %s --replay {path}' % pid,
        'engine': 'vlib',
        'level_claimed': {'category': m.LEVEL, 'text': m.LEVEL_TEXT,
                          'design_ref': 'DESIGN.md section 4, ' + pid},
        'level_note': m.LEVEL_NOTE,
        'technique': m.TECHNIQUE,
    })
doc = {
    'version': 1,
    'setup_cmd': './setup.sh',
    'hooks': {
        'guard': 'OSLO_UTILS_VERIF',
        'enable': 'no in-tree hooks: monitors wrap the real objects from the harness (instance/class wrappers, '
                  'replaceable module attributes, sys.monitoring); the guard name is reserved and guards nothing',
        'baseline_off_cmd': BASELINE,
        'source_commits': [],
        'add_only': True,
    },
    'engines': [{'name': 'vlib', 'path': 'vlib/', 'serves_properties': [c['property_id'] for c in checks],
                 'kind_free_text': 'runtime monitors written for this repository: invariant hooks around the real '
                                   'methods, reference-model oracles fed by constructive generators, offline '
                                   'event-log checkers, failpoints; run on /venv/bin/python against /repo'}],
    'checks': checks,
    'not_applicable': na,
    'notes': 'Runtime monitoring only. exit 0 held / 1 VIOLATION / 2 INCONCLUSIVE (never folded). '
             'Known findings: known_findings.json. See DESIGN.md.',
}
with open(os.path.join(HERE, 'MANIFEST.json'), 'w') as f:
    json.dump(doc, f, indent=1)
print('claimed', len(checks), 'not_applicable', len(na))
