#!/bin/sh
# tools/sweep.sh <tier> <seed...>   runs every check once per seed, prints the verdict lines (calibration on the unchanged tree)
cd "$(dirname "$0")/.." || exit 2
tier=$1; shift
for seed in "$@"; do
  for id in C01 C02 C03 C04 C05 C06 C07 C08 C09 C10 C11 C12 C13 C14 C15 C16 C17 C18 C19 C20; do
    out=$(VERIF_SEED=$seed VERIF_NO_EVIDENCE=${SWEEP_NO_EVIDENCE:-1} ./check $id --tier $tier 2>&1)
    rc=$?
    echo "$out" | grep -E "^(VIOLATION|INCONCLUSIVE|note:)" | cut -c1-300
    echo "rc=$rc $(echo "$out" | tail -1)"
  done
done
