#!/venv/bin/python
"""tools/clauses.py - rewrites the clause inventory of DESIGN.md (between <!-- CLAUSES:BEGIN/END -->): for every check the
monitor clauses that must have been evaluated at least once for a run to count (REQUIRED_CLAUSES; a run in which one of them
was never evaluated is INCONCLUSIVE), the interpreter flag sets, and whether the concurrency hammer is used."""
import importlib, os, re, sys
HERE = os.path.dirname(os.path.dirname(os.path.abspath(__file__)))
sys.path.insert(0, HERE)
sys.path.insert(0, '/repo')
lines = []
for i in range(1, 21):
    m = importlib.import_module('checks.c%02d' % i)
    req = list(getattr(m, 'REQUIRED_CLAUSES', []))
    flags = getattr(m, 'INTERPRETER_FLAGS', [[]])
    extra = []
    if getattr(m, 'CONCURRENT', None) is not None:
        extra.append('concurrent replay')
    if getattr(m, 'HAMMER', None) is not None:
        extra.append('hammer')
    lines.append('* **%s** (%d required clauses; worker flag sets: %s%s): %s' % (
        m.PROPERTY, len(req), ', '.join('`%s`' % (' '.join(f) or 'none') for f in flags),
        ('; ' + ' + '.join(extra)) if extra else '', ', '.join('`%s`' % c for c in req)))
block = '<!-- CLAUSES:BEGIN -->\n' + '\n'.join(lines) + '\n<!-- CLAUSES:END -->'
p = os.path.join(HERE, 'DESIGN.md')
s = open(p).read()
if '<!-- CLAUSES:BEGIN -->' in s:
    s = re.sub(r'<!-- CLAUSES:BEGIN -->.*?<!-- CLAUSES:END -->', lambda mm: block, s, flags=re.S)
    open(p, 'w').write(s)
    print('DESIGN.md clause inventory rewritten')
else:
    print(block)
