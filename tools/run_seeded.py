#!/venv/bin/python
"""Runs the registered checks against the independently seeded changes in seeded/<name>/.

For each seeded/<name>/ (patch.diff, demo.py, meta.json): copy /repo to a scratch directory outside /repo and /verif,
confirm the demonstration passes there, apply the patch, confirm the repository's own tests still pass the baseline and the
demonstration now fails, run the property's quick check (and, if that misses, the thorough check) with VERIF_REPO pointing
at the copy, remove the copy.  Prints one row per change; writes seeded/RESULTS.json.
Usage: tools/run_seeded.py [name-substring ...] [--quick-only] [--in-repo] [--checks-only]
  --in-repo : apply the patch to /repo itself (git apply), run, and undo (git checkout -- .) - only when nothing else uses /repo
"""
import glob, json, os, shutil, subprocess, sys, tempfile
HERE = os.path.dirname(os.path.dirname(os.path.abspath(__file__)))
args = [a for a in sys.argv[1:] if not a.startswith('--')]
quick_only = '--quick-only' in sys.argv
in_repo = '--in-repo' in sys.argv
checks_only = '--checks-only' in sys.argv      # regression runs: demo and repository tests were verified when the change arrived
results = {}
respath = os.environ.get('SEEDED_RESULTS') or os.path.join(HERE, 'seeded', 'RESULTS.json')   # parallel runs: one file each, merged afterwards
if os.path.exists(respath):
    results = json.load(open(respath))
main = os.path.join(HERE, 'seeded', 'RESULTS.json')
prior = json.load(open(main)) if os.path.exists(main) else {}


def run_check(prop, tier, repo):
    env = dict(os.environ, VERIF_NO_EVIDENCE='1', VERIF_REPLAYS=os.path.join(os.path.dirname(repo), 'replays'))
    if repo != '/repo':
        env['VERIF_REPO'] = repo
    r = subprocess.run([os.path.join(HERE, 'check'), prop, '--tier', tier], capture_output=True, text=True, env=env)
    viol = [l for l in r.stdout.splitlines() if l.startswith('VIOLATION')]
    clause = [l.strip()[:160] for l in r.stdout.splitlines() if l.startswith('  clause=')][:1]
    tail = r.stdout.strip().splitlines()[-1] if r.stdout.strip() else ''
    return r.returncode, len(viol), (clause[0] if clause else ''), tail


for d in sorted(glob.glob(os.path.join(HERE, 'seeded', '*', ''))):
    name = os.path.basename(d.rstrip('/'))
    if args and not any(a in name for a in args):
        continue
    meta = json.load(open(os.path.join(d, 'meta.json')))
    props = meta['property'] if isinstance(meta['property'], list) else [meta['property']]
    props = meta.get('checked_by', props)
    row = {'property': props}
    scratch = tempfile.mkdtemp(prefix='seeded-%s-' % name, dir='/dev/shm')
    try:
        if in_repo:
            dst = '/repo'
        else:
            dst = os.path.join(scratch, 'repo')
            shutil.copytree('/repo', dst, ignore=shutil.ignore_patterns('.git', '__pycache__', '*.pyc', '*.egg-info'))
        # same layout the demonstration was written for: <checkout>/_out/<k>/demo.py
        k = name.split('-')[-1]
        outdir = os.path.join(dst, '_out', k)
        os.makedirs(os.path.dirname(outdir), exist_ok=True)
        shutil.copytree(d, outdir)

        def run_demo():
            r = subprocess.run(['/venv/bin/python', os.path.join('_out', k, 'demo.py')], cwd=dst, capture_output=True,
                               text=True, env=dict(os.environ, PYTHONPATH=dst), timeout=600)
            return r.returncode
        row['demo_clean'] = run_demo() if not checks_only else prior.get(name, {}).get('demo_clean')
        r = subprocess.run(['git', 'apply', os.path.join(d, 'patch.diff')], cwd=dst, capture_output=True, text=True)
        if r.returncode != 0:
            row['apply'] = 'FAILED: ' + r.stderr[:200]
        else:
            try:
                row['apply'] = 'ok'
                if checks_only:
                    row['demo_patched'] = prior.get(name, {}).get('demo_patched')
                    row['tests'] = prior.get(name, {}).get('tests')
                else:
                    row['demo_patched'] = run_demo()
                    t = subprocess.run([os.path.join(HERE, 'tools', 'baseline.py'), dst], capture_output=True, text=True,
                                       env=dict(os.environ, PYTHONPATH=dst))
                    row['tests'] = 'pass' if t.returncode == 0 else 'FAIL'
                row['checks'] = {}
                for prop in props:
                    rc, nv, clause, tail = run_check(prop, 'quick', dst)
                    row['checks'][prop] = {'quick': 'CAUGHT' if rc == 1 and nv else 'missed(exit %d)' % rc, 'clause': clause}
                    if not (rc == 1 and nv) and not quick_only:
                        rc, nv, clause, tail = run_check(prop, 'thorough', dst)
                        row['checks'][prop]['thorough'] = 'CAUGHT' if rc == 1 and nv else 'missed(exit %d)' % rc
                        row['checks'][prop]['clause'] = clause
            finally:
                if in_repo:
                    subprocess.run(['git', '-C', '/repo', 'checkout', '--', '.'])
                    shutil.rmtree('/repo/_out', ignore_errors=True)
    finally:
        shutil.rmtree(scratch, ignore_errors=True)
    results[name] = row
    print(name, json.dumps(row)[:400], flush=True)
    with open(respath, 'w') as f:
        json.dump(results, f, indent=1, sort_keys=True)
