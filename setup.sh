#!/bin/sh
# Offline setup: nothing to build; verify the interpreter, the repository import and the framework.
set -e
cd "$(dirname "$0")"
/venv/bin/python - <<'PY'
import sys
assert sys.version_info >= (3, 12), sys.version
sys.path.insert(0, '/repo')
import oslo_utils, netaddr, pyparsing, packaging  # noqa
sys.path.insert(0, '.')
import vlib.runner, vlib.ctx, vlib.known, vlib.reach  # noqa
vlib.known.load()
print('setup ok', sys.version.split()[0], oslo_utils.__file__)
PY
mkdir -p evidence replays
